"""C12 — reusable containers: match std behaviour; clearing keeps capacity for reuse."""
import json
import os
import re
import vlib
from vlib import Check, sh, VERIF


META = {
    "engine": "E1+E2+E3+E5",
    "text": "Coq theorems over an executable model of ReusableVector (size, constructed_size, capacity, per-cell "
            "raw/constructed ghost state) for every sequence of push/pop/insert/emplace/erase/resize/reserve/assign/"
            "clear operations and every special member function (plain and allocator-extended copy / move construction, copy / "
            "move assignment with equal and different allocators, member swap, ADL swap, std::swap) on two vectors that both "
            "stay in use afterwards: the contents always equal the "
            "std::vector (list) result, size <= constructed <= capacity, no construct over a live element and no "
            "assign/destroy of raw storage, constructor/destructor calls balance, clear keeps capacity and "
            "constructed elements, the manager's clear leaves an empty instance and its periodic rebuild keeps every "
            "constructed slot, and a workload whose demand fits the capacity takes nothing from the resource.  All "
            "branch conditions, loop bounds, move sources and size formulas of vector.hpp / manager.hpp are "
            "regenerated on every run (an edited expression re-opens a proof); the hand-written control structure "
            "is tied by running the extracted model and the real SwissVector on the same operation sequences "
            "(three-way with std::vector; int, counting, SwissString, nested and std::basic_string elements) and "
            "the real SwissManager on repeated workloads with space_used/space_allocated monitors.",
    "note": "Trusted: Coq kernel, translator, ExtrOcamlBasic extraction + OCaml driver, C++ harness.  Abstracted: "
            "element values are integers; what a move leaves in its source is a parameter (mva / mvc / smv, all theorems "
            "hold for every choice, including a destructive self-move); strings are std::basic_string over the monotonic "
            "allocator and only their reuse/metadata behaviour is monitored (SwissString vs std::string differential; string "
            "element values and assigned std::strings carry embedded NUL bytes, size + bytes compared, on first construction and "
            "on recycled slots; that the foreign-string assignment passes other.size() is regenerated as foreign_assign_len and "
            "required by c12_string_assign_exact); "
            "protobuf messages are not modelled, a managed ArenaExample is monitored against a heap message (equal "
            "contents; after every manager.clear(), rebuild included, equal to a fresh message: has-bits, ByteSizeLong, "
            "serialisation, DebugString), managed BOTH through typed create_object<T>() and base-registered "
            "create_object<google::protobuf::Message>(creator); that reserve() itself ends with message.Clear() is regenerated "
            "(msg_reserve_clears) and required by c12_message_recreate_fresh.  The theorems assume that arguments do not alias "
            "the vector's own elements; the real class is monitored with aliasing arguments against std::vector and differs "
            "(finding aliased-argument: push_back(v[i]) at a growth boundary, insert(pos, v[i]), insert(pos, n, v[i])).  History: insert of zero "
            "elements used to self-move-assign every constructed element from the position on (fixed in 5fb90d9 by an "
            "early return, now regenerated as pfi_zero_cond / pfi_zero_ret and required by the proofs) and a message "
            "rebuilt by the manager kept the has-bit of used sub-messages (fixed in 6344245); both are ordinary monitors "
            "now, a recurrence is a VIOLATION.  A manager rebuild sizes the vector by constructed_size, so capacity "
            "reserved beyond the constructed elements is not kept across a rebuild (c12_manager_cycle states capacity >= "
            "constructed, not >= old capacity).",
}

TYPES_V = ["i", "c", "s", "n", "b"]


def strip_line(line, ty):
    """canonical part comparable between model and implementation for element type ty."""
    obs = line.split(" | ")[0]
    if ty != "c":
        obs = re.sub(r" ; ctor=\S+ dtor=\S+", "", obs)
    if ty not in ("i", "c"):
        obs = re.sub(r"\|[^\]]*\]", "|]", obs)
    return obs


class Gen:
    """valid operation sequences; tracks the sizes of a and b."""

    def __init__(self, rng, maxn=9):
        self.r = rng
        self.sz = {"a": 0, "b": 0}
        self.cs = {"a": 0, "b": 0}
        self.res = {"a": 1, "b": 1}      # which of the two resources the object's allocator refers to
        self.maxn = maxn

    def val(self):
        return 1 + self.r.below(99) if self.r.chance(9, 10) else 0

    def vals(self, n):
        return ",".join(str(self.val()) for _ in range(n))

    def op(self, w, allow_zero=True):
        r, sz, cs = self.r, self.sz[w], self.cs[w]
        k = r.below(20)
        room = max(0, self.maxn - sz)
        if k <= 2:
            self.sz[w] += 1
            t = "pb.%d" % self.val()
        elif k == 3 and sz > 0:
            self.sz[w] -= 1
            t = "pop"
        elif k <= 5:
            i = r.below(sz + 1)
            self.sz[w] += 1
            t = "ins.%d.%d" % (i, self.val())
        elif k <= 8:
            i = r.below(sz + 1)
            # aim the count at the constructed_size boundary: index+count and size+count around constructed
            cands = [cs - i - 1, cs - i, cs - i + 1, cs - sz, cs - sz + 1, 1, 2, r.below(4)]
            if allow_zero:
                cands.append(0)
            n = r.choice([c for c in cands if c >= (0 if allow_zero else 1) and c <= room + 2] or [1])
            self.sz[w] += n
            if r.chance(1, 2):
                t = "insn.%d.%d.%d" % (i, n, self.val())
            else:
                t = "insr.%d.%s" % (i, self.vals(n))
        elif k <= 10 and sz > 0:
            i = r.below(sz + 1)
            j = i + r.below(sz - i + 1)
            self.sz[w] -= j - i
            t = "er.%d.%d" % (i, j)
        elif k == 11:
            n = r.choice([0, sz, max(0, sz - 1), sz + 1, cs, cs + 1, max(0, cs - 1), r.below(self.maxn + 3)])
            self.sz[w] = n
            t = "rs.%d" % n if r.chance(1, 2) else "rsv.%d.%d" % (n, self.val())
        elif k == 12:
            t = "res.%d" % r.choice([0, sz, cs, cs + 1, r.below(2 * self.maxn)])
        elif k <= 14:
            self.sz[w] = 0
            t = "clr"
        elif k == 15:
            n = r.choice([0, cs, cs + 1, max(0, cs - 1), r.below(self.maxn)])
            self.sz[w] = n
            t = "asn.%d.%d" % (n, self.val())
        elif k == 16:
            n = r.choice([0, cs, cs + 1, max(0, cs - 1), r.below(self.maxn)])
            self.sz[w] = n
            t = "asr.%s" % self.vals(n)
        elif k == 17:
            n = r.choice([0, cs, cs + 1, r.below(self.maxn)])
            self.sz[w] = n
            t = "asc.%d" % n
        elif sz > 0:
            t = "set.%d.%d" % (r.below(sz), self.val())
        else:
            self.sz[w] += 1
            t = "pb.%d" % self.val()
        self.cs[w] = max(self.cs[w], self.sz[w])
        return t

    def whole(self, kind=None):
        """one whole-object operation (special member function / swap); both objects stay in use afterwards."""
        r = self.r
        w, o = r.choice([("a", "b"), ("b", "a")])
        same = self.res[w] == self.res[o]
        kind = kind or r.choice(["swap", "swapstd", "cp", "mv", "cc", "cx", "mc", "mc", "mx", "mx"])
        if kind in ("swap", "swapstd"):
            if not same:
                kind = "cp"
            else:
                self.sz["a"], self.sz["b"] = self.sz["b"], self.sz["a"]
                self.cs["a"], self.cs["b"] = self.cs["b"], self.cs["a"]
                return kind
        if kind == "cp":
            self.sz[w] = self.sz[o]
            self.cs[w] = max(self.cs[w], self.sz[w])
            return "cp" + w + o
        if kind == "mv":
            if same:
                cw = self.cs[w]
                self.sz[w], self.cs[w] = self.sz[o], self.cs[o]
                self.sz[o], self.cs[o] = 0, cw
                return "mv" + w + o
            self.sz[w] = self.sz[o]
            self.cs[w] = max(self.cs[w], self.sz[w])
            self.sz[o] = 0
            return "mv" + w + o + "d"
        if kind == "cc":
            self.sz[w] = self.cs[w] = self.sz[o]
            self.res[w] = self.res[o]
            return "cc" + w + o
        if kind == "cx":
            k = 1 + r.below(2)
            self.sz[w] = self.cs[w] = self.sz[o]
            self.res[w] = k
            return "cx%s%s%d" % (w, o, k)
        if kind == "mc":
            self.sz[w], self.cs[w] = self.sz[o], self.cs[o]
            self.sz[o], self.cs[o] = 0, 0
            self.res[w] = self.res[o]
            return "mc" + w + o
        k = 1 + r.below(2)
        if k == self.res[o]:
            self.sz[w], self.cs[w] = self.sz[o], self.cs[o]
            self.sz[o], self.cs[o] = 0, 0
            self.res[w] = k
            return "mx%s%s%ds" % (w, o, k)
        self.sz[w] = self.cs[w] = self.sz[o]
        self.sz[o] = 0
        self.res[w] = k
        return "mx%s%s%dd" % (w, o, k)

    def op2(self, allow_zero=True):
        r = self.r
        if r.below(14) < 3:
            return self.whole()
        w = "a" if r.chance(2, 3) else "b"
        return w + "." + self.op(w, allow_zero)


def special_cases(rng):
    """every special member function / swap flavour on vectors with and without a reuse window, then BOTH objects keep
    being used: push_back, assign, resize, reserve, insert, clear, and finally their destruction."""
    out = []
    setups = [["b.asr.10,11,12"], ["b.asr.10,11,12,13,14", "b.er.1.4", "a.asr.1,2"], ["b.asr.10,11", "b.clr", "a.pb.1"],
              ["a.asr.1,2,3", "a.pop"]]
    follow = [["%s.pb.7", "%s.pb.8", "%s.asr.4,5,6"], ["%s.asn.3.9", "%s.rs.6"], ["%s.res.9", "%s.pb.3"],
              ["%s.insn.0.2.6", "%s.clr", "%s.pb.2"], ["%s.rsv.4.5", "%s.insr.1.7,8"]]
    for kind in ["swap", "swapstd", "cp", "mv", "cc", "cx", "mc", "mx"]:
        for si, setup in enumerate(setups):
            for rep in range(3):
                g = Gen(rng)
                toks = list(setup)
                # replay the setup through the tracker (sizes only matter for validity of later random ops)
                for t in setup:
                    w, f = t.split(".", 1)
                    f = f.split(".")
                    if f[0] == "asr":
                        g.sz[w] = len(f[1].split(","))
                    elif f[0] == "er":
                        g.sz[w] -= int(f[2]) - int(f[1])
                    elif f[0] == "clr":
                        g.sz[w] = 0
                    elif f[0] == "pb":
                        g.sz[w] += 1
                    elif f[0] == "pop":
                        g.sz[w] -= 1
                    g.cs[w] = max(g.cs[w], g.sz[w])
                if rep == 2:
                    toks.append(g.whole("cx"))       # put one object on the other resource first
                toks.append(g.whole(kind))
                fa, fb = follow[(si + rep) % len(follow)], follow[(si + rep + 2) % len(follow)]
                for x, y in zip(fa, fb):
                    for w, t in (("b", x), ("a", y)):
                        t = t % w
                        f = t.split(".")
                        # keep the tracker in step and the op valid
                        if f[1] == "insn":
                            g.sz[w] += int(f[3])
                        elif f[1] == "insr":
                            if g.sz[w] < int(f[2]):
                                continue
                            g.sz[w] += len(f[3].split(","))
                        elif f[1] == "pb":
                            g.sz[w] += 1
                        elif f[1] == "asr":
                            g.sz[w] = len(f[2].split(","))
                        elif f[1] in ("asn", "rs", "rsv"):
                            g.sz[w] = int(f[2])
                        elif f[1] == "clr":
                            g.sz[w] = 0
                        g.cs[w] = max(g.cs[w], g.sz[w])
                        toks.append(t)
                toks.append(g.whole(kind))
                toks += [g.op2() for _ in range(4)]
                out.append(toks)
    return out


def boundary_cases(ty, maxcs, zero):
    """every (constructed, size, index, count) window of prepare_for_insert, reached by assign + erase-tail."""
    out = []
    for cs in range(0, maxcs + 1):
        for sz in range(0, cs + 1):
            for idx in range(0, sz + 1):
                for cnt in range(0 if zero else 1, cs - idx + 3):
                    pre = []
                    if cs:
                        pre.append("a.asr." + ",".join(str(10 + j) for j in range(cs)))
                    if sz < cs:
                        pre.append("a.er.%d.%d" % (sz, cs))
                    for form in ("n", "r") + (("e",) if cnt == 1 else ()):
                        if form == "n":
                            t = "a.insn.%d.%d.77" % (idx, cnt)
                        elif form == "r":
                            t = "a.insr.%d.%s" % (idx, ",".join(str(50 + j) for j in range(cnt)))
                        else:
                            t = "a.ins.%d.77" % idx
                        out.append((ty, pre + [t, "a.pb.5", "a.rs.%d" % (cs + 1)]))
    return out


def main(argv):
    chk = Check("C12", argv)
    thorough = chk.tier == "thorough"
    chk.translate(["reusable_vector"])
    chk.coq("Properties_C12.v")
    model = chk.extract("rv", "Extract_rv.v", "rv_driver.ml")
    lib = chk.repolib_all()
    impl = chk.build_cpp("c12_reusable", [os.path.join(VERIF, "harness/seq/c12_reusable.cpp")], objs=[lib]) if lib else None

    # protobuf part: generated code of /repo/test/proto/arena_example.proto, compiled once per change
    impl_pb = None
    if lib:
        pbdir = os.path.join(vlib.BUILD, "c12pb")
        os.makedirs(pbdir, exist_ok=True)
        proto = os.path.join(vlib.REPO, "test/proto/arena_example.proto")
        pbcc, pbo = os.path.join(pbdir, "arena_example.pb.cc"), os.path.join(pbdir, "arena_example.pb.o")
        with vlib.Lock("c12pb"):
            ok = True
            if not os.path.exists(pbcc) or os.path.getmtime(pbcc) < os.path.getmtime(proto):
                rc, out, err = sh(["protoc", "--cpp_out=" + pbdir, "-I", os.path.dirname(proto), proto], timeout=120)
                ok = rc == 0
            if ok and (not os.path.exists(pbo) or os.path.getmtime(pbo) < os.path.getmtime(pbcc)):
                rc, out, err = sh([vlib.CXX] + vlib.CXXFLAGS + ["-I" + pbdir, "-c", pbcc, "-o", pbo], timeout=600)
                ok = rc == 0
            if not ok:
                chk.broke("harness", "protoc / compile arena_example.pb.cc", (out + err)[-1500:])
        if ok:
            impl_pb = chk.build_cpp("c12_message", [os.path.join(VERIF, "harness/seq/c12_message.cpp")], objs=[pbo, lib],
                                    flags=["-I" + pbdir])

    lines = []        # (id, type, mode, text after id)
    if chk.replay:
        r = json.load(open(chk.replay))["replay"]
        lines.append(("r0", r["type"], r["mode"], r["case"]))
    else:
        n = 0
        # 1. exhaustive small windows of prepare_for_insert
        for ty in ["i", "c", "s", "n"]:
            for t, toks in boundary_cases(ty, 5 if thorough else 4, True):
                lines.append(("v%d" % n, t, "V", "V %s %s" % (t, " ".join(toks))))
                n += 1
        for t, toks in boundary_cases("b", 4 if thorough else 3, True):
            lines.append(("v%d" % n, t, "V", "V %s %s" % (t, " ".join(toks))))
            n += 1
        # element type whose self-move-assignment is destructive: zero-length inserts must not touch anything
        for toks in (["a.asr.1,2,3", "a.insn.1.0.9", "a.pb.4"], ["a.asr.1,2,3", "a.insr.0.", "a.pb.4"],
                     ["a.asr.1,2,3,4", "a.er.2.4", "a.insn.2.0.9", "a.rs.4"]):
            lines.append(("v%d" % n, "b", "V", "V b " + " ".join(toks)))
            n += 1
        # 1b. every special member function / swap flavour, both objects used afterwards
        for ty in TYPES_V:
            for toks in special_cases(chk.rng):
                lines.append(("v%d" % n, ty, "V", "V %s %s" % (ty, " ".join(toks))))
                n += 1
        # 2. random two-vector sequences
        for ty in TYPES_V:
            for _ in range(2500 if thorough else 260):
                g = Gen(chk.rng, 6 + chk.rng.below(8))
                toks = [g.op2() for _ in range(6 + chk.rng.below(30))]
                lines.append(("v%d" % n, ty, "V", "V %s %s" % (ty, " ".join(toks))))
                n += 1
        # 3. manager cycles: every clear / recreate cadence around the interval
        for ty in ["i", "c", "s", "n"]:
            for itv in [0, 1, 2, 3, 5] + ([7, 11] if thorough else []):
                for _ in range(40 if thorough else 8):
                    g = Gen(chk.rng, 5 + chk.rng.below(8))
                    toks = [g.op("a") for _ in range(2 + chk.rng.below(12))]
                    cycles = 3 * max(itv, 1) + 2
                    lines.append(("m%d" % n, ty, "M", "M %s %d %d %s" % (ty, itv, cycles, " ".join(toks))))
                    n += 1
        # 4. managed SwissString against std::string
        for itv in [0, 1, 2, 3, 5]:
            for _ in range(60 if thorough else 12):
                lines.append(("s%d" % n, "S", "S", "S %d %d %d" % (itv, 3 * max(itv, 1) + 2, chk.rng.below(1 << 40))))
                n += 1
        # 5. protobuf message managed both ways (typed and base-registered through reflection) against a heap message;
        #    vary=1 alternates heavy and light workloads so that fields used in one cycle are untouched in the next
        for itv in [1, 2, 3, 5]:
            for j in range(48 if thorough else 12):
                lines.append(("p%d" % n, "P", "P", "P %d %d %d %d" % (itv, 3 * itv + 3, chk.rng.below(1 << 40), j % 2)))
                n += 1
        # 5b. vectors of protobuf messages: seeded random sequences with every special member function, two objects
        for _ in range(1500 if thorough else 200):
            lines.append(("q%d" % n, "Q", "Q", "Q %d" % chk.rng.below(1 << 40)))
            n += 1
        # 6. arguments that alias an element of the vector operated on (std::vector is required to cope): monitor only
        for ty in ["i", "s"]:
            for k in range(1, 6):
                pre = "a.asr." + ",".join(str(10 + j) for j in range(k))
                al = ["a.pba.%d" % i for i in range(k)]
                al += ["a.insa.%d.%d" % (pos, i) for pos in range(k + 1) for i in range(k)]
                al += ["a.insna.%d.%d.%d" % (pos, c, i) for pos in range(k + 1) for c in (1, 2) for i in range(k)]
                for t in al:
                    for extra in ([], ["a.res.%d" % (2 * k + 4)]):
                        lines.append(("a%d" % n, ty, "A", "A %s %s" % (ty, " ".join([pre] + extra + [t, "a.pb.5"]))))
                        n += 1
    chk.log("%d cases" % len(lines))
    text = {i: t for i, _, _, t in lines}
    impl_out, model_out = {}, {}
    if impl:
        impl_out = chk.run_cases(impl, ["%s %s" % (i, t) for i, _, m, t in lines if m not in ("P", "Q")], timeout=300)
    if impl_pb:
        impl_out.update(chk.run_cases(impl_pb, ["%s %s" % (i, t) for i, _, m, t in lines if m in ("P", "Q")], timeout=300))
    if model:
        model_out = chk.run_cases(model, ["%s %s" % (i, t) for i, _, m, t in lines if m not in ("S", "P", "A", "Q")], timeout=900)

    SIGS_V = [("cap_mono", "capacity-shrunk", "capacity of a vector decreased"),
              ("clear_keep", "clear-lost-capacity", "clear() changed capacity / constructed_size / buffer or left elements"),
              ("size_le", "size-order", "size <= constructed_size <= capacity broken"),
              ("disc", "ctor-dtor-discipline", "an element was constructed over a live one, or raw storage was assigned/destroyed"),
              ("live_ok", "live-count", "live elements in the resource != constructed_size"),
              ("dtor_bal", "dtor-balance", "elements still alive after the vectors were destroyed")]
    # alloc_ok=0 means the generator's idea of which resource an object lives on is wrong (harness problem, not a finding)
    SIGS_M = [("fresh", "clear-not-fresh", "after manager.clear() the instance is not empty"),
              ("acc_ok", "accessor-invalid", "accessor does not point into the manager's resource after clear"),
              ("keep", "manager-clear-lost-capacity", "logical clear through the manager shrank capacity / moved the buffer"),
              ("elem_keep", "manager-clear-lost-element-capacity", "logical clear through the manager shrank an element's capacity"),
              ("rebuilt_cap", "recreate-lost-capacity", "instance rebuilt from metadata has less capacity than was constructed before"),
              ("no_growth", "converged-workload-allocates", "after convergence a repeated fitting workload took new memory from the resource"),
              ("alloc_stable", "space-allocated-grows", "space_allocated grows from period to period after convergence"),
              ("cadence", "recreate-cadence", "instance re-created outside the configured interval"),
              ("disc", "ctor-dtor-discipline", "an element was constructed over a live one, or raw storage was assigned/destroyed")]
    validated = 0
    nontrivial = set()
    ncorr = 0
    for i, ty, mode, t in lines:
        rep = {"type": ty, "mode": mode, "case": t}
        il, ml = impl_out.get(i), model_out.get(i)
        if mode == "Q":
            if impl_pb and il is None:
                chk.broke("harness", "no output for case " + i, t)
            elif il is not None and (il.startswith("CRASH") or " | " not in il):
                chk.violate("impl-crash", "SwissVector<ArenaExample> crashed on the seeded sequence: %s (%s)" % (t, il[:200]), rep)
            elif il is not None:
                mon = dict(kv.split("=") for kv in il.split(" | ")[1].split())
                ops = il.split(" | ")[0]
                if mon.get("size_le") != "1":
                    chk.violate("size-order", "size <= constructed_size <= capacity broken on a vector of protobuf messages after "
                                "op #%s of:%s" % (mon.get("first_bad"), ops[len(i):][:400]), dict(rep, ops=ops))
                if mon.get("std_eq") != "1":
                    chk.violate("contents-differ-from-std", "contents of a vector of protobuf messages differ from std::vector after "
                                "op #%s of:%s" % (mon.get("first_bad"), ops[len(i):][:400]), dict(rep, ops=ops))
            continue
        if mode == "P":
            if impl_pb and il is None:
                chk.broke("harness", "no output for case " + i, t)
            elif il is not None and (il.startswith("CRASH") or " | " not in il):
                chk.violate("impl-crash", "managed protobuf message crashed on: %s (%s)" % (t, il[:200]), rep)
            elif il is not None:
                mon = dict(kv.split("=") for kv in il.split(" | ")[1].split())
                for sfx, how in (("_t", "typed create_object<ArenaExample>()"),
                                 ("_b", "base-registered create_object<google::protobuf::Message>(creator)")):
                    if mon.get("fresh" + sfx) != "1":
                        chk.violate("message-clear-not-fresh", "after manager.clear() (logical clear or rebuild) a protobuf message "
                                    "managed through %s is not equal to a fresh one (has-bits / ByteSizeLong / serialisation / "
                                    "DebugString): %s ; %s" % (how, t, il.split(" | ")[0][-160:]), dict(rep, path=how))
                    for key, sig, what in [("same", "message-differs-from-heap", "arena message differs from a heap message driven by the same setters"),
                                           ("acc_ok", "accessor-invalid", "accessor does not point into the manager's resource after clear"),
                                           ("on_arena", "message-not-on-arena", "managed message is not on the manager's arena"),
                                           ("no_growth", "converged-workload-allocates", "space_used of the resource grows from period to period for a repeated message workload")]:
                        if mon.get(key + sfx) != "1":
                            chk.violate(sig, "%s (%s): %s" % (what, how, t), rep)
            continue
        if impl and il is None:
            chk.broke("harness", "no output for case " + i, t)
            continue
        if il is not None and (il.startswith("CRASH") or " | " not in il):
            chk.violate("impl-crash", "real container crashed / aborted on: %s (%s)" % (t, il[:200]), rep)
            continue
        if il is not None:
            mon = dict(kv.split("=") for kv in il.split(" | ")[1].split())
            if mon.get("std_eq") != "1":
                toks = t.split()[2:] if mode in ("V", "A") else t.split()[4:]
                fb = int(mon.get("first_bad", "-1"))
                tok = toks[fb] if 0 <= fb < len(toks) else "?"
                if mode == "S":
                    chk.violate("string-differs-from-std", "managed SwissString differs from std::string: " + t, rep)
                elif mode == "A":
                    chk.violate("aliased-argument", "an argument that refers to an element of the vector itself (%s) gives contents "
                                "different from std::vector: %s ; %s" % (tok, t, il.split(" ; ")[0][-120:]), rep)
                else:
                    chk.violate("contents-differ-from-std", "contents of a vector of %s elements differ from std::vector after "
                                "op #%d (%s) of: %s" % ({"b": "std::basic_string", "i": "int", "c": "counting", "s": "SwissString",
                                                         "n": "nested vector"}.get(ty, ty), fb, tok, t), rep)
            if mon.get("alloc_ok", "1") != "1":
                chk.broke("harness", "resource tracking of case " + i, t)
            for key, sig, what in (SIGS_V if mode in ("V", "A") else SIGS_M if mode == "M" else SIGS_M[:3] + SIGS_M[4:6]):
                if key in mon and mon[key] != "1":
                    chk.violate(sig, "%s: %s" % (what, t), rep)
        if ml is not None:
            if ml.startswith("CRASH") or " | " not in ml:
                chk.broke("correspondence", "model driver", ml[:300])
                continue
            if "e=0" not in ml.split(" | ")[1]:
                chk.violate("model-ghost-discipline", "model: construct over a constructed cell / use of a raw cell on "
                            + t, dict(rep, level="model"))
            if il is not None:
                validated += 1
                a, b = strip_line(il, ty), strip_line(ml, ty)
                if a != b:
                    ncorr += 1
                    if ncorr <= 5:
                        chk.broke("correspondence", "RVModel vs SwissVector<%s> on %s" % (ty, i),
                                  "case : %s\nimpl : %s\nmodel: %s" % (t, a, b))
            # non-trivial: some insertion / growth happened while constructed_size > size (reuse window)
            sts = re.findall(r"[AWC]=(\d+)/(\d+)/(\d+)", ml)
            if any(int(c) > int(s) for s, c, _ in sts[:-1]):
                nontrivial.add(t)
    chk.cov["evaluations"] = len(lines)
    chk.cov["distinct_nontrivial"] = len(nontrivial)
    chk.cov["traces_validated_against_impl"] = validated
    chk.cov["rule"] = ("cases = operation sequences on two vectors sharing a resource (element types int, counting, "
                       "SwissString, nested SwissVector<int>, std::basic_string): every (constructed, size, index, count) "
                       "window of prepare_for_insert up to constructed 4 (5 thorough) through insert(n), insert(range) and "
                       "emplace, seeded random sequences whose counts/sizes are aimed at the constructed_size boundary, "
                       "manager workloads for intervals 0,1,2,3,5 over 3 periods + 2 cycles, managed SwissString vs "
                       "std::string, protobuf ArenaExample managed typed and base-registered vs heap message (intervals 1,2,3,5, constant and "
                       "alternating heavy/light workloads), aliasing-argument cases (push_back(v[i]), insert(pos[,n], v[i])); non-trivial = distinct "
                       "cases that operate on a vector holding constructed elements beyond its size")
    for i, ty, mode, t in lines[:: max(1, len(lines) // 5)]:
        chk.sample({"case": t, "impl": (impl_out.get(i) or "")[:400], "model": (model_out.get(i) or "")[:400]})
    chk.cov["trusted_base"] = chk.cov.get("trusted_base", []) + [
        "translator/gen.py (C expression subset -> Z; size_t arithmetic taken as unbounded Z)",
        "extraction: ExtrOcamlBasic only; ocaml/rv_driver.ml",
        "harness/seq/c12_reusable.cpp (std::vector / std::string reference, counting element registry), "
        "harness/seq/c12_message.cpp + protoc-generated test/proto/arena_example.proto",
        "modelled not verified: the monotonic resource (fresh storage per allocate), libstdc++ basic_string, element types",
    ]
    chk.assumptions = ["operation preconditions of std::vector (positions within [0,size], pop on non-empty)",
                       "arguments do not alias elements of the vector operated on",
                       ]
    chk.notes["note"] = META["note"]
    chk.finish("proof")
