"""C11 — serialization: round trip, exact size, protobuf wire compatibility, hostile-input safety."""
import concurrent.futures
import json
import os
import re
import vlib
from vlib import Check, sh, VERIF, BUILD

META = {
    "engine": "E1+E2+E3+E5",
    "text": "Coq theorems over an executable model of babylon::Serialization (scalars, enum, string, vector/list/"
            "array/set/map, unique_ptr/shared_ptr, BABYLON_SERIALIZABLE aggregates with field numbers and base "
            "classes) on top of a model of protobuf's CodedInputStream (the window up to the innermost limit, "
            "PushLimit/PopLimit, varint reads that fail with or without consuming).  Proved for all types/values of "
            "the universe: predicted size = bytes written; parsing the written bytes into a fresh object returns the "
            "value for EVERY type incl. unordered_set/map in any iteration order (smart pointers to empty encodings "
            "come back null; excluded and refuted: container elements that are smart pointers to scalars, streams "
            "without limit), debug and NDEBUG; for ALL byte strings and ALL types parsing under a limit terminates and "
            "only moves forward inside its window, what it returns is well shaped, and - for types without hash "
            "containers - a successful parse of arbitrary bytes serializes and parses back to itself; for every "
            "aggregate schema any sequence, in any order, of encodings of distinct known fields and unknown fields of "
            "every wire type parses to the defaults updated at exactly the fields present, and what an aggregate "
            "writes is, by a hand-written protobuf wire-format specification, a message carrying exactly its "
            "non-empty members with the payload kinds docs/serialization lists.  Tag shift/mask, varint size "
            "formula, the size==0 skip tests, the length-read failure branch, the pushed limit, the cache/skip order, "
            "unknown-field skip widths, the vector loop condition, the allocation guard of the smart-pointer parsers and the varint/fixed width every scalar trait (32 bit "
            "group, 64 bit group, enum, float, double) writes, reads and sizes with are regenerated from the sources on "
            "every run.  "
            "Tie: ~43 C++ types instantiating the real templates run on random typed values (extremes weighted), "
            "mutated encodings, crafted prefixes and raw bytes through flat array / string / chunked stream +- limit, "
            "in a debug and an NDEBUG+ASan+UBSan build, and must agree with the extracted model on success flag, "
            "value, re-serialised bytes and predicted size; monitors check the property text directly (round trip, "
            "exact size, success => stable, presentation independence, in-place re-use, no crash/sanitizer report); "
            "protoc-generated messages with the same schema check wire compatibility both ways, with unknown fields, "
            "shuffled fields and absent fields.",
    "note": "Trusted: Coq kernel; translator; extraction (ExtrOcamlBasic) + ocaml/se_driver.ml; the C++ harness; "
            "protobuf's CodedInputStream/CodedOutputStream and generated messages (modelled / used as oracle, not "
            "verified); std containers.  Also proved for all byte strings and all types: parsing under a limit never "
            "loops (c11_parse_terminates) and only moves forward inside its window (c11_decode_consumes); on a stream "
            "without limit the same for every type whose containers do not hold smart pointers to scalars.  Not "
            "proved (correspondence + monitors only): success => stable for types containing unordered_set/map; "
            "that protoc's classes implement the wire-format specification; independence of the chunking of a "
            "stream-backed input (the stream model has no chunks; monitors compare flat/string/chunked presentations; "
            "known exception: >= 10 continuation bytes where a tag is expected); the member size caches of re-used "
            "objects (not modelled: regular monitor on in-place re-use, plus a translator target on the order "
            "`field_cache = size; if (size == 0)`).  Not modelled: sizes >= 2^31, the text printer, the name-keyed "
            "Serializer registry; hash containers are duplicate-free insertion-ordered lists (iteration order of the "
            "real ones is canonicalised by sorting).  No byte outside the limit is visible to a parser by "
            "construction of the stream model; memory safety of the real code is checked by the sanitizer runs.  "
            "Fixed in /repo and now checked positively: TRIVIAL size complexity inherited by smart pointers (8a146e9: "
            "regenerated, c11_size_exact covers vectors/arrays of such elements again, size/crash monitors incl. empty "
            "vectors), base not counted in the whole-object cache decision (fed2aee: the size caches are not "
            "modelled, so this one stays monitor-only - mon_fresh serializes a pristine object before any size "
            "calculation - plus a translator target on the tally), stale member size cache (b1345b6), ignored failure of a "
            "length-prefix read (e367940; reverting either breaks a translator target, the latter also re-opens "
            "SEHang.dec_len_prog).  Still false of the code and kept as *_refuted theorems with witnesses replayed on "
            "the real classes (KNOWN_FINDINGS): null pointers to scalars inside containers vanish (and such a vector "
            "under a length prefix beyond the end of a stream without limit spins forever); a top-level vector on a "
            "stream without limit parses to empty (vector<float>: terminate).",
}

# ------------------------------------------------------------------ type family (must mirror c11_serialization.cpp)
INNER = "( agg 1 i32 2 str )"
ONLYSTR = "( agg 1 str 2 ( vec i32 ) )"
BIG = "( agg 1 b 2 i8 3 i16 4 i32 15 i64 16 u8 17 u16 2047 u32 2048 u64 300000 en 536870911 str 20 f64 )"
_CS = "1 b 2 i8 3 i16 4 i32 5 i64 6 u8 7 u16 8 u32 9 u64 16 f32 17 f64 18 en 19 str 20 str"
_CR = "44 ( vec b ) 47 ( vec i32 ) 48 ( vec i64 ) 51 ( vec u32 ) 52 ( vec u64 ) 59 ( vec f32 ) 60 ( vec f64 ) 61 ( vec en )"
CSUB = "( agg %s %s )" % (_CS, _CR)
COBJ = "( agg %s 21 %s %s )" % (_CS, CSUB, _CR)
ENUMS = ("( agg 1 en8 2 enu8 3 en 4 enu32 5 en64 6 enu64 7 ( vec en64 ) 8 ( arr 2 enu64 ) 9 ( map enu64 en64 ) "
         "10 ( up en64 ) 11 ( sp enu64 ) 12 ( list enu32 ) )")
TYPES = {
    "en8": "en8", "enu8": "enu8", "enu32": "enu32", "en64": "en64", "enu64": "enu64",
    "ven64": "( vec en64 )", "mapee": "( map enu64 en64 )", "upen64": "( up en64 )", "enums": ENUMS,
    "b": "b", "i8": "i8", "i16": "i16", "i32": "i32", "i64": "i64", "u8": "u8", "u16": "u16", "u32": "u32",
    "u64": "u64", "en": "en", "f32": "f32", "f64": "f64", "str": "str",
    "vi32": "( vec i32 )", "vu64": "( vec u64 )", "vb": "( vec b )", "vf32": "( vec f32 )", "vf64": "( vec f64 )",
    "vstr": "( vec str )", "vvi": "( vec ( vec i64 ) )", "lstr": "( list str )", "lu32": "( list u32 )",
    "seti": "( set i64 )", "sets": "( set str )", "mapsi": "( map str i32 )", "mapiv": "( map i32 ( vec str ) )",
    "upi": "( up i32 )", "ups": "( up str )", "spin": "( sp %s )" % INNER,
    "spi64": "( sp i64 )", "sps": "( sp str )", "upin": "( up %s )" % INNER,
    "vupi": "( vec ( up i32 ) )", "vups": "( vec ( up str ) )",
    "inner": INNER, "onlystr": ONLYSTR,
    "ptrs": "( agg 1 ( up str ) 2 ( up i32 ) 3 ( sp %s ) 4 ( vec ( up %s ) ) 5 ( sp %s ) 6 ( up %s ) 7 ( vec ( sp str ) ) )"
            % (INNER, INNER, ONLYSTR, ONLYSTR),
    "aggvupi": "( agg 1 ( vec ( up i32 ) ) 2 i32 )",
    "vupf": "( vec ( up f32 ) )", "lspd": "( list ( sp f64 ) )", "vpf": "( vec ( agg 1 ( up f32 ) ) )",
    "holdpf": "( agg 1 ( vec ( agg 1 ( up f32 ) ) ) 2 i32 3 ( arr 2 ( sp f64 ) ) )",
    "dvec": "( agg 1 ( vec str ) 2 i32 )", "dvec0": "( agg 1 ( vec str ) )",
    "dlist": "( agg 3 ( list i32 ) 1 str 2 i64 )", "dmap": "( agg 1 ( map str i32 ) 2 i32 )",
    "donly": "( agg 4 %s )" % ONLYSTR,
    "arr": "( agg 1 ( arr 3 i32 ) 2 ( arr 2 %s ) 3 ( arr 2 f32 ) 4 ( arr 2 str ) )" % INNER,
    "derived": "( agg 1 %s 5 i64 7 ( vec %s ) )" % (INNER, INNER),
    "auto": "( agg 1 u32 2 str 3 ( vec i64 ) )",
    "big": BIG,
    "nest": "( agg 1 %s 2 ( vec %s ) 3 %s 4 ( map str %s ) 5 ( vec ( vec str ) ) 6 ( list %s ) )"
            % (BIG, BIG, INNER, INNER, ONLYSTR),
    "csub": CSUB, "cobj": COBJ,
}
# value syntax only (no model): protobuf messages as members
SHAPES = {"withmsg": "( agg 1 ( agg 1 i32 2 str ) 2 i32 3 ( up ( agg 1 i32 2 str ) ) 4 ( vec ( agg 1 i32 2 str ) ) )"}

RANGES = {"b": (0, 1), "i8": (-128, 127), "i16": (-2 ** 15, 2 ** 15 - 1), "i32": (-2 ** 31, 2 ** 31 - 1),
          "u8": (0, 255), "u16": (0, 65535), "u32": (0, 2 ** 32 - 1), "i64": (-2 ** 63, 2 ** 63 - 1),
          "u64": (0, 2 ** 64 - 1), "en": (-2 ** 31, 2 ** 31 - 1), "en8": (-128, 127), "enu8": (0, 255),
          "enu32": (0, 2 ** 32 - 1), "en64": (-2 ** 63, 2 ** 63 - 1), "enu64": (0, 2 ** 64 - 1), "f32": (0, 2 ** 32 - 1), "f64": (0, 2 ** 64 - 1)}
EDGES = [0, 1, -1, 2, 127, 128, 255, 256, 16383, 16384, 2 ** 21 - 1, 2 ** 21, 2 ** 28 - 1, 2 ** 28, 2 ** 31 - 1,
         2 ** 31, 2 ** 32 - 1, 2 ** 32, 2 ** 35 - 1, 2 ** 35, 2 ** 42, 2 ** 49 - 1, 2 ** 56, 2 ** 63 - 1, 2 ** 63,
         2 ** 64 - 1, -128, -129, -2 ** 15, -2 ** 31, -2 ** 63, 1 << 40, 0x80000000, 0xFFFFFFFF00000000,
         -(1 << 33), -(1 << 31) - 1, (1 << 63) + 1, 0x100000001]
FLOATS32 = [0, 0x80000000, 0x3f800000, 0x7f800000, 0xff800000, 0x7fc00000, 0x7fa00001, 1, 0xffffffff]
FLOATS64 = [0, 1 << 63, 0x3ff0000000000000, 0x7ff0000000000000, 0x7ff8000000000000, 0x7ff4000000000001, 1,
            2 ** 64 - 1]


def parse_ty(toks):
    t = toks.pop(0)
    if t != "(":
        return ("str",) if t == "str" else ("s", t)
    k = toks.pop(0)
    if k in ("vec", "list", "set", "up", "sp"):
        e = parse_ty(toks)
        toks.pop(0)
        return (k, e)
    if k == "map":
        a = parse_ty(toks)
        b = parse_ty(toks)
        toks.pop(0)
        return ("map", a, b)
    if k == "arr":
        n = int(toks.pop(0))
        e = parse_ty(toks)
        toks.pop(0)
        return ("arr", n, e)
    fs = []
    while toks[0] != ")":
        n = int(toks.pop(0))
        fs.append((n, parse_ty(toks)))
    toks.pop(0)
    return ("agg", fs)


def parse_val(toks):
    t = toks.pop(0)
    if t == "[":
        l = []
        while toks[0] != "]":
            l.append(parse_val(toks))
        toks.pop(0)
        return l
    if t == "N":
        return None
    if t == "P":
        return ("P", parse_val(toks))
    if t.startswith("s"):
        return ("s", t[1:])
    return int(t)


def show(v):
    if v is None:
        return "N"
    if isinstance(v, list):
        return "[ " + "".join(show(x) + " " for x in v) + "]"
    if isinstance(v, tuple):
        return "s" + v[1] if v[0] == "s" else "P " + show(v[1])
    return str(v)


def canon(ty, v):
    """sort the entries of hash containers (guided by the type) so that iteration order is irrelevant"""
    k = ty[0]
    try:
        if k in ("vec", "list"):
            return [canon(ty[1], x) for x in v]
        if k == "arr":
            return [canon(ty[2], x) for x in v]
        if k == "set":
            return sorted((canon(ty[1], x) for x in v), key=show)
        if k == "map":
            return sorted(([canon(ty[1], p[0]), canon(ty[2], p[1])] for p in v), key=show)
        if k in ("up", "sp"):
            return None if v is None else ("P", canon(ty[1], v[1]))
        if k == "agg":
            return [canon(ft, x) for (_, ft), x in zip(ty[1], v)]
    except (TypeError, IndexError):
        pass
    return v


def canon_res(ty, s):
    """'<ok>:<value>' -> canonical string"""
    if s is None:
        return None
    ok, _, val = s.partition(":")
    if val in ("-", ""):
        return ok + ":-"
    try:
        return ok + ":" + show(canon(ty, parse_val(val.split())))
    except (IndexError, ValueError):
        return s


def has_kind(ty, kinds):
    if ty[0] in kinds:
        return True
    if ty[0] == "agg":
        return any(has_kind(t, kinds) for _, t in ty[1])
    return any(has_kind(x, kinds) for x in ty[1:] if isinstance(x, tuple))


def is_ld(ty):
    if ty[0] == "s":
        return False
    if ty[0] in ("up", "sp"):
        return is_ld(ty[1])
    return True


def packed_scalar_ptr(ty):
    """a smart pointer to a non length-delimited type used as container element (its null is not representable)"""
    k = ty[0]
    if k in ("vec", "list", "set", "arr"):
        e = ty[-1]
        return (e[0] in ("up", "sp") and not is_ld(e)) or packed_scalar_ptr(e)
    if k == "map":
        return any((e[0] in ("up", "sp") and not is_ld(e)) or packed_scalar_ptr(e) for e in ty[1:])
    if k in ("up", "sp"):
        return packed_scalar_ptr(ty[1])
    if k == "agg":
        return any(packed_scalar_ptr(t) for _, t in ty[1])
    return False


def trivial(ty):
    """TRIVIAL size complexity as the code computed it BEFORE fix 8a146e9 (smart pointers inherited it from the
    pointee): only used to label a recurrence of that defect with its own signature"""
    if ty[0] == "s":
        return ty[1] in ("f32", "f64")
    if ty[0] in ("up", "sp"):
        return trivial(ty[1])
    if ty[0] == "agg":
        return all(trivial(t) for _, t in ty[1])
    return False


def trivial_ptr_container(ty):
    """a vector/array whose TRIVIAL elements hide a smart pointer: sized as size() * size(value[0])"""
    k = ty[0]
    if k in ("vec", "arr"):
        e = ty[-1]
        if trivial(e) and has_kind(e, ("up", "sp")):
            return True
    if k == "agg":
        return any(trivial_ptr_container(t) for _, t in ty[1])
    return any(trivial_ptr_container(x) for x in ty[1:] if isinstance(x, tuple))


DERIVED_FROM_CONTAINER = ("dvec", "dvec0", "dlist", "dmap")


def rnd_bytes(rng, n):
    return "".join("%02x" % rng.choice([0, 0xff, 0x80, 0x7f, 0x61, rng.below(256), rng.below(256)]) for _ in range(n))


def gen_scalar(rng, k, compat=False):
    if k == "en" and compat:
        return rng.choice([0, 1, 2, -5, 100000])
    if k == "f32":
        return rng.choice(FLOATS32) if rng.chance(2, 3) else rng.below(2 ** 32)
    if k == "f64":
        return rng.choice(FLOATS64) if rng.chance(2, 3) else rng.next()
    lo, hi = RANGES[k]
    if rng.chance(3, 5):
        v = rng.choice(EDGES)
    else:
        v = rng.next() >> rng.below(64)
        if rng.chance(1, 3):
            v = -v
    if v < lo or v > hi:
        v = lo + (v - lo) % (hi - lo + 1)
    return v


def gen_len(rng, big):
    r = rng.below(20)
    if r < 5:
        return 0
    if r < 10:
        return 1
    if r < 16:
        return 2 + rng.below(3)
    if big and r == 19:
        return rng.choice([127, 128, 129, 200])
    return 5 + rng.below(4)


def gen_val(rng, ty, depth=0, compat=False):
    k = ty[0]
    if k == "s":
        return gen_scalar(rng, ty[1], compat)
    if k == "str":
        n = gen_len(rng, True)
        if rng.chance(1, 60) and depth < 2:
            n = rng.choice([16383, 16384])
        if compat and rng.chance(1, 2):
            return ("s", "".join("%02x" % (0x20 + rng.below(95)) for _ in range(n)))
        return ("s", rnd_bytes(rng, n))
    if k in ("vec", "list"):
        return [gen_val(rng, ty[1], depth + 1, compat) for _ in range(gen_len(rng, depth == 0 and not is_ld(ty[1])))]
    if k == "arr":
        return [gen_val(rng, ty[2], depth + 1, compat) for _ in range(ty[1])]
    if k == "set":
        out, seen = [], set()
        for _ in range(gen_len(rng, False)):
            x = gen_val(rng, ty[1], depth + 1, compat)
            if show(x) not in seen:
                seen.add(show(x))
                out.append(x)
        return out
    if k == "map":
        out, seen = [], set()
        for _ in range(gen_len(rng, False)):
            x = gen_val(rng, ty[1], depth + 1, compat)
            if show(x) not in seen:
                seen.add(show(x))
                out.append([x, gen_val(rng, ty[2], depth + 1, compat)])
        return out
    if k in ("up", "sp"):
        return None if rng.chance(1, 3) else ("P", gen_val(rng, ty[1], depth + 1, compat))
    return [gen_val(rng, ft, depth + 1, compat) for _, ft in ty[1]]


def empty_like(rng, ty, v):
    """a second value for the re-use scenario: some containers/strings/pointers of v emptied"""
    k = ty[0]
    if k == "agg":
        return [empty_like(rng, ft, x) for (_, ft), x in zip(ty[1], v)]
    if k in ("vec", "list", "set", "map") and rng.chance(2, 3):
        return []
    if k == "str" and rng.chance(1, 2):
        return ("s", "")
    if k in ("up", "sp") and rng.chance(1, 2):
        return None
    if k == "arr":
        return [empty_like(rng, ty[2], x) for x in v]
    return v


# ------------------------------------------------------------------ hostile inputs
def varint(n):
    out = []
    while True:
        if n < 128:
            out.append(n)
            return out
        out.append((n & 127) | 128)
        n >>= 7


def hexs(bs):
    return "".join("%02x" % (b & 255) for b in bs)


def mutate(rng, hx):
    bs = [int(hx[i:i + 2], 16) for i in range(0, len(hx), 2)]
    n = len(bs)
    r = rng.below(12)
    if r == 0 and n:
        return hexs(bs[:rng.below(n)])                                   # truncated
    if r == 1 and n:
        i = rng.below(n)
        bs[i] ^= 1 << rng.below(8)                                       # bit flip
        return hexs(bs)
    if r == 2 and n:
        i = rng.below(n)
        bs[i] = rng.choice([0, 0x80, 0xff, 0x7f, 2, 0x0a, rng.below(256)])
        return hexs(bs)
    if r == 3:
        i = rng.below(n + 1)                                             # over-long / huge length or count
        big = rng.choice([2 ** 31 - 1, 2 ** 31, 2 ** 32 - 1, 2 ** 32 + 1, 2 ** 63, 2 ** 64 - 1, n, n + 1, 300])
        return hexs(bs[:i] + varint(big) + bs[i:])
    if r == 4:
        i = rng.below(n + 1)                                             # a run of continuation bytes
        k = rng.choice([1, 4, 5, 9, 9, 10, 10, 11, 12])
        return hexs(bs[:i] + [rng.choice([0x80, 0xff])] * k + bs[i + (rng.below(2) if n else 0):])
    if r == 5 and n:
        i = rng.below(n)
        bs[i] = (bs[i] & ~7) | rng.below(8)                              # wrong wire type
        return hexs(bs)
    if r == 6:
        i = rng.below(n + 1)                                             # an unknown field of some wire type
        num = rng.choice([0, 13, 15, 1000, 2 ** 28])
        w = rng.choice([0, 1, 2, 5, 3, 4, 6, 7])
        pay = {0: varint(rng.next() >> rng.below(64)), 1: [rng.below(256) for _ in range(8)],
               5: [1, 2, 3, 4], 2: varint(3) + [7, 8, 9]}.get(w, [])
        if rng.chance(1, 4) and pay:
            pay = pay[:-1]
        return hexs(bs[:i] + varint(num << 3 | w) + pay + bs[i:])
    if r == 7 and n > 1:
        i = rng.below(n)
        j = i + 1 + rng.below(min(6, n - i))
        return hexs(bs[:i] + bs[j:])                                     # bytes removed
    if r == 8 and n:
        i = rng.below(n)
        return hexs(bs[:i] + bs[i:i + 1 + rng.below(4)] * 2 + bs[i:])    # duplicated piece (repeated fields)
    if r == 9:
        return hexs(bs + [rng.below(256) for _ in range(1 + rng.below(4))])  # trailing garbage
    if r == 10 and n:
        i = rng.below(n)
        bs[i] = (bs[i] + rng.choice([1, -1, 2, 0x7f])) & 255             # length prefix off by a little
        return hexs(bs)
    return hexs([rng.below(256) for _ in range(rng.below(24))])          # raw random bytes


CRAFTED = ["", "00", "80", "ff", "8000", "ffffffffffffffffff01", "ffffffffffffffffffff", "80808080808080808080",
           "8080808080808080808000", "ffffffffffffffffffffff01", "0a", "0a00", "0a05", "0aff", "0a80808080",
           "0affffffff0f", "0a8080808010", "0a0b8080808080808080808080", "0a0bffffffffffffffffffffff",
           "0a16" + "0b" + "80" * 10 + "0b" + "80" * 10, "08", "0880", "08ffffffffffffffffffff01",
           "0d01020304", "0d010203", "0901020304050607", "090102030405060708", "0b", "0c", "0e", "0f",
           "7a03010203", "7a8080808010", "7a81808080100102", "7affffffffffffffffff0101", "fa7f00",
           "0000", "000000", "0205", "020161", "12036162630801", "0801080208031203616263120164",
           "0a02" + "0a00", "0a040a020a00", "1a021a00", "22020a00", "2204080112", "3a020000", "3a0100",
           "0a0a" + "80" * 10, "0a09" + "80" * 9, "0a0c" + "ff" * 12, "01" * 40, "0a" * 33, "80" * 9 + "00"]


def cont_run(hx):
    """longest run of bytes >= 0x80 (>= 10: the outcome of a failed varint read depends on buffering)"""
    best = cur = 0
    for i in range(0, len(hx), 2):
        if int(hx[i:i + 2], 16) >= 0x80:
            cur += 1
            best = max(best, cur)
        else:
            cur = 0
    return best


def kv(line):
    line = line.rstrip()
    if line.endswith(" |"):
        line += " "
    obs, _, mon = line.partition(" | ")
    d = {}
    for w in re.finditer(r"(\w+)=((?:[01]:)?(?:P )*(?:\[.*?\](?= \w+=|$)|\S*))", obs):
        d[w.group(1)] = w.group(2)
    m = dict(x.split("=") for x in mon.split() if "=" in x)
    return d, m


def sha_files(paths, extra=""):
    import hashlib
    h = hashlib.sha1(extra.encode())
    for q in paths:
        try:
            h.update(q.encode() + b"\0" + open(q, "rb").read())
        except OSError:
            h.update(b"missing:" + q.encode())
    return h.hexdigest()


def build_cached(chk, name, srcs, lib, flags):
    """compile each source to an object (-MMD) and link with the current archive; the objects are re-used only if
    the content of every dependency under REPO / harness / generated code and the flags are unchanged (content
    hash, not mtimes); the link step runs every time"""
    exe = os.path.join(BUILD, "bin", name)
    stamp = exe + ".stamp"
    os.makedirs(os.path.dirname(exe), exist_ok=True)
    key = " ".join(vlib.CXXFLAGS + list(flags) + vlib.LDFLAGS + [vlib.CXX])

    def relevant(deps, old_repo):
        out = []
        for d_ in deps:
            if old_repo and d_.startswith(old_repo + "/"):
                d_ = vlib.REPO + d_[len(old_repo):]
            if d_.startswith(vlib.REPO + "/") or d_.startswith(VERIF + "/"):
                out.append(d_)
        return sorted(set(out))

    objs = ["%s.%d.o" % (exe, i) for i in range(len(srcs))]
    fresh = False
    if os.path.exists(stamp) and all(os.path.exists(o) for o in objs):
        try:
            st = json.load(open(stamp))
            fresh = st["hash"] == sha_files(relevant(st["deps"], st["repo"]), key)
        except (ValueError, KeyError, OSError):
            fresh = False
    alldeps, procs = [], []
    import subprocess
    if not fresh:
        for src, o in zip(srcs, objs):
            cmd = [vlib.CXX] + vlib.CXXFLAGS + ["-I" + os.path.join(VERIF, "harness")] + list(flags) + \
                  ["-MMD", "-MF", o + ".d", "-c", src, "-o", o]
            procs.append((src, o, subprocess.Popen(cmd, stdout=subprocess.PIPE, stderr=subprocess.PIPE, text=True)))
        for src, o, pr in procs:
            out, err = pr.communicate()
            if pr.returncode != 0:
                chk.broke("harness", "compile %s (%s)" % (os.path.basename(src), name), err[-3000:])
                return None
            txt = open(o + ".d").read().replace("\\\n", " ")
            alldeps += [os.path.abspath(x) for x in txt.split(":", 1)[1].split()]
        deps = relevant(alldeps, None)
        json.dump({"repo": vlib.REPO, "deps": deps, "hash": sha_files(deps, key)}, open(stamp, "w"))
    # the archive of /repo/src changes whenever any source of the repository does: always link against the current one
    link_flags = [f for f in flags if f.startswith("-fsanitize")]
    rc, out, err = sh([vlib.CXX] + objs + [lib, "-o", exe] + link_flags + vlib.LDFLAGS, timeout=600)
    if rc != 0:
        chk.broke("harness", "link " + name, err[-3000:])
        return None
    return exe


def main(argv):
    chk = Check("C11", argv)
    thorough = chk.tier == "thorough"
    rng = chk.rng
    chk.translate(["serialization"])

    # ---------------------------------------------------------------- builds (parallel)
    gen = os.path.join(BUILD, "c11")
    os.makedirs(gen, exist_ok=True)
    proto = os.path.join(VERIF, "harness/seq/c11_compat.proto")
    rc, out, err = sh(["protoc", "--cpp_out=" + gen, "-I" + os.path.dirname(proto), proto], timeout=120)
    if rc != 0:
        chk.broke("harness", "protoc", err)
    lib = chk.repolib_all()
    srcs = [os.path.join(VERIF, "harness/seq/c11_serialization.cpp"), os.path.join(gen, "c11_compat.pb.cc")]
    impls = {}

    def build(kind):
        if not lib:
            return None
        if kind == "debug":
            return build_cached(chk, "c11_serialization", srcs, lib, ["-I" + gen])
        # NDEBUG (no wire-type check of known fields) + ASan/UBSan; traits.cpp instrumented too
        return build_cached(chk, "c11_serialization_nd_asan",
                            srcs + [os.path.join(vlib.REPO, "src/babylon/serialization/traits.cpp")], lib,
                            ["-I" + gen, "-DNDEBUG", "-fsanitize=address,undefined", "-fno-sanitize=null,nonnull-attribute",
                             "-fno-sanitize-recover=undefined", "-fno-omit-frame-pointer"])

    with concurrent.futures.ThreadPoolExecutor(max_workers=4) as ex:
        futs = {k: ex.submit(build, k) for k in ("debug", "ndebug")}
        chk.coq("Properties_C11.v", timeout=1500)
        model = chk.extract("se", "Extract_se.v", "se_driver.ml")
        for k, f in futs.items():
            impls[k] = f.result()
    impl = impls.get("debug")
    chk.log("builds ready")
    asan_env = dict(os.environ, C11_NO_RLIMIT="1", C11_ALARM="30",
                    ASAN_OPTIONS="detect_leaks=0:abort_on_error=0:allocator_may_return_null=1:hard_rss_limit_mb=1500",
                    UBSAN_OPTIONS="print_stacktrace=1:halt_on_error=1")

    tys = {n: parse_ty(d.split()) for n, d in TYPES.items()}
    shapes = {n: parse_ty(d.split()) for n, d in SHAPES.items()}

    def top_fp_vec(ty):
        while ty[0] in ("up", "sp"):
            ty = ty[1]
        return ty[0] == "vec" and ty[1] in (("s", "f32"), ("s", "f64"))

    # ---------------------------------------------------------------- cases
    vcases, rcases, ccases, dcases = [], [], [], []   # dicts
    if chk.replay:
        r = json.load(open(chk.replay))["replay"]
        k = r.get("kind")
        if k == "V":
            vcases.append({"id": "v0", "type": r["type"], "val": r["value"]})
        elif k == "R":
            rcases.append({"id": "r0", "type": r["type"], "val1": r["value1"], "val2": r["value2"]})
        elif k == "C":
            ccases.append({"id": "c0", "mask": r["mask"], "seed": r["seed"], "val": r["value"]})
        elif k == "D":
            dcases.append({"id": "d0", "type": r["type"], "hex": r["hex"]})
    else:
        nv = 8 if not thorough else 100
        i = 0
        for name in list(TYPES) + list(SHAPES):
            ty = tys.get(name) or shapes[name]
            n = nv * (3 if ty[0] == "agg" else 1) if ty[0] != "s" else max(6, nv // 2)
            for _ in range(n):
                vcases.append({"id": "v%d" % i, "type": name,
                               "val": show(gen_val(rng, ty, 0, name in ("cobj", "csub")))})
                i += 1
        # enums at the extremes of their underlying type, bits 31..63 mixed (not left to the seed)
        wide = [1 << 31, 1 << 32, 1 << 40, -2 ** 63, 2 ** 63 - 1, 2 ** 64 - 1, -1, 0x80000000, 0xFFFFFFFF00000000,
                -(1 << 33), 0x100000001, 0, 1, 127, 128, 255, -128, 2 ** 31 - 1, -2 ** 31, 2 ** 32 - 1]
        wide = sorted(set(wide), key=wide.index)
        for name in ("en8", "enu8", "en", "enu32", "en64", "enu64"):
            lo, hi = RANGES[name]
            for x in wide:
                if lo <= x <= hi:
                    vcases.append({"id": "v%d" % i, "type": name, "val": str(x)})
                    i += 1
        s64 = [x for x in wide if -2 ** 63 <= x < 2 ** 63]
        u64 = [x for x in wide if 0 <= x < 2 ** 64]
        fixed = [("ven64", show(s64)), ("upen64", "P %d" % (1 << 40)), ("upen64", "P %d" % (-2 ** 63)),
                 ("mapee", show([[u, s64[j % len(s64)]] for j, u in enumerate(u64)])),
                 ("enums", show([-128, 255, -2 ** 31, 2 ** 32 - 1, -2 ** 63, 2 ** 64 - 1, s64, [1 << 40, 0xFFFFFFFF00000000],
                                 [[1 << 40, -(1 << 33)], [2 ** 64 - 1, 2 ** 63 - 1]], ("P", 1 << 32), ("P", 1 << 63),
                                 [0x80000000, 2 ** 32 - 1]])),
                 ("enums", show([127, 128, 2 ** 31 - 1, 0x80000000, 2 ** 63 - 1, 0x100000001, [], [0, 1 << 31], [],
                                 None, None, []]))]
        # non-null smart pointers at top level and as scalar-pointee members (every presentation, incl. no limit)
        fixed += [("upi", "P 8"), ("upi", "P -1"), ("spi64", "P 0"), ("spi64", "P -9223372036854775808"),
                  ("ups", "P s6162"), ("sps", "P s00"), ("upin", "P [ 5 s61 ]"), ("spin", "P [ 0 s ]"),
                  ("ptrs", "[ P s61 P 8 P [ 1 s62 ] [ P [ 2 s ] ] P [ s63 [ 1 ] ] P [ s [ 2 ] ] [ P s64 ] ]"),
                  ("ptrs", "[ N P 0 N [ ] N N [ ] ]")]
        f1, f2 = 1065353216, 1073741824
        fixed += [("vupf", "[ N P %d P %d ]" % (f1, f2)), ("vupf", "[ P %d N ]" % f1), ("vupf", "[ P %d P %d ]" % (f1, f2)),
                  ("lspd", "[ P 0 N P 1 ]"), ("vpf", "[ [ N ] [ P %d ] ]" % f1), ("vpf", "[ [ P %d ] [ N ] [ P %d ] ]" % (f1, f2)),
                  ("vpf", "[ [ P %d ] [ P %d ] ]" % (f1, f2)),
                  ("holdpf", "[ [ [ P %d ] [ N ] ] 5 [ P 0 N ] ]" % f1), ("holdpf", "[ [ [ N ] [ P %d ] ] 0 [ N P 1 ] ]" % f2),
                  ("holdpf", "[ [ ] 1 [ P 1 P 2 ] ]"),
                  ("dvec", "[ [ s6162 s63 ] 7 ]"), ("dvec", "[ [ ] 0 ]"), ("dvec0", "[ [ s6162 ] ]"), ("dvec0", "[ [ ] ]"),
                  ("dlist", "[ [ 1 -1 300 ] s61 5 ]"), ("dmap", "[ [ [ s61 1 ] [ s 2 ] ] 3 ]"),
                  ("donly", "[ [ s61 [ 1 2 ] ] ]"), ("derived", "[ [ 5 s61 ] -1 [ [ 1 s ] ] ]")]
        for name, val in fixed:
            vcases.append({"id": "v%d" % i, "type": name, "val": val})
            i += 1
        for j, name in enumerate(["onlystr", "ptrs", "nest", "derived", "auto", "cobj", "arr", "big", "withmsg"] *
                                 (6 if not thorough else 30)):
            ty = tys.get(name) or shapes[name]
            v1 = gen_val(rng, ty)
            rcases.append({"id": "r%d" % j, "type": name, "val1": show(v1), "val2": show(empty_like(rng, ty, v1))})
        for j in range(30 if not thorough else 400):
            ccases.append({"id": "c%d" % j, "mask": rng.below(2 ** 31) | (rng.below(2) << 30), "seed": rng.below(2 ** 31),
                           "val": show(gen_val(rng, tys["cobj"], 0, True))})
    chk.log("%d value cases, %d re-use cases, %d protobuf cases" % (len(vcases), len(rcases), len(ccases)))

    # ---------------------------------------------------------------- round 1: model encodes
    menc = {}
    if model and vcases:
        lines = ["%s E %s ; %s" % (c["id"], TYPES[c["type"]], c["val"]) for c in vcases if c["type"] in TYPES]
        res = chk.run_cases(model, lines, timeout=900)
        for cid, l in res.items():
            menc[cid] = kv(l)[0] if " enc=" in l else {"error": l}

    def classify_rt(name, default="roundtrip"):
        ty_ = tys.get(name) or shapes[name]
        if packed_scalar_ptr(ty_):
            return "null-scalar-ptr-in-container-lost"
        if trivial_ptr_container(ty_):
            return "trivial-size-smart-pointer-in-container"
        return default

    # ---------------------------------------------------------------- value cases on the implementation
    probes = []          # (case, harness line, why) the model predicts not to return
    ivals = {}
    if impl and vcases:
        lines = []
        for c in vcases:
            m = menc.get(c["id"], {})
            pmask = 63
            ty = tys.get(c["type"]) or shapes[c["type"]]
            if m.get("rtu", "")[:1] in ("2", "3") or top_fp_vec(ty):
                pmask = 19   # presentations without any limit would not return (predicted by the model)
                probes.append((c, "%s V %s 63 %s ; %s" % (c["id"], c["type"], c["val"], m.get("enc", "")), "unlimited"))
            lines.append("%s V %s %d %s ; %s" % (c["id"], c["type"], pmask, c["val"], m.get("enc", "")))
        ivals = chk.run_cases(impl, lines, timeout=900)
    chk.log("value cases run")
    nontrivial = set()
    validated = 0
    second = []          # model decodes what the implementation / protobuf wrote
    for c in vcases:
        l = ivals.get(c["id"])
        if l is None:
            continue
        name = c["type"]
        ty = tys.get(name) or shapes[name]
        rep = {"kind": "V", "type": name, "value": c["val"]}
        if l.startswith("CRASH") or " ser=" not in l:
            chk.violate("trivial-size-smart-pointer-in-container" if trivial_ptr_container(ty) else "impl-crash-on-valid-value",
                        "serializing/parsing a %s value kills the process: %s" % (name, l[:300]), rep)
            continue
        d, mon = kv(l)
        m = menc.get(c["id"])
        expect = canon_res(ty, "1:" + c["val"])
        if m and "norm" in m:
            expect = canon_res(ty, "1:" + m["norm"])
        elif has_kind(ty, ("up", "sp")):
            expect = None
        if mon.get("mon_size") != "1":
            sig = "trivial-size-smart-pointer-in-container" if trivial_ptr_container(ty) else "size-mismatch"
            chk.violate(sig, "calculate_serialized_size of a %s = %s but %d bytes are written (value %s)"
                        % (name, d.get("pred"), len(d.get("ser", "")) // 2, c["val"][:200]), rep)
        if mon.get("mon_routes") != "1":
            sig = "trivial-size-smart-pointer-in-container" if trivial_ptr_container(ty) else "routes-differ"
            chk.violate(sig, "serialize_to_string / to_array_with_cached_size / to_coded_stream of a %s "
                        "produce different bytes (value %s)" % (name, c["val"][:200]), rep)
        if mon.get("mon_fresh") != "1":
            sig = "fresh-object-base-size-cache-unset" if name in DERIVED_FROM_CONTAINER else "first-serialization-differs"
            chk.violate(sig, "serialize_to_string of a freshly built %s (no calculate_serialized_size before it) writes %s, "
                        "after a size calculation the same value writes %s (value %s)"
                        % (name, d.get("ser0", "")[:80], d.get("ser", "")[:80], c["val"][:160]), rep)
        if expect is not None:
            top_vec = ty[0] == "vec"
            for p in ("p0", "p1", "p4", "p2", "p3", "p5"):
                if p not in d:
                    continue
                got = canon_res(ty, d.get(p))
                if got == expect:
                    continue
                unlimited = p in ("p2", "p3", "p5")
                # a known finding only if the model (= the code as it is) yields the same wrong result for the
                # same structural reason; any other deviation from the round-trip value is a new failure
                mres_p = canon_res(ty, m.get("rtu" if unlimited else "rt")) if m else None
                same_as_model = mres_p is not None and mres_p == got
                if unlimited and canon_res(ty, d.get("p0")) == expect:
                    if same_as_model and top_vec:
                        sig = "unlimited-stream-toplevel-container-empty"
                    elif has_kind(ty, ("up", "sp")) and not top_vec:
                        sig = "unlimited-stream-smart-pointer-lost"
                    else:
                        sig = "unlimited-stream-roundtrip"
                    what = ("parse_from_coded_stream of a %s on a stream-backed coded stream without limit "
                            "(presentation %s) yields %s instead of %s (value %s)"
                            % (name, p, (got or "")[:120], expect[:120], c["val"][:120]))
                else:
                    sig = classify_rt(name) if same_as_model else "roundtrip"
                    what = ("round trip of a %s through presentation %s yields %s instead of %s"
                            % (name, p, (got or "")[:160], expect[:160]))
                chk.violate(sig, what, dict(rep, presentation=p))
        if m and "enc" in m:
            validated += 1
            hashy = has_kind(ty, ("set", "map"))
            bad = None
            if not hashy and d.get("ser") != m["enc"]:
                bad = ("encode", d.get("ser"), m["enc"])
            elif d.get("pred") != m["size"]:
                bad = ("size", d.get("pred"), m["size"])
            elif canon_res(ty, d.get("p0")) != canon_res(ty, m["rt"]):
                bad = ("parse(own bytes)", d.get("p0"), m["rt"])
            elif canon_res(ty, d.get("pm")) != canon_res(ty, m["rt"]):
                bad = ("parse(model bytes)", d.get("pm"), m["rt"])
            elif "p5" in d and canon_res(ty, d.get("p5")) != canon_res(ty, m["rtu"]):
                bad = ("parse on a stream without limit", d.get("p5"), m["rtu"])
            if bad:
                chk.broke("correspondence", "%s %s" % (bad[0], name), "value %s\nimpl : %s\nmodel: %s" % (c["val"][:300], bad[1], bad[2]))
            if hashy and d.get("ser") != m["enc"]:
                second.append({"id": "s" + c["id"], "type": name, "hex": d.get("ser", ""), "expect": expect})
            if len(d.get("ser", "")) > 8:
                nontrivial.add((name, d.get("ser")))
        if len([b for b in chk.broken if b[0] == "correspondence"]) > 8:
            break

    # ---------------------------------------------------------------- re-use cases
    if impl and rcases:
        res = chk.run_cases(impl, ["%s R %s %s ; %s" % (c["id"], c["type"], c["val1"], c["val2"]) for c in rcases], timeout=600)
        for c in rcases:
            l = res.get(c["id"], "")
            rep = {"kind": "R", "type": c["type"], "value1": c["val1"], "value2": c["val2"]}
            if " ser=" not in l:
                chk.violate("trivial-size-smart-pointer-in-container" if trivial_ptr_container(tys.get(c["type"]) or shapes[c["type"]]) else "impl-crash-on-valid-value",
                            "re-use case kills the process: %s" % l[:300], rep)
                continue
            d, mon = kv(l)
            if mon.get("mon_reuse") != "1" or mon.get("mon_size") != "1":
                chk.violate("reuse-stale-member-size-cache",
                            "a %s object serialized, modified in place (members emptied) and serialized again writes %s "
                            "(%d bytes, predicted %s) but a fresh object with the same value writes %s; parse of the "
                            "former: %s" % (c["type"], d.get("ser", "")[:80], len(d.get("ser", "")) // 2, d.get("pred"),
                                            d.get("fresh", "")[:80], d.get("re", "")[:60]), rep)

    # ---------------------------------------------------------------- protobuf interoperability
    cobj = tys["cobj"]
    if impl and ccases:
        res = chk.run_cases(impl, ["%s C %d %d %s" % (c["id"], c["mask"], c["seed"], c["val"]) for c in ccases], timeout=600)
        for c in ccases:
            l = res.get(c["id"], "")
            rep = {"kind": "C", "mask": c["mask"], "seed": c["seed"], "value": c["val"]}
            if " ser=" not in l:
                chk.violate("impl-crash-on-valid-value", "protobuf interoperability case kills the process: %s" % l[:300], rep)
                continue
            d, mon = kv(l)
            want = canon_res(cobj, "1:" + c["val"])
            v = parse_val(c["val"].split())
            dv = parse_val("[ 0 0 0 0 0 0 0 0 0 0 0 0 s s [ ] [ ] [ ] [ ] [ ] [ ] [ ] [ ] ]".split())
            mv = [x if (c["mask"] >> i) & 1 else dv[i] for i, x in enumerate(v[:14])]
            if (c["mask"] >> 30) & 1:
                m2 = (c["mask"] * 2654435761) & 0xFFFFFFFF
                mv.append([x if (m2 >> i) & 1 else dv[i] for i, x in enumerate(v[14])])
            else:
                mv.append(list(dv))
            mv += [x if (c["mask"] >> (14 + i)) & 1 else [] for i, x in enumerate(v[15:])]
            masked = canon_res(cobj, "1:" + show(mv))
            checks = [("s2m", want, "compat-struct-to-message", "a generated message parsing the struct's bytes reads"),
                      ("m2s", want, "compat-message-to-struct", "the struct parsing the message's bytes reads"),
                      ("unknown", want, "compat-unknown-fields-not-skipped", "with unknown fields of every wire type present the struct reads"),
                      ("shuffled", want, "compat-field-order-matters", "with the fields in another order the struct reads"),
                      ("masked", masked, "compat-absent-fields-lose-defaults", "with fields absent the struct reads")]
            for key, exp, sig, text in checks:
                if canon_res(cobj, d.get(key)) != exp:
                    chk.violate(sig, "%s %s instead of %s" % (text, (d.get(key) or "")[:200], exp[:200]), rep)
            if mon.get("mon_known") != "1":
                chk.violate("compat-struct-fields-unknown-to-message", "the generated message keeps some of the struct's fields as unknown fields", rep)
            if mon.get("mon_msgser") != "1" or mon.get("mon_msgparse") != "1":
                chk.violate("compat-message-traits", "SerializeTraits<Message> size/serialize/parse disagree with the message's own", rep)
            second.append({"id": "s" + c["id"] + "a", "type": "cobj", "hex": d.get("msbytes", ""), "expect": want})
            second.append({"id": "s" + c["id"] + "b", "type": "cobj", "hex": d.get("maskbytes", ""), "expect": masked})
    chk.log("re-use and protobuf cases run")

    # ---------------------------------------------------------------- hostile inputs
    if not chk.replay:
        per = 3 if not thorough else 30
        k = 0
        for c in vcases:
            m = menc.get(c["id"])
            if not m or "enc" not in m:
                continue
            for _ in range(per if tys[c["type"]][0] != "s" else 1):
                hx = mutate(rng, m["enc"])
                if len(hx) <= 3000:
                    dcases.append({"id": "d%d" % k, "type": c["type"], "hex": hx})
                    k += 1
        for name in list(TYPES) + list(SHAPES):
            for hx in (CRAFTED if thorough or tys.get(name, ("agg",))[0] != "s" else CRAFTED[:12]):
                dcases.append({"id": "d%d" % k, "type": name, "hex": hx})
                k += 1
    dcases += second
    chk.log("%d byte-string cases" % len(dcases))
    mres = {"0": {}, "1": {}, "u": {}}
    if model and dcases:
        alll = []
        for c in dcases:
            if c["type"] in TYPES:
                alll.append("%s/0 D 0 0 %s ; %s" % (c["id"], TYPES[c["type"]], c["hex"]))
                alll.append("%s/1 D 1 0 %s ; %s" % (c["id"], TYPES[c["type"]], c["hex"]))
                if "expect" not in c:
                    alll.append("%s/u D 0 1 %s ; %s" % (c["id"], TYPES[c["type"]], c["hex"]))
        for cid, l in chk.run_cases(model, alll, timeout=1500).items():
            base, _, which = cid.partition("/")
            mres[which][base] = l
    chk.log("model parsed the byte strings")
    builds = [("0", impl, None), ("1", impls.get("ndebug"), asan_env)]
    ires = {}
    for nd, exe, env in builds:
        if not exe or not dcases:
            continue
        lines = []
        for c in dcases:
            ml = mres[nd].get(c["id"], "")
            ty = tys.get(c["type"]) or shapes[c["type"]]
            if " res=2" in ml or " res=3" in ml:
                if nd == "0":
                    probes.append((c, "%s D %s 1 %s" % (c["id"], c["type"], c["hex"]), "hostile"))
                continue
            pmask = 31
            mu = mres["u"].get(c["id"], "")
            if top_fp_vec(ty) or " res=2" in mu or " res=3" in mu or " res=9" in mu or c["type"] in SHAPES:
                pmask = 19
                if " res=2" in mu and nd == "0":
                    probes.append((c, "%s D %s 5 %s" % (c["id"], c["type"], c["hex"]), "unlimited-hostile"))
            if nd == "1":
                pmask = 19      # the model's prediction for streams without limit is computed for the debug build only
            lines.append("%s D %s %d %s" % (c["id"], c["type"], pmask, c["hex"]))
        ires[nd] = chk.run_cases(exe, lines, timeout=1500, env=env)
        chk.log("byte strings parsed by the %s build" % ("NDEBUG+sanitizer" if nd == "1" else "debug"))
    ok_cases = 0
    for nd, exe, env in builds:
        for c in dcases:
            l = ires.get(nd, {}).get(c["id"])
            if l is None:
                continue
            name = c["type"]
            ty = tys.get(name) or shapes[name]
            rep = {"kind": "D", "type": name, "hex": c["hex"], "ndebug": nd}
            if " res=" not in l and "rc=-14" in l and exe:
                # the per-case alarm counts wall time: on a loaded machine a case can be descheduled past it.  Run the
                # case again on its own with a generous alarm before calling it a non-termination
                mu2 = mres["u"].get(c["id"], "")
                pm = 19 if (nd == "1" or top_fp_vec(ty) or " res=2" in mu2 or " res=3" in mu2 or " res=9" in mu2
                            or c["type"] in SHAPES) else 31
                rc2, out2, err2 = sh([exe], input="%s D %s %d %s\n" % (c["id"], name, pm, c["hex"]), timeout=120,
                                     env=dict(env or os.environ, C11_ALARM="40"))
                if rc2 == 0 and " res=" in out2:
                    l = out2.strip().splitlines()[-1]
            if " res=" not in l:
                if "Sanitizer" in l or "runtime error" in l:
                    chk.violate("trivial-size-smart-pointer-in-container" if trivial_ptr_container(ty) else "hostile-input-memory-error",
                                "parsing %s as %s under ASan+UBSan (NDEBUG): %s"
                                % (c["hex"][:80], name, l[:400]), rep)
                else:
                    sig = "trivial-size-smart-pointer-in-container" if trivial_ptr_container(ty) else "hostile-input-kills-process"
                    what = "parsing %d bytes as %s (%s build) does not return: %s" % (
                        len(c["hex"]) // 2, name, "NDEBUG" if nd == "1" else "debug", l[:300])
                    if nd == "0" and packed_scalar_ptr(ty):
                        # localise the presentation: when every presentation with a limit returns and only the
                        # stream-backed ones without limit do not, this is the element loop of a container of smart
                        # pointers to scalars making no progress at the end of an unlimited stream (the recorded
                        # finding), reached through an input shape the model's non-termination prediction misses
                        rc2, out2, err2 = sh([impl], input="%s D %s 19 %s\n" % (c["id"], name, c["hex"]), timeout=60,
                                             env=dict(os.environ, C11_ALARM="4"))
                        if rc2 == 0 and " res=" in out2:
                            sig = "unlimited-stream-scalar-ptr-vector-never-terminates"
                            what = ("parsing %s as %s from a stream-backed coded stream without limit never returns "
                                    "(vector of smart pointers to scalars: the element loop makes no progress at end of "
                                    "input; every presentation with a limit returns)" % (c["hex"][:80], name))
                            rep = dict(rep, presentation="stream without limit")
                    chk.violate(sig, what, rep)
                continue
            d, mon = kv(l)
            res = canon_res(ty, d.get("res"))
            if "expect" in c and res != c["expect"]:
                chk.violate("compat-bytes-misread" if name == "cobj" else "roundtrip",
                            "%s parsed from bytes written for the same value reads %s instead of %s"
                            % (name, (res or "")[:160], c["expect"][:160]), rep)
            ml = mres[nd].get(c["id"])
            md = kv(ml)[0] if ml and " res=" in ml else {}
            if res.startswith("1:"):
                ok_cases += 1
                if d.get("serok") != "1" or str(len(d.get("reser", "")) // 2) != d.get("resize"):
                    chk.violate("trivial-size-smart-pointer-in-container" if trivial_ptr_container(ty) else "size-mismatch",
                                "the %s a successful parse returned predicts %s bytes but writes %d"
                                % (name, d.get("resize"), len(d.get("reser", "")) // 2), rep)
                re_ = canon_res(ty, d.get("re"))
                stable = re_ == res
                if not stable and re_.startswith("1:") and has_kind(ty, ("up", "sp")):
                    # a smart pointer to a value with an empty encoding may come back null
                    stable = "norm" in md and re_ == canon_res(ty, "1:" + md["norm"]) and canon_res(ty, md.get("res")) == res
                if not stable:
                    chk.violate(classify_rt(name, "success-not-stable"),
                                "parse of %s as %s succeeds with %s but that value serializes and parses back to %s"
                                % (c["hex"][:80], name, res[:120], (re_ or "")[:120]), rep)
            run = cont_run(c["hex"])
            for p in ("p1", "p4"):
                if p in d and canon_res(ty, d.get(p)) != res and run < 10:
                    chk.violate("presentation-dependent", "parse of %s as %s: flat array gives %s, presentation %s "
                                "gives %s" % (c["hex"][:80], name, res[:100], p, (d.get(p) or "")[:100]), rep)
                    break
            if ml is not None and name in TYPES:
                if " res=" not in ml:
                    chk.broke("correspondence", "model driver", ml[:300])
                    continue
                validated += 1
                bad = None
                if canon_res(ty, md.get("res")) != res:
                    bad = ("parse", d.get("res"), md.get("res"))
                elif res.startswith("1:"):
                    hashy = has_kind(ty, ("set", "map"))
                    if (not hashy and md.get("reser") != d.get("reser")) or md.get("resize") != d.get("resize"):
                        bad = ("re-serialise", "%s %s" % (d.get("reser"), d.get("resize")), "%s %s" % (md.get("reser"), md.get("resize")))
                    elif canon_res(ty, md.get("re")) != canon_res(ty, d.get("re")):
                        bad = ("re-parse", d.get("re"), md.get("re"))
                    nontrivial.add((name, c["hex"]))
                mu = mres["u"].get(c["id"])
                if not bad and mu and " res=" in mu and run < 10 and nd == "0":
                    mud = kv(mu)[0]
                    for p in ("p2", "p3"):
                        if p in d and canon_res(ty, d.get(p)) != canon_res(ty, mud.get("res")):
                            bad = ("parse on a stream without limit (%s)" % p, d.get(p), mud.get("res"))
                if bad:
                    chk.broke("correspondence", "%s %s nd=%s" % (bad[0], name, nd),
                              "bytes %s\nimpl : %s\nmodel: %s" % (c["hex"][:300], bad[1], bad[2]))
            if len([b for b in chk.broken if b[0] == "correspondence"]) > 8:
                break

    # ---------------------------------------------------------------- cases the model predicts not to return
    seen_probe = {}
    for c, line, why in probes:
        key = (c["type"], why)
        if seen_probe.get(key, 0) >= (1 if not thorough else 3) or not impl:
            continue
        seen_probe[key] = seen_probe.get(key, 0) + 1
        rc, out, err = sh([impl], input=line + "\n", timeout=60, env=dict(os.environ, C11_ALARM="4"))
        returned = rc == 0 and (" res=" in out or " ser=" in out)
        if why == "unlimited":
            rep = {"kind": "V", "type": c["type"], "value": c["val"]}
            if not returned:
                chk.violate("unlimited-stream-float-vector-terminate",
                            "parse_from_coded_stream of a top-level %s on a stream-backed coded stream without limit "
                            "terminates the process (rc=%d %s)" % (c["type"], rc, err.strip()[-120:]), rep)
            else:
                chk.broke("correspondence", "model predicts no return, implementation returns", line[:300] + "\n" + out[:300])
        elif why == "unlimited-hostile":
            rep = {"kind": "D", "type": c["type"], "hex": c["hex"], "presentation": "stream without limit"}
            if not returned:
                chk.violate("unlimited-stream-scalar-ptr-vector-never-terminates",
                            "parsing %s as %s from a stream-backed coded stream without limit never returns (a length "
                            "prefix pointing beyond the end of the stream over a vector of smart pointers to scalars: "
                            "the element loop makes no progress at end of input; rc=%d)"
                            % (c["hex"][:80], c["type"], rc), rep)
            else:
                chk.broke("correspondence", "model predicts no return, implementation returns", line[:300] + "\n" + out[:300])
        else:
            rep = {"kind": "D", "type": c["type"], "hex": c["hex"]}
            if not returned:
                chk.violate("hostile-input-never-returns",
                            "parsing %s as %s never returns although the input is under a limit (the model predicts it "
                            "too, against theorem c11_parse_terminates of the regenerated model: rc=%d %s)" % (c["hex"][:80], c["type"], rc, err.strip()[-100:]), rep)
            else:
                chk.broke("correspondence", "model predicts no return, implementation returns", line[:300] + "\n" + out[:300])
    chk.notes["probes"] = {"%s/%s" % k: v for k, v in seen_probe.items()}
    chk.notes["predicted_nonreturning_cases"] = len(probes)

    total = len(vcases) * 7 + len(rcases) + len(ccases) * 6 + sum(len(v) for v in ires.values()) * 5
    chk.cov["evaluations"] = total
    chk.cov["distinct_nontrivial"] = len(nontrivial)
    chk.cov["traces_validated_against_impl"] = validated
    chk.cov["rule"] = ("value cases: per C++ type of the family, seeded random typed values with extremes weighted "
                       "(varint width boundaries, sign extension, NaN payloads, empty/127/128/16384-byte strings, null "
                       "and empty-pointee pointers, duplicate-free hash containers), each serialized three ways and parsed "
                       "through flat array, string, 1-byte chunks, random chunks, chunks+limit, chunks without limit; "
                       "byte cases: mutations of those encodings (truncation, bit flips, huge/over-long lengths, runs of "
                       "continuation bytes, wrong wire types, unknown fields of every wire type, removed/duplicated "
                       "pieces, trailing garbage), crafted prefixes and raw random bytes, on a debug and an NDEBUG+ASan+"
                       "UBSan build; non-trivial = distinct (type, bytes) of more than 4 bytes compared with the model")
    for c in vcases[:: max(1, len(vcases) // 3)][:3]:
        chk.sample({"case": c, "impl": (ivals.get(c["id"]) or "")[:400], "model": menc.get(c["id"])})
    for c in dcases[:: max(1, len(dcases) // 3)][:3]:
        chk.sample({"case": c, "impl": (ires.get("0", {}).get(c["id"]) or "")[:300], "model": (mres["0"].get(c["id"]) or "")[:300]})
    chk.notes["successful_parses_of_hostile_bytes"] = ok_cases
    chk.cov["trusted_base"] = chk.cov.get("trusted_base", []) + [
        "translator/gen.py (C expression subset -> Z)",
        "extraction: ExtrOcamlBasic only; ocaml/se_driver.ml",
        "harness/seq/c11_serialization.cpp, c11_compat.proto + protoc 3.21.12",
        "modelled not verified: protobuf CodedInputStream/CodedOutputStream/generated messages, std containers",
    ]
    chk.assumptions = ["serialized sizes below 2^31", "field numbers in 1..2^29-1, distinct per aggregate",
                       "hash-container elements compare by value",
                       "round trip: container elements are not smart pointers to scalars (refuted otherwise)",
                       "flat arrays / strings / streams under an enclosing limit (a top-level container on a stream "
                       "without limit is refuted)"]
    chk.finish("proof")
