"""C08 — Future/Promise/latch: value reaches every waiter and callback exactly once."""
import json
import os
import vlib
from vlib import Check, VERIF

META = {
    "engine": "E1+E2+E3+E4",
    "text": "Coq theorems over an interleaving model of FutureContext/Promise/CountDownLatch at atomic-operation "
            "granularity, for every client program, every number of threads and every schedule (schedule = list of "
            "thread ids incl. clock ticks): callbacks run at most once and never before the value, exactly once at "
            "completion; get/wait_for(true) only after the value; wait_for(false) only after the timeout elapsed; no "
            "waiter stays parked once set_value has issued its wake (no lost wakeup); latch ready iff count hit zero.  "
            "Constants, the wake test, the deadline arithmetic and the memory orders are regenerated from future.hpp on "
            "every run.  Tie: the real classes run under a deterministic scheduler that pre-empts at every atomic "
            "operation/futex call (no repo edits) and every outcome they produce must be one the extracted model admits "
            "(exhaustive exploration of the model per program); monitors check the property itself on every run.",
    "note": "Trusted: Coq kernel; translator; extraction (ExtrOcamlBasic only) + OCaml explorer; macro shim and "
            "dsched (serialises threads: sequentially consistent executions only - release/acquire obligations are "
            "checked against the regenerated site table, not executed); kernel futex semantics (compare-and-block "
            "atomically, wake_all wakes every parked thread) are modelled, as is shared_ptr.",
}


def gen_program(rng, small):
    latch = 0
    if rng.chance(1, 4):
        latch = 1 + rng.below(3)
    nt = 2 + rng.below(2 if small else 4)
    maxops = 2 if small else 4
    waits = ["W0", "W1", "W2"] if small else ["W0", "W1", "W3", "W50", "W-4"]
    base = ["G", "F", "R", "F", "G"] + waits + ([] if small else ["T", "T", "A2", "A40"])
    threads = [[rng.choice(base) for _ in range(1 + rng.below(maxops))] for _ in range(nt)]
    if latch:
        # distribute count-downs (total exactly latch) over threads, never after a blocking op of the same thread
        left = latch
        while left > 0:
            d = 1 + rng.below(left)
            t = rng.below(nt)
            k = rng.below(len(threads[t]) + 1)
            threads[t] = [x for x in threads[t][:k] if x != "G"] + ["D%d" % d] + threads[t][k:]
            left -= d
    else:
        t = rng.below(nt)
        k = rng.below(len(threads[t]) + 1)
        threads[t] = [x for x in threads[t][:k] if x != "G"] + ["S"] + threads[t][k:]
    if latch:
        # a thread blocked in G before its own D would self-deadlock: G only after all D of that thread
        for i, th in enumerate(threads):
            lastd = max([j for j, o in enumerate(th) if o[0] == "D"], default=-1)
            threads[i] = [o for j, o in enumerate(th) if not (o == "G" and j < lastd)]
    threads = [th for th in threads if th] or [["R"]]
    return latch, threads


UNIT_NS = 2000


def impl_prog(threads):
    out = []
    for th in threads:
        ops = []
        for o in th:
            if o[0] in "WA":
                ops.append("%s%d" % (o[0], int(o[1:]) * UNIT_NS))
            else:
                ops.append(o)
        out.append(",".join(ops))
    return "|".join(out)


def main(argv):
    chk = Check("C08", argv)
    thorough = chk.tier == "thorough"
    chk.translate(["future"])
    chk.coq("Properties_C08.v")
    # release/acquire half: publication skeletons with the orders regenerated from future.hpp; when an order was
    # weakened the view machine is searched for the execution in which a waiter/callback misses the value
    defs = ("Require Import Verif.Gen.Gen_future.\n"
            "Definition oo (tbl : list (akind * morder * morder)) (n : nat) : morder := "
            "match nth_error tbl n with Some (_, o, _) => o | None => Relaxed end.")
    for nm, prod, cons, what in (
            ("get", "oo sites_set_value 0", "oo sites_get 0", "get() can return before the value set_value constructed is visible"),
            ("wait", "oo sites_set_value 0", "oo sites_wait_slow 1", "a woken waiter can read the value before it is visible"),
            ("on-finish", "oo sites_seal 0", "oo sites_on_finish 0", "a callback run inline by on_finish can miss the value")):
        chk.wm_litmus("publication-" + nm, defs, "mp_xchg_safe (%s) (%s)" % (prod, cons),
                      "mp_xchg (%s) (%s)" % (prod, cons), "mp_bad",
                      "memory order of the publishing exchange / the observing load was weakened: " + what, machine="RA")
    model = chk.extract("fu", "Extract_fu.v", "fu_driver.ml", explorer=True)
    impl = chk.build_cpp("c08_future", [os.path.join(VERIF, "harness/conc/c08_future.cpp"),
                                        os.path.join(VERIF, "harness/shim/dsched.cpp")], ldflags=["-ldl"])
    rng = chk.rng
    progs = []   # (pid, latch, threads, small)
    if chk.replay:
        r = json.load(open(chk.replay))["replay"]
        progs = [("r0", r["latch"], r["threads"], r.get("small", False))]
        scheds = [(r["seed"], r["strategy"])]
    else:
        seen = set()
        n_small, n_big = (40, 60) if not thorough else (150, 400)
        for small, n in ((True, n_small), (False, n_big)):
            tries = 0
            while len([p for p in progs if p[3] == small]) < n and tries < 20 * n:
                tries += 1
                latch, th = gen_program(rng, small)
                key = (latch, impl_prog(th))
                tot = sum(len(t) for t in th)
                wsum = sum(int(o[1:]) for t in th for o in t if o[0] == "W")
                if key in seen or (small and (tot > 6 or wsum > 3)):
                    continue
                seen.add(key)
                progs.append(("p%d" % len(progs), latch, th, small))
        nsched = 25 if not thorough else 120
        scheds = [(rng.below(1 << 31), [0, 3, 1, 0][i % 4]) for i in range(nsched)]
    lines = []
    meta = {}
    for pid, latch, th, small in progs:
        for si, (seed, strat) in enumerate(scheds):
            cid = "%s.%d" % (pid, si)
            lines.append("%s %d %d %d %s" % (cid, seed, strat, latch, impl_prog(th)))
            meta[cid] = (pid, latch, th, small, seed, strat)
    chk.log("%d programs x %d schedules" % (len(progs), len(scheds)))
    impl_out = chk.run_cases(impl, lines, timeout=900) if impl else {}
    # model outcome sets for the small programs
    model_sets = {}
    states = trans = 0
    if model:
        mlines = []
        for pid, latch, th, small in progs:
            if small:
                wsum = sum(int(o[1:]) for t in th for o in t if o[0] == "W" and int(o[1:]) > 0)
                mlines.append("%s %d %d %s" % (pid, latch, wsum + 1, "|".join(",".join(t) for t in th)))
        mo = chk.run_cases(model, mlines, timeout=1800)
        for pid, l in mo.items():
            f = dict(x.split("=", 1) for x in l.split()[1:5])
            states += int(f.get("states", 0))
            trans += int(f.get("trans", 0))
            outs = l.split("outcomes=", 1)[1] if "outcomes=" in l else ""
            model_sets[pid] = (set(outs.split(";")), "trunc=true" in l, int(f.get("deadlocks", "0")))
            if int(f.get("deadlocks", "0")) > 0:
                chk.violate("model-deadlock", "model admits an execution in which a waiter is never woken: %s" % l[:300],
                            {"level": "model", "program": l.split()[0]})
    # lifetime half: owners dropped while set_value still walks the callback list
    life = chk.build_cpp("c08_lifetime", [os.path.join(VERIF, "harness/conc/c08_lifetime.cpp"),
                                          os.path.join(VERIF, "harness/shim/dsched.cpp")], ldflags=["-ldl"])
    if life and not chk.replay:
        llines = ["l%d %d %d %d" % (i, rng.below(1 << 31), [0, 3, 0, 1][i % 4], i % 3) for i in range(150 if not thorough else 1500)]
        lout = chk.run_cases(life, llines, timeout=600)
        for l in llines:
            o = lout.get(l.split()[0], "")
            rep = {"lifetime_case": l, "driver": "harness/conc/c08_lifetime.cpp"}
            if o.startswith("DSCHED-STUCK") or o.startswith("CRASH") or " | " not in o:
                chk.violate("lifetime-crash", "dropping the Promise/Futures during set_value's callback walk crashed or "
                            "hung: " + o[:300], rep)
                continue
            mon = dict(x.split("=") for x in o.split(" | ")[2].split())
            if mon.get("alive") != "1":
                chk.violate("lifetime-value-destroyed", "a callback ran on a value that had already been destroyed (owners "
                            "released during the callback walk): " + o[:200], rep)
            if mon.get("once") != "1":
                chk.violate("lifetime-once", "a callback did not run exactly once when owners were released during the "
                            "callback walk: " + o[:200], rep)
        chk.notes["lifetime_runs"] = len(llines)
        chk.cov["evaluations"] = chk.cov.get("evaluations", 0) + len(llines)
    MON = ["once", "value", "notbefore", "get", "ready", "waitafter", "waitsound"]
    WHAT = {"once": "a callback did not run exactly once", "value": "a callback/get observed a wrong value",
            "notbefore": "a callback ran before set_value began", "get": "get() returned a wrong value",
            "ready": "ready()/get()/wait_for(true) succeeded before the value was set, or ready() false after set_value returned",
            "waitafter": "wait_for started after set_value returned yet reported a timeout",
            "waitsound": "wait_for returned false before the timeout elapsed or true while not ready"}
    validated = 0
    distinct = set()
    for cid, l in impl_out.items():
        pid, latch, th, small, seed, strat = meta[cid]
        rep = {"latch": latch, "threads": th, "seed": seed, "strategy": strat, "small": small, "impl_line": l}
        if l.startswith("DSCHED-STUCK"):
            kind = "deadlock" if "deadlock" in l.split()[1] else "livelock"
            chk.violate("stuck-" + kind, "a waiter is never woken / threads never finish (%s): %s" % (kind, l[:400]), rep)
            continue
        if l.startswith("CRASH"):
            chk.violate("crash", "implementation crashed under schedule: " + l[:300], rep)
            continue
        parts = l.split(" | ")
        if len(parts) != 3:
            chk.broke("harness", "unparsable driver line", l)
            continue
        mon = dict(x.split("=") for x in parts[2].split())
        for m in MON:
            if mon.get(m) != "1":
                chk.violate("mon-" + m, WHAT[m] + ": " + parts[1], rep)
        distinct.add((pid, parts[1]))
        if small and pid in model_sets:
            outs, trunc, _ = model_sets[pid]
            validated += 1
            if parts[1] not in outs and not trunc:
                chk.broke("correspondence", "FUModel does not admit outcome of %s" % impl_prog(th),
                          "impl outcome: %s\nmodel outcomes: %s" % (parts[1], sorted(outs)[:20]))
    chk.cov["evaluations"] = chk.cov.get("evaluations", 0) + len(lines)
    chk.cov["distinct_nontrivial"] = len(distinct)
    chk.cov["traces_validated_against_impl"] = validated
    chk.cov["states"] = states
    chk.cov["transitions"] = trans
    chk.cov["rule"] = ("case = (client program, schedule seed, strategy); programs are seeded random mixes of set_value/"
                       "count_down, get, wait_for(0/short/long/negative), on_finish, then, ready over 2-5 threads; "
                       "strategies: uniform random, round-robin with random pre-emptions, PCT depth 3; distinct "
                       "non-trivial = distinct (program, observed outcome) pairs; small programs are additionally "
                       "explored exhaustively in the extracted model and every implementation outcome must be in the "
                       "model's outcome set")
    for cid in list(impl_out)[:: max(1, len(impl_out) // 5)]:
        chk.sample({"case": lines[[l.split()[0] for l in lines].index(cid)], "impl": impl_out[cid]})
    chk.cov["trusted_base"] = chk.cov.get("trusted_base", []) + [
        "translator/gen.py", "ExtrOcamlBasic extraction + ocaml/explore.ml + ocaml/fu_driver.ml",
        "harness/shim (verif_atomic.h macro shim, dsched.cpp: futex/clock/usleep/pthread interposition)",
        "modelled not verified: kernel futex, std::shared_ptr, operator new"]
    chk.assumptions = ["sequentially consistent interleavings at atomic-operation granularity (weak-memory effects are "
                       "covered only by the memory-order obligations on the regenerated site table)",
                       "fewer than 2^31 concurrent waiters (READY bit not reached by the waiter count)"]
    chk.finish("proof")
