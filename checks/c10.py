"""C10 — Garbage collector: reclaimers run exactly once, never early, before stop returns."""
import json
import os
import vlib
from vlib import Check, VERIF

META = {
    "engine": "E1+E2+E3+E4",
    "text": "Coq theorems over an interleaving model of GarbageCollector<R> (retire = Epoch::tick + two-step queue push, "
            "stop = marker push + join, restartable collector thread = while loop / try_pop_n in two ring chunks / "
            "slot-by-slot low_water_mark scan / reclaim prefix / usleep) on top of a model of Epoch accessors (two-step "
            "lock, nested lock counts) and a ticket-level FIFO of the bounded queue, for every client program, every "
            "thread count, every capacity 2^k, every batch boundary and every schedule, and for every loop condition of "
            "keep_reclaim: a reclaimer is called at most once and calls follow ticket order (c10_at_most_once); never "
            "while a region that was open at its retire() tick is still open (c10_never_early); a pusher is blocked "
            "exactly while its ticket is a full capacity ahead of the pop index, stays enabled once enabled, and every "
            "popped task is called, pending or explicitly discarded (c10_retire_blocks_iff_queue_full, "
            "c10_queue_never_over_capacity, c10_blocked_retire_resumes, c10_no_task_lost).  'All called before stop() "
            "returns' (every task in front of the marker and not behind an earlier marker) is proved for the loop "
            "condition regenerated from the current source (c10_all_before_stop_returns; rests on src_kc_is_fixed, which "
            "breaks if fix e0cd24e is reverted) and for every loop condition of the form running || index < size; the "
            "loop as it was (finding F2, fixed) keeps its refutation witness as an Example; 'a retire() racing with "
            "stop() is kept' is REFUTED for the current source (c10_retire_racing_stop_refuted, known finding).  The loop conditions, the epoch comparison, "
            "the place where low_water_mark() is sampled (inside reclaim_start_from on every call; keep_reclaim passes only "
            "index and tasks), the marker test, the batch size, the index arithmetic and Epoch's lock/unlock/tick/scan expressions are "
            "regenerated from garbage_collector.h / epoch.h / bounded_queue.hpp on every run.  Tie: the real "
            "GarbageCollector with its real Epoch, real ConcurrentBoundedQueue and its own std::thread runs under the "
            "deterministic scheduler (virtual usleep back-off) and every outcome (per-op results, order of reclaimer "
            "calls with the set of open slots at each call, call count at stop() return) on small programs must be one "
            "the exhaustively explored extracted model admits; monitors check the property text on every run.",
    "note": "Trusted: Coq kernel; translator; extraction (ExtrOcamlBasic) + OCaml explorer; macro shim and dsched "
            "(sequentially consistent interleavings only; the seq_cst fence/RMW obligations of Epoch are C09's). "
            "Abstracted: the bounded queue is a ticket-level FIFO (slot versions, futex-less spinning are C01's), "
            "IdAllocator/ConcurrentVector behind Epoch (accessors are created before the threads start), back-off "
            "durations (any schedule), retire(reclaimer, epoch) with a caller-supplied epoch, 2^64 epoch wrap.  The "
            "destructor is stop().  Contract read into the property: retire() after the last stop()/without a running "
            "collector is client misuse and is not checked; a retire() overlapping a stop() is checked (separate "
            "signature, known finding retire-overlapping-stop-dropped).  Finding F2 (stop() with a region open dropped the "
            "last batch) was fixed in /repo by e0cd24e: a recurrence is a VIOLATION (monitor stopall, directed case d.f2, "
            "mutant revert_stop_drain_fix).  Not proved: liveness (that stop() returns at all) - deadlock/livelock is only searched for "
            "by the scheduler runs and the model exploration.",
}

UNIT = ["R", "L", "U"]


def pushes(threads):
    n = 0
    for th in threads:
        for o in th:
            if o[0] == "R":
                n += int(o[1:]) if len(o) > 1 else 1
            elif o == "S":
                n += 1
    return n


def gen_body(rng, nops, allow_r_inside, burst):
    """balanced client ops: R (or R<n>), L..U regions (nested sometimes)."""
    out = []
    depth = 0
    for _ in range(nops):
        c = rng.below(10)
        if c < 4 and (depth == 0 or allow_r_inside):
            out.append("R" if not burst or rng.chance(1, 2) else "R%d" % (2 + rng.below(burst)))
        elif c < 7 and depth < 2:
            out.append("L")
            depth += 1
            if burst and rng.chance(1, 2):      # hold the region across several polls of the collector (1 ms+ back-off)
                out.append("Z%d" % rng.choice([1500, 4000]))
        elif depth > 0:
            out.append("U")
            depth -= 1
        else:
            out.append("U" if rng.chance(1, 6) else "R")   # stray unlock: skipped by the client guard
    out += ["U"] * depth
    return out


def gen_program(rng, small):
    """-> (bits, threads).  thread 0 owns start/stop."""
    bits = rng.below(2) if small else rng.choice([0, 0, 1, 1, 2, 3])
    capn = 1 << bits
    nt = 2 if small and rng.chance(3, 4) else (3 if small else 2 + rng.below(3))
    free = rng.chance(1, 2)      # free: no barrier, total pushes <= capacity (nothing can block for ever); else barrier W
    budget = (4 if nt == 2 else 3) if small else 6 + rng.below(10)
    for _ in range(200):
        others = [gen_body(rng, 1 + rng.below(max(1, budget // (nt - 1) + 1)), free, 0 if small else 6) for _ in range(nt - 1)]
        n0 = rng.below(3 if small else 5)
        body0 = gen_body(rng, n0, free, 0 if small else 6)
        # place B ... S (maybe a restart) around thread 0's body, S/W only at region depth 0
        t0 = []
        if free and rng.chance(1, 3) and body0:
            k = rng.below(len(body0) + 1)
            t0 = body0[:k] + ["B"] + body0[k:]
        else:
            t0 = ["B"] + body0
        restart = rng.chance(1, 5)
        # candidate positions (depth 0) for an inner S,B pair
        if restart:
            dz = []
            d = 0
            for i, o in enumerate(t0 + ["$"]):
                if i > t0.index("B") and d == 0:
                    dz.append(i)
                if o == "L":
                    d += 1
                elif o == "U" and d > 0:
                    d -= 1
            if dz:
                i = rng.choice(dz)
                t0 = t0[:i] + ["S", "B"] + t0[i:]
        d = 0
        for o in t0:
            if o == "L":
                d += 1
            elif o == "U" and d > 0:
                d -= 1
        t0 += ["U"] * d
        t0 += ([] if free else ["W"]) + ["S"]
        threads = [t0] + others
        if free and pushes(threads) > capn:
            continue
        nr = sum(1 for th in threads for o in th if o[0] == "R")
        if small and (sum(len(t) for t in threads) > (9 if nt == 2 else 8) or nr > (4 if nt == 2 else 3)):
            continue
        if not any("R" in o for th in threads for o in th):
            continue
        return bits, threads
    return bits, [["B", "R", "S"], ["L", "U"]]


# hand-aimed small programs (explored exhaustively in the model): (slot bits, program)
AIMED = [(0, "B,R,S|L,U"), (1, "B,R,S|L,U"), (1, "B,R,R,S|L,U"), (1, "B,R,W,S|L,R,U"), (0, "B,R,R,R,W,S|L,U"),
         (1, "R,B,R,S|L,U"), (1, "B,R,S,B,R,S|L,U"), (1, "B,L,R,U,S|L,U"), (0, "B,R,W,S|R|L,U"), (1, "B,S|R"),
         (1, "B,R,W,S|L,L,U,R,U"), (0, "B,W,S|R,R,R"), (2, "B,R,S|L,R,U")]

DIRECTED = [
    # (name, min-capacity, program, step_ns)  -- deterministic by construction (sleeps order the threads)
    ("d.f2", 2, "Z100,B,R,S|L,Z5000,U", 50),                # regression (F2, fixed e0cd24e): stop() while thread 1's region is open
    ("d.f2b", 4, "Z100,B,R,R,R,S|L,Z9000,U", 50),
    ("d.full", 1, "B,R,R,R,R,W,S|Z50,L,Z8000,U", 50),       # queue of 1 full while a region holds the head back
    ("d.full2", 2, "B,Z3000,W,S|R6|L,Z4000,U|R5", 50),
    ("d.restart", 2, "B,R,R,S,B,R,S|L,U", 50),
    ("d.batch", 2048, "B,W,S|Z100,R1100|Z100,R1100|L,Z60000,U", 1000),   # more than one batch of 1024 queued behind the collector
    ("d.nostart", 4, "R,R,B,R,S|L,U", 50),
    ("d.race", 8, "B,R,S|R,R,R", 50),
    # ticket order != epoch order under a long region: the reclaimable prefix must stop at the first task that is not ready
    ("d.order", 8, "B,R,R,W,S|R,R|L,Z5000,U,L,Z5000,U", 50),
    ("d.order2", 4, "R,B,W,S|R|L,Z5000,U", 50),
    # burst: a whole batch (capacity 128/256 queued before start, no region open) is reclaimed in one go; call 120 (248) of
    # it is slow; thread 1 enters a region and retires X in the middle of the batch and keeps the region open past the
    # next batch: X must wait for the unlock (the low water mark has to be sampled afresh for every reclaim_start_from)
    ("d.burst", 128, "P2000,R128,B,W,S|Q121,L,R,Z20000,U", 50),
    ("d.burst2", 256, "P2000,R256,B,W,S|Q249,L,R,Z20000,U|Q121,L,Z30000,U", 50),
    ("d.burst3", 128, "P1500,R128,B,Q129,R128,W,S|Q121,L,R,Z9000,U,Q250,L,R,R,Z9000,U", 50),
]


FF_TURNS = [32766, 32767, 65534, 65535, 16383, 16382]


def gen_ff(rng, k):
    """fast-forwarded queue (see harness): full-queue programs that push through the 16-bit wrap of the slot versions."""
    capn = rng.choice([1, 2, 2, 4])
    turns = FF_TURNS[k % len(FF_TURNS)]
    kind = k % 3
    if kind == 0:      # collector holds a region-blocked batch, the queue fills behind it for two more turns
        p = "B,R%d,W,S|Z50,L,Z8000,U" % (3 * capn + 1 + rng.below(3))
    elif kind == 1:    # the queue is filled before start(): the producers of the next turn must wait for the collector
        p = "Z%d,B,W,S|R%d|R%d" % (rng.choice([1500, 4000]), capn + 1 + rng.below(3), capn + rng.below(3))
    else:              # several producers, regions coming and going
        p = "B,R%d,W,S|R%d,L,Z3000,U,R%d|L,Z1500,U,R%d" % (2 * capn, 2 * capn + 1, capn + 1, 2 * capn)
    return "%d@%d" % (capn, turns), p


def gen_burst(rng):
    """-> (min-capacity, program): a full batch queued before start(), slow reclaimers, other threads open a region and
    retire in the middle of a batch and hold the region for several polls."""
    capn = rng.choice([128, 128, 256])
    nt = 2 + rng.below(2)
    rounds = 1 + rng.below(2)
    t0 = ["P%d" % rng.choice([300, 1000, 2500]), "R%d" % capn, "B"]
    for k in range(1, rounds):
        t0 += ["Q%d" % (capn * k + 1), "R%d" % capn]
    t0 += ["W", "S"]
    others = []
    for _ in range(nt - 1):
        th = []
        for k in range(rounds):
            q = capn * k + 1 + rng.below(capn - 8)
            th += ["Q%d" % q, "L"] + ["R"] * (1 + rng.below(2)) + ["Z%d" % rng.choice([3000, 9000, 20000]), "U"]
        others.append(th)
    return capn, "|".join(",".join(t) for t in [t0] + others)


def main(argv):
    chk = Check("C10", argv)
    thorough = chk.tier == "thorough"
    chk.translate(["epoch", "bounded_queue", "garbage_collector"])
    chk.coq("Properties_C10.v")
    model = chk.extract("gc", "Extract_gc.v", "gc_driver.ml", explorer=True)
    impl = chk.build_cpp("c10_gc", [os.path.join(VERIF, "harness/conc/c10_gc.cpp"),
                                    os.path.join(VERIF, "harness/shim/dsched.cpp")],
                         flags=["-fno-access-control"], ldflags=["-ldl"])
    chk.log("drivers built")
    rng = chk.rng
    progs = []   # (pid, mincap, program string, small)
    if chk.replay:
        r = json.load(open(chk.replay))["replay"]
        progs = [("r0", r["mincap"], r["program"], r.get("small", False))]
        scheds = {"r0": [(r["seed"], r["strategy"], r["step_ns"])]}
    else:
        seen = set()
        n_small, n_big = (36, 90) if not thorough else (110, 600)
        for bits, p in AIMED:
            seen.add((bits, p))
            progs.append(("s%d" % len(progs), 1 << bits, p, True))
        for small, n in ((True, n_small), (False, n_big)):
            tries = 0
            cnt = 0
            while cnt < n and tries < 50 * n:
                tries += 1
                bits, th = gen_program(rng, small)
                p = "|".join(",".join(t) for t in th)
                if (bits, p) in seen:
                    continue
                seen.add((bits, p))
                progs.append(("%s%d" % ("s" if small else "b", len(progs)), 1 << bits, p, small))
                cnt += 1
        for i in range(10 if not thorough else 60):
            mc, p = gen_burst(rng)
            progs.append(("u%d" % i, mc, p, False))
        for i in range(18 if not thorough else 90):
            mc, p = gen_ff(rng, i)
            progs.append(("f%d" % i, mc, p, False))
        progs.append(("f.burst", "128@32767", "Z3000,B,W,S|P500,R130,Q129,L,R,Z5000,U", False))
        for name, mc, p, _ in DIRECTED:
            progs.append((name, mc, p, False))
        nsched = 28 if not thorough else 100
        # PCT never pre-empts a spinning thread: only with a step far below the 200 us / 1 ms polling sleeps (else unfair for ever)
        base = [(rng.below(1 << 31), [0, 3, 1, 0][i % 4], 50 if i % 4 == 2 else [50, 20000, 200000, 1000000, 50, 5000][i % 6])
                for i in range(nsched)]
        scheds = {}
        for pid, mc, p, small in progs:
            if pid.startswith("d."):
                sn = [d[3] for d in DIRECTED if d[0] == pid][0]
                if pid == "d.batch":
                    scheds[pid] = [(1, 3, sn), (2, 0, sn)]
                elif pid.startswith("d.order"):
                    scheds[pid] = [(rng.below(1 << 31), [0, 3][i % 2], sn) for i in range(70 if not thorough else 300)]
                else:
                    scheds[pid] = [(s, st, sn) for s, st, _ in base[:6]]
            elif pid.startswith("f"):
                scheds[pid] = [(s, st, 50) for s, st, _ in base[:4 if not thorough else 12]]
            elif pid.startswith("u"):
                scheds[pid] = [(s, st, 50) for s, st, _ in base[:4 if not thorough else 12]]
            else:
                scheds[pid] = base if small else base[:10 if not thorough else 40]
    lines = []
    meta = {}
    for pid, mc, p, small in progs:
        for si, (seed, strat, step_ns) in enumerate(scheds[pid]):
            cid = "%s.%d" % (pid, si)
            lines.append("%s %d %d %d %s %s" % (cid, seed, strat, step_ns, mc, p))
            meta[cid] = (pid, mc, p, small, seed, strat, step_ns)
    chk.log("%d programs, %d runs" % (len(progs), len(lines)))
    impl_out = chk.run_cases(impl, lines, timeout=900) if impl else {}
    chk.log("implementation runs done")
    model_sets = {}
    states = trans = 0
    if model:
        mlines = ["%s %d src %s" % (pid, (mc - 1).bit_length(), p) for pid, mc, p, small in progs if small]
        mo = chk.run_cases(model, mlines, timeout=1800)
        for pid, l in mo.items():
            if "outcomes=" not in l:
                chk.broke("harness", "model driver", l[:300])
                continue
            f = dict(x.split("=", 1) for x in l.split()[1:5])
            states += int(f.get("states", 0))
            trans += int(f.get("trans", 0))
            model_sets[pid] = (set(l.split("outcomes=", 1)[1].split(";")), "trunc=true" in l)
    chk.log("model exploration done (%d states)" % states)
    MON = {"once": ("called-twice", "a reclaimer was called more than once"),
           "notearly": ("called-early", "a reclaimer was called while a region that was open when it was retired is still open"),
           "stopall": ("stop-returns-with-uncalled-reclaimers", "stop() returned although a reclaimer retired before stop() began has not been called (a region entered before that retire() was open during stop())"),
           "stopallnr": ("stop-returns-with-uncalled-reclaimers", "stop() returned although a reclaimer retired before stop() began has not been called (no region entered before that retire() was open during stop())"),
           "racing": ("retire-overlapping-stop-dropped", "a reclaimer whose retire() overlapped stop() was never called (dropped behind the stop marker)"),
           "fifo": ("calls-out-of-order", "reclaimers of one thread were called out of retirement order"),
           "qbound": ("push-beyond-capacity", "retire() returned although the queue already held capacity unpopped tasks"),
           "bound": ("unbounded-backlog", "more retired-but-uncalled reclaimers than queue capacity + one batch"),
           "running": None}
    validated = 0
    distinct = set()
    for cid, l in impl_out.items():
        pid, mc, p, small, seed, strat, step_ns = meta[cid]
        rep = {"mincap": mc, "program": p, "seed": seed, "strategy": strat, "step_ns": step_ns, "small": small, "impl_line": l[:600]}
        if l.startswith("DSCHED-STUCK overfull-push"):
            chk.violate("push-beyond-capacity", "retire() returned although the queue already held capacity unpopped tasks (an unpopped "
                        "task was overwritten): program %s capacity>=%s: %s" % (p, mc, l[:300]), rep)
            continue
        if l.startswith("DSCHED-STUCK"):
            kind = "deadlock" if "deadlock" in l.split()[1] else "livelock"
            admitted = small and pid in model_sets and any(o.endswith("STUCK") for o in model_sets[pid][0])
            if not admitted:
                chk.violate("stuck-" + kind, "retire()/stop() never returns (%s): %s" % (kind, l[:300]), rep)
            continue
        if l.startswith("CRASH"):
            chk.violate("crash", "implementation crashed under schedule: " + l[:300], rep)
            continue
        parts = l.split(" | ")
        if len(parts) != 3:
            chk.broke("harness", "unparsable driver line", l[:400])
            continue
        verd, _, detail = parts[2].partition(" ; ")
        mon = dict(x.split("=") for x in verd.split())
        for m, sw in MON.items():
            if sw and mon.get(m) != "1":
                chk.violate(sw[0], "%s: program %s capacity>=%s: %s ; %s" % (sw[1], p, mc, parts[1], detail), rep)
        if mon.get("running") != "0":
            chk.broke("harness", "collector left running", l[:300])
        distinct.add((pid, parts[1]))
        if small and pid in model_sets:
            outs, trunc = model_sets[pid]
            validated += 1
            if parts[1] not in outs and not trunc:
                chk.broke("correspondence", "GCModel does not admit outcome of %s (capacity %d)" % (p, mc),
                          "impl outcome: %s\nmodel outcomes (%d): %s" % (parts[1], len(outs), sorted(outs)[:12]))
    chk.cov["evaluations"] = len(lines)
    chk.cov["distinct_nontrivial"] = len(distinct)
    chk.cov["traces_validated_against_impl"] = validated
    chk.cov["states"] = states
    chk.cov["transitions"] = trans
    chk.cov["rule"] = ("case = (client program, queue capacity, schedule seed, strategy, virtual ns per scheduling point); "
                       "thread 0 starts/stops (restarts sometimes), every thread retires and opens/closes (nested) regions "
                       "on its own accessor; 'free' programs keep total pushes <= capacity and let retire race with stop, "
                       "'barrier' programs overfill queues of capacity 1..8 and stop after a client barrier; directed "
                       "cases: stop with a region held open across the collector's last poll, queue of 1 full behind a "
                       "held-back head, restart, > 1 batch (1024) queued, retire before start, retire racing stop; burst cases "
                       "(capacity 128/256 filled before start, a whole batch reclaimed in one go with slow reclaimers, a region "
                       "opened + a retire in the middle of the batch, region held past the next batch); fast-forwarded cases (queue "
                       "indices and slot versions set as after 32766/32767/65534/65535/16382/16383 full turns of the ring, so "
                       "that full-queue programs push through the 16-bit wrap of the slot versions); the "
                       "step length varies from 50 ns to 1 ms so that the collector's 1-100 ms back-off sleeps end in "
                       "every phase of the client programs; distinct non-trivial = distinct (program, observed outcome); "
                       "small programs are explored exhaustively in the extracted model and every implementation outcome "
                       "must be in the model's outcome set")
    ids = [l.split()[0] for l in lines]
    for cid in list(impl_out)[:: max(1, len(impl_out) // 5)]:
        chk.sample({"case": lines[ids.index(cid)], "impl": impl_out[cid][:400]})
    chk.cov["trusted_base"] = chk.cov.get("trusted_base", []) + [
        "translator/gen.py", "ExtrOcamlBasic extraction + ocaml/explore.ml + ocaml/gc_driver.ml",
        "harness/shim (verif_atomic.h macro shim, dsched.cpp: pthread create/join, usleep, futex interposition)",
        "modelled not verified: std::thread, std::vector, the reclaimer functor's move semantics"]
    chk.assumptions = ["sequentially consistent interleavings at atomic-operation granularity",
                       "fewer than 2^64 - 1 ticks of the epoch (an epoch equal to UINT64_MAX is the stop marker)",
                       "each Accessor is used by one thread (lock_times is not atomic); start()/stop() by one thread",
                       "retire() is not issued after the last stop() / while no collector will run again"]
    chk.finish("proof")
