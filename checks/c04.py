"""C04 — Concurrent vector: stable addresses, one element per index, built/destroyed once, cooling period."""
import json
import os
import vlib
from vlib import Check, VERIF

META = {
    "engine": "E1+E2+E3+E4",
    "text": "Coq theorems over an interleaving model of ConcurrentVector + RetireList at atomic-operation granularity "
            "(load/CAS of _block_table, load/CAS of the tagged retire head, clock reads), for every client program of "
            "ensure/reserve/operator[]/size/snapshot/snapshot[]/for_each(fill_n,copy_n)/gc/time-passes/calendar-clock-is-"
            "stepped (two clocks: elapsed and calendar = elapsed + adversary offset; the stamp reads the one named by the "
            "regenerated clock id of get_current_timestamp, proved monotonic), every number of "
            "threads, every block size 2^k and every schedule: every published table extends the previous one (an index "
            "never changes its (block, offset)); all askers of an index get the same element, now or later, through the "
            "vector or any snapshot; every block is constructed exactly once; while the vector is alive no block is "
            "destroyed twice, no visible block is destroyed, and every undestroyed block is published or owned by exactly "
            "one thread inside the slow path; when the vector dies every block has been destroyed exactly once (loser "
            "path or destructor) and every heap table deleted exactly once; the installed table is never freed; a table is "
            "freed, and a snapshot becomes unusable, only more than 64 s after the growth that superseded it / after the "
            "snapshot was taken, for every clock history incl. gc() and 16-bit stamp wrap - unconditionally since fix "
            "8cef5d9 (retire re-reads the clock in every round of its push loop: theorem c04_no_stale_stamp; the former "
            "finding F4 now is a regression test: mutant revert_retire_stamp_fix).  get_timestamp/make_head/expire/"
            "get_current_timestamp, the loop-body stamp refresh, the index arithmetic, the copy/create/delete ranges of the "
            "slow path, the constructor/destructor loops and the memory orders are regenerated from vector.hpp on every "
            "run.  Whole-object operations (construction with T() or a user functor, move construction = delegate + swap, "
            "move assignment, swap, growth of moved-to and moved-from vectors, destruction; sequential by contract) are a "
            "second model CVObjModel over several vector objects, with what the move constructor hands to the delegated "
            "constructor, the swap member list and create_block's `if (_constructor)` regenerated: after any such sequence "
            "every block of every live vector was built by the real constructor that vector carries, and at the end every "
            "block was constructed and destroyed exactly once (c04_moved_vectors_keep_their_constructor, "
            "c04_objects_death).  Tie: the real class runs under the deterministic scheduler with virtual time; operator new/delete "
            "replacement + a counting element type observe every table/block allocation and free and every constructor/"
            "destructor; each outcome of a small program must be one the extracted model admits (exhaustive exploration of "
            "all schedules of the model).",
    "note": "All C04 theorems are at full strength (no _partial/_refuted).  Residual assumptions: (1) the allocator never "
            "returns an address that a stalled thread still holds (no pointer ABA on _block_table / _head: a head word "
            "equal to the loaded one designates the same node chain); (2) sequentially consistent interleavings (memory "
            "orders are checked against the regenerated site tables only); (3) a thread that holds a table pointer for "
            "more than 64 s (stalled inside one call, or a snapshot older than 64 s) reads freed memory - the documented "
            "contract of the time-based design, delimited exactly by c04_snapshot_usable; (4) move/swap/destruction are not "
            "concurrent with anything (documented), so they are modelled sequentially (CVObjModel) and the concurrent "
            "model of one vector assumes the real element constructor that layer proves it carries; set_constructor() "
            "is not modelled.  A stall between the clock read "
            "and the CAS within one round of retire's loop is harmless (proved).  Element payload is not modelled.  "
            "Trusted: Coq kernel; translator; extraction + OCaml explorer; macro shim + dsched (virtual clock); the "
            "driver's operator new/delete replacement and private-member sampling (-fno-access-control).",
}

T0 = 1000000          # tv_sec of the virtual clock at the start of a run (dsched), = 15625 * 64
# virtual clock: tv_sec starts at T0 (unit 15625).  TO_U65535 / TO_U65534 bring it 10 s into the time unit whose 16-bit
# stamp is 65535 / 65534 (the last units before the stamp wraps to 0)
TO_U65535 = 65535 * 64 + 10 - T0
TO_U65534 = 65534 * 64 + 10 - T0
AIMED_ADV = [1, 63, 64, 65, 127, 128, 129, 200, 64 * 65536, 64 * 65535, 64 * 65536 + 128, 64 * (65536 - 15625),
             TO_U65535, TO_U65534, 55, 94]


# calendar (wall) clock steps in seconds: NTP step / date -s / VM resume forward, backward across one and two 64 s units
WALL_STEPS = [130, 600, -70, -120]


def bits_of(block):
    v = int(block[1:])
    b = 0
    while (1 << b) < v:
        b += 1
    return b


def gen_small(rng):
    block = rng.choice(["d1", "d1", "d2", "s1", "s2", "d3", "s4"])
    bs = 1 << bits_of(block)
    nt = 2 + (1 if rng.chance(1, 4) else 0)
    maxidx = 3 * bs
    threads = []
    budget = 6
    for t in range(nt):
        n = 1 + rng.below(3 if nt == 2 else 2)
        ops = []
        ensured = []
        has_snap = False
        for _ in range(n):
            if budget <= 0:
                break
            budget -= 1
            k = rng.below(16)
            if k < 6:
                i = rng.below(maxidx)
                ops.append("E%d" % i)
                ensured.append(i)
            elif k == 6:
                ops.append("R%d" % rng.below(maxidx + 2))
            elif k == 7 and ensured:
                ops.append("I%d" % rng.choice(ensured))
            elif k == 8:
                ops.append("Z")
            elif k == 9:
                ops.append("S")
                has_snap = True
            elif k == 10 and has_snap:
                ops.append("G%d" % rng.below(maxidx))
            elif k == 11:
                b = rng.below(maxidx)
                e = b + rng.below(2 * bs + 1)
                ops.append("%s%d-%d" % (rng.choice("FLP"), b, e))
            elif k == 12 or k == 13:
                ops.append("C")
            elif k == 14 and rng.chance(1, 2):
                ops.append("W%d" % rng.choice(WALL_STEPS))
            else:
                ops.append("A%d" % rng.choice(AIMED_ADV[:9]))
        if ops:
            threads.append(ops)
    if not threads:
        threads = [["E0"]]
    return block, threads


def gen_big(rng):
    block = rng.choice(["d1", "d2", "d3", "d4", "d5", "d8", "s1", "s2", "s4", "s8", "d1", "s1"])
    bs = 1 << bits_of(block)
    nt = 2 + rng.below(4)
    maxidx = 6 * bs
    threads = []
    for t in range(nt):
        n = 2 + rng.below(7)
        ops, ensured, has_snap = [], [], False
        for _ in range(n):
            k = rng.below(20)
            if k < 7:
                i = rng.below(maxidx)
                ops.append("E%d" % i)
                ensured.append(i)
            elif k == 7:
                ops.append("R%d" % rng.below(maxidx + 2))
            elif k == 8 and ensured:
                ops.append("I%d" % rng.choice(ensured))
            elif k == 9:
                ops.append("Z")
            elif k in (10, 11):
                ops.append("S")
                has_snap = True
            elif k in (12, 13) and has_snap:
                ops.append("G%d" % rng.below(maxidx))
            elif k == 14:
                b = rng.below(maxidx)
                e = b + rng.below(3 * bs + 1)
                ops.append("%s%d-%d" % (rng.choice("FLP"), b, e))
            elif k in (15, 16, 17):
                ops.append("C")
            elif k == 18 and rng.chance(1, 2):
                ops.append("W%d" % rng.choice(WALL_STEPS))
            else:
                ops.append("A%d" % rng.choice(AIMED_ADV))
        threads.append(ops or ["C"])
    return block, threads


# programs aimed at the windows the property names: growth racing growth, retire racing retire across a time-unit
# boundary (F4), gc exactly at / one second before the 2-unit threshold, 16-bit stamp wrap
DIRECTED = [
    ("d1", [["E0"], ["A128", "S", "E1", "C", "G0"]]),
    ("d1", [["A63", "E0"], ["A2", "S", "E1", "A63", "C", "G0"]]),
    ("d1", [["E0", "E1"], ["S", "A127", "C", "G0", "A1", "C", "G0"]]),
    ("d1", [["E0", "A63", "E1"], ["A65", "C", "Z"]]),
    ("d1", [["E2"], ["E2"], ["E1"]]),
    ("s2", [["E0", "E5"], ["E5", "E0"], ["C"]]),
    ("d1", [["E0", "A%d" % (64 * 65536), "E1", "C"], ["S", "G0", "A64", "C"]]),
    ("d1", [["E0", "A%d" % (64 * (65536 - 15625)), "E1"], ["A128", "C", "E2"]]),
    ("d2", [["F1-4", "C"], ["L0-3", "A128", "C"]]),
    ("d1", [["E1", "C"], ["E0", "A128", "E2", "C"]]),
    # 16-bit stamp wrap: a table retired in unit 65535 must survive gc()/growth 1 s, 40 s, 63 s into unit 0 (stamp
    # distance 1 across the wrap), with a reader still holding the old snapshot; controls 65534->65535 and 65535->1
    ("d1", [["A%d" % TO_U65535, "E0", "S", "E1", "A55", "C", "G0", "E2", "G0"]]),
    ("d1", [["A%d" % TO_U65535, "E0", "S", "E1", "A94", "E2", "G0", "C", "G0"]]),
    ("d1", [["A%d" % TO_U65535, "E0", "S", "E1", "A117", "C", "G0", "A11", "C", "G0"]]),
    ("d1", [["A%d" % TO_U65535, "E0", "E1", "A55", "C", "E2"], ["S", "G0", "G0"]]),
    ("s2", [["A%d" % TO_U65535, "E1", "E3", "A94", "E5", "C"], ["S", "G1", "C", "G1"]]),
    ("d1", [["A%d" % TO_U65534, "E0", "S", "E1", "A64", "C", "G0", "E2", "G0"]]),
    ("d1", [["A%d" % TO_U65535, "E0", "S", "E1", "A119", "C", "G0"]]),
    # the calendar clock is stepped (forward >= 2 units, backward across a unit) right after a growth, then gc() / another
    # growth runs while a reader still holds the superseded table: the cooling period must be measured in elapsed time
    ("d1", [["E0", "S", "E1", "W130", "C", "G0"]]),
    ("d1", [["E0", "S", "E1", "W600", "E2", "G0", "C", "G0"]]),
    ("d1", [["A200", "E0", "S", "E1", "W-70", "C", "G0"]]),
    ("d1", [["A200", "E0", "S", "E1", "W-120", "E2", "G0", "C", "G0"]]),
    ("d1", [["E0", "E1", "W130", "C", "E2"], ["S", "G0", "G0"]]),
    ("s2", [["A200", "E1", "E3", "W-70", "E5", "C"], ["S", "G1", "C", "G1"]]),
    ("d2", [["E1", "W600", "E2", "A10", "W-600", "E4", "C"], ["S", "G0", "C"]]),
]


# whole-object operations (move construction / assignment, swap) followed by growth of the moved-to AND the moved-from
# vector: (block, setup script, threads).  threads == None: purely sequential, compared with the object model (CVObjModel)
DIRECTED_OBJ = [
    ("d2", "N0.7,G0.3,M1.0,G1.5,G0.1,T1", None),
    ("d2", "N0.3,G0.1,M1.0,M2.1,G2.7,G1.0,G0.0,T2", None),
    ("d2", "N0.5,G0.2,D1,X0.1,G0.9,G1.9,T0", None),
    ("s2", "N0.5,G0.3,N1.6,A1.0,G1.7,G0.1,T1", None),
    ("s4", "D0,G0.2,M1.0,G1.9,K0,M0.1,G0.13,T0", None),
    ("d1", "D0,G0.1,M1.0,T1", [["E2", "C"], ["E3", "S", "G0"]]),
    ("s4", "D0,G0.2,M1.0,T1", [["E9", "I2"], ["E5", "C", "E13"]]),
    ("d1", "N0.4,G0.2,M1.0,T0", [["E1"], ["E0", "C"]]),
    ("d2", "N0.6,G0.1,N1.8,G1.5,X0.1,T0", [["E9", "S", "G1"], ["F4-9", "C"], ["E12"]]),
    ("s2", "N0.5,G0.3,N1.6,A1.0,T1", [["E7", "Z"], ["L2-7", "C"]]),
    ("d3", "D0,M1.0,T1", [["E0", "E5"], ["E5", "E0"], ["R9", "C"]]),
    ("d1", "D0,G0.1,W130,M1.0,T1", [["E2", "C"], ["S", "G0", "G1"]]),
    ("d1", "N0.3,G0.0,G0.1,W600,T0", [["S", "C", "G0", "G1"], ["E2", "C"]]),
    # the retire list must travel with the elements: snapshot on A, grow A (table retired), move / swap / move-assign A
    # into B, destroy the old shell within the cooling period, then the reader uses the snapshot (S<v> / R<v>.<i>)
    ("d1", "D0,G0.0,S0,G0.1,M1.0,K0,R0.0,T1", None),
    ("d2", "N0.3,G0.1,S0,G0.5,D1,X0.1,K0,R0.1,T1", None),
    ("s2", "N0.5,G0.1,S0,G0.4,N1.6,A1.0,K0,R0.0,T1", None),
    ("d1", "N0.4,G0.0,S0,G0.1,G0.2,M1.0,M2.1,K0,R0.0,K1,R0.0,T2", None),
    ("s4", "D0,G0.2,S0,G0.9,D1,G1.1,X1.0,K1,R0.2,T0", None),
    ("d1", "D0,G0.0,S0,G0.1,M1.0,K0,R0.0,T1", [["E2", "C"], ["S", "G0", "E3"]]),
]


def gen_obj(rng, with_threads):
    block = rng.choice(["d1", "d2", "d4", "s1", "s2", "s4", "d3"])
    bs = 1 << bits_of(block)
    live, ops, moved_to = set(), [], []
    def create(v):
        if rng.chance(1, 2):
            ops.append("D%d" % v)
        else:
            ops.append("N%d.%d" % (v, 2 + rng.below(8)))
        live.add(v)
    create(0)
    if rng.chance(1, 2):
        create(1)
    for v in sorted(live):
        ops.append("G%d.%d" % (v, rng.below(3 * bs)))
    for _ in range(2 + rng.below(5)):
        k = rng.below(10)
        free = [v for v in range(4) if v not in live]
        lv = sorted(live)
        if k < 4 and free and lv:
            d, sv = rng.choice(free), rng.choice(lv)
            ops.append("M%d.%d" % (d, sv))
            live.add(d)
            moved_to.append(d)
            # grow both afterwards (the moved-from dynamic vector has block size 1024: keep its indices small)
            ops.append("G%d.%d" % (d, rng.below(4 * bs)))
            if rng.chance(1, 2):
                ops.append("G%d.%d" % (sv, rng.below(3)))
        elif k < 6 and len(lv) >= 2:
            a = rng.choice(lv)
            b = rng.choice([x for x in lv if x != a])
            ops.append("%s%d.%d" % (rng.choice("AX"), a, b))
            ops.append("G%d.%d" % (rng.choice([a, b]), rng.below(3)))
        elif k < 7 and len(lv) >= 2:
            v = rng.choice(lv)
            ops.append("K%d" % v)
            live.discard(v)
            moved_to[:] = [x for x in moved_to if x != v]
        elif k < 9 and lv:
            ops.append("G%d.%d" % (rng.choice(lv), rng.below(3)))
        elif free:
            create(rng.choice(free))
    target = rng.choice(moved_to) if moved_to and rng.chance(3, 4) else rng.choice(sorted(live))
    ops.append("T%d" % target)
    threads = None
    if with_threads:
        _, threads = gen_small(rng)
        threads = [[o for o in t if not (o[0] == "A" and int(o[1:]) > 1000)] or ["C"] for t in threads]
    return block, ",".join(ops), threads


def directed_schedules(nt, K):
    if nt == 1:
        return [[0]]
    out = []
    for first in range(nt):
        for k1 in range(K):
            for k2 in range(K):
                out.append([first] + [0] * k1 + [1] + [0] * k2 + [1])
    return out


def prog_str(threads):
    return "|".join(",".join(t) for t in threads)


def main(argv):
    chk = Check("C04", argv)
    thorough = chk.tier == "thorough"
    chk.translate(["cvector"])
    chk.coq("Properties_C04.v")
    # release/acquire half: CAS publication of a block table vs the acquire loads of readers
    defs = ("Require Import Verif.Gen.Gen_cvector.\n"
            "Definition cs : morder := match sites_get_table_slow with [(KCasS, o, _)] => o | _ => Relaxed end.\n"
            "Definition tl : morder := match sites_get_table with [(KLoad, o, _)] => o | _ => Relaxed end.\n"
            "Definition sl : morder := match sites_snapshot with [(KLoad, o, _)] => o | _ => Relaxed end.")
    chk.wm_litmus("table-publication", defs, "mp_cas_safe cs tl && mp_cas_safe cs sl",
                  "if mp_cas_safe cs tl then mp_cas_publish cs sl else mp_cas_publish cs tl", "mp_cas_bad",
                  "the CAS that publishes a new block table or the load that reads it lost its release/acquire order: "
                  "a reader can use a table (or element block) whose construction is not visible yet", machine="RA")
    model = chk.extract("cv", "Extract_cv.v", "cv_driver.ml", explorer=True)
    impl = chk.build_cpp("c04_vector", [os.path.join(VERIF, "harness/conc/c04_vector.cpp"),
                                        os.path.join(VERIF, "harness/shim/dsched.cpp")],
                         flags=["-fno-access-control"], ldflags=["-ldl"])
    rng = chk.rng
    progs = []      # (pid, block, threads, kind)   kind: small | directed | big | obj (sequential, vs CVObjModel) | objconc
    psetup = {}     # pid -> whole-object setup script (kinds obj / objconc)
    cases = []      # (cid, pid, seed, strategy, choices)
    if chk.replay:
        r = json.load(open(chk.replay))["replay"]
        progs = [("r0", r["block"], r["threads"], r.get("kind", "big"))]
        psetup["r0"] = r.get("setup", "-")
        cases = [("r0.0", "r0", r["seed"], r["strategy"], r.get("choices", []))]
    else:
        n_small, n_big = (70, 90) if not thorough else (300, 600)
        n_sched = 16 if not thorough else 80
        K = 9 if not thorough else 12
        seen = set()
        while len(progs) < n_small:
            block, th = gen_small(rng)
            key = (block, prog_str(th))
            if key in seen:
                continue
            seen.add(key)
            progs.append(("s%d" % len(progs), block, th, "small"))
        for i, (block, th) in enumerate(DIRECTED):
            progs.append(("x%d" % i, block, th, "directed"))
        for i in range(n_big):
            block, th = gen_big(rng)
            progs.append(("b%d" % i, block, th, "big"))
        n_obj = 24 if not thorough else 120
        objs = [(b, sc, th) for b, sc, th in DIRECTED_OBJ]
        for i in range(n_obj):
            objs.append(gen_obj(rng, i % 2 == 1))
        for i, (block, script, th) in enumerate(objs):
            pid = "o%d" % i
            progs.append((pid, block, th if th else [["Z"]], "objconc" if th else "obj"))
            psetup[pid] = script
        for pid, block, th, kind in progs:
            if kind == "obj":
                cases.append(("%s.0" % pid, pid, 1, 0, []))
                continue
            if kind == "directed":
                for si, ch in enumerate(directed_schedules(len(th), K)):
                    cases.append(("%s.d%d" % (pid, si), pid, 1, 2, ch))
            ns = n_sched if kind != "directed" else n_sched // 2
            for si in range(ns):
                cases.append(("%s.%d" % (pid, si), pid, rng.below(1 << 31), [0, 3, 1, 0][si % 4], []))
    pmap = {p[0]: p for p in progs}
    lines = []
    cmeta = {}
    for cid, pid, seed, strat, ch in cases:
        _, block, th, kind = pmap[pid]
        lines.append("%s %d %d %s %s %s %s" % (cid, seed, strat, block, prog_str(th), ",".join(map(str, ch)) or "-",
                                                 psetup.get(pid, "-")))
        cmeta[cid] = (pid, seed, strat, ch)
    chk.log("%d programs, %d cases" % (len(progs), len(lines)))
    impl_out = chk.run_cases(impl, lines, timeout=900) if impl else {}
    # model outcome sets (all schedules) for the small and directed programs
    model_sets = {}
    obj_model = {}
    states = trans = 0
    if model:
        mlines = ["%s %d %d %s" % (pid, bits_of(block), T0, prog_str(th)) for pid, block, th, kind in progs
                  if kind in ("small", "directed") or (chk.replay and kind == "big")]
        mlines += ["%s OBJ %s %s" % (pid, block, psetup[pid]) for pid, block, th, kind in progs if kind == "obj"]
        mo = chk.run_cases(model, mlines, timeout=1800)
        for pid, l in mo.items():
            if " objs=" in l:
                obj_model[pid] = l.split(" objs=", 1)[1].strip()
                continue
            if "outcomes=" not in l:
                chk.broke("harness", "model driver", l[:300])
                continue
            f = dict(x.split("=", 1) for x in l.split(" outcomes=", 1)[0].split()[1:])
            states += int(f.get("states", 0))
            trans += int(f.get("trans", 0))
            model_sets[pid] = (set(l.split("outcomes=", 1)[1].split(";")), f.get("trunc") == "true", f)
            _, block, th, kind = pmap[pid]
            rep = {"level": "model", "block": block, "threads": th, "model_line": l[:400]}
            if f.get("death") != "true":
                chk.violate("model-death", "model: after ~ConcurrentVector some block is not constructed once and destroyed "
                            "once, or some table not freed exactly once: %s %s" % (block, prog_str(th)), rep)
            if f.get("cool") != "true":
                chk.violate("model-cooling", "model: a snapshot's table is freed within 64 s of being taken although no "
                            "stale stamp was pushed: %s %s" % (block, prog_str(th)), rep)
            if f.get("stale") != "false":
                chk.violate("model-stale-stamp", "model: some schedule lets retire() push a stamp older than the list it "
                            "heads (F4 regression): %s %s" % (block, prog_str(th)), rep)
            if f.get("stuck") != "0":
                chk.violate("model-stuck", "model: a thread cannot finish: %s %s" % (block, prog_str(th)), rep)
    MON = ["same", "stable", "ctor", "dtor", "cool", "snap", "leak", "segs"]
    WHAT = {"same": "two requests for one index got different elements / two indices share an element",
            "stable": "an address handed out earlier no longer designates the live element of its index",
            "ctor": "an element was visible before construction or constructed more than once",
            "dtor": "an element was not destroyed exactly once",
            "cool": "a block table was freed less than one cooling period (64 s) after the growth that superseded it",
            "snap": "a snapshot became unusable less than one cooling period after the growth that superseded it",
            "leak": "a block or block table was not freed exactly once by the time the vector died",
            "segs": "for_each/fill_n/copy_n did not cover exactly [begin, end) in contiguous per-block segments"}
    validated = 0
    distinct = set()
    stale_runs = 0
    for cid, l in impl_out.items():
        pid, seed, strat, ch = cmeta[cid]
        _, block, th, kind = pmap[pid]
        rep = {"block": block, "threads": th, "seed": seed, "strategy": strat, "choices": ch, "kind": kind, "impl_line": l,
               "setup": psetup.get(pid, "-")}
        if l.startswith("DSCHED-STUCK"):
            chk.violate("stuck", "threads never finish: " + l[:400], rep)
            continue
        if l.startswith("CRASH"):
            chk.violate("crash", "implementation crashed under schedule: " + l[:300], rep)
            continue
        parts = l.split(" | ")
        if len(parts) != 3:
            chk.broke("harness", "unparsable driver line", l)
            continue
        detail = parts[2].split(" ! ", 1)[1] if " ! " in parts[2] else ""
        mon = dict(x.split("=", 1) for x in parts[2].split(" ! ", 1)[0].split())
        stale = mon.get("stale") == "1"
        stale_runs += stale
        for m in MON:
            if mon.get(m) != "1":
                chk.violate("mon-" + m, WHAT[m] + ": " + detail + " :: " + block + " " + prog_str(th) +
                            (" after " + psetup[pid] if pid in psetup and psetup[pid] != "-" else ""), rep)
        distinct.add((pid, parts[1] + mon.get("objs", "")))
        if pid in obj_model:
            validated += 1
            if mon.get("objs") != obj_model[pid]:
                chk.broke("correspondence", "CVObjModel differs from the implementation on %s %s" % (block, psetup[pid]),
                          "impl objs: %s\nmodel objs: %s" % (mon.get("objs"), obj_model[pid]))
        if pid in model_sets:
            outs, trunc, _ = model_sets[pid]
            validated += 1
            if parts[1] not in outs and not trunc:
                chk.broke("correspondence", "CVModel does not admit outcome of %s %s" % (block, prog_str(th)),
                          "impl outcome: %s\nmodel outcomes: %s" % (parts[1], sorted(outs)[:12]))
    chk.cov["evaluations"] = len(lines)
    chk.cov["distinct_nontrivial"] = len(distinct)
    chk.cov["traces_validated_against_impl"] = validated
    chk.cov["states"] = states
    chk.cov["transitions"] = trans
    chk.cov["runs_where_a_retire_stalled_across_a_time_unit"] = stale_runs
    chk.cov["rule"] = ("case = (block size static/dynamic, client program, schedule); small programs: seeded random mixes of "
                       "ensure/reserve/[]/size/snapshot/snapshot[]/for_each/fill_n/copy_n/gc/advance over 2-3 threads, block "
                       "sizes 1,2,4 (hints 1,2,3); directed programs aimed at growth-vs-growth races, retire-vs-retire across a "
                       "64 s unit boundary, gc at 127/128 s, 16-bit stamp wrap (retirement in stamp unit 65535, gc/growth 1/40/63 s "
                       "into unit 0 with a reader holding the old snapshot; controls 65534->65535, 65535->1), calendar-clock steps "
                       "(+130 s, +600 s, -70 s, -120 s; in setup scripts and mid-program before gc()/growth with a live reader; "
                       "the monitors measure elapsed virtual monotonic time), each run under every schedule with <= 2 "
                       "pre-emptions in the first 9 scheduling points plus random ones; big programs: 2-5 threads, <= 8 ops, "
                       "block sizes 1..8, clock advances from the aimed set {1,63,64,65,127,128,129,200,2^16 units +-}; "
                       "whole-object programs: directed + seeded random scripts of construct (T() or functor k) / ensure / move-"
                       "construct / move-assign / swap / delete over 4 slots with growth of moved-to and moved-from vectors "
                       "afterwards, half purely sequential (compared with the extracted CVObjModel), half followed by a "
                       "concurrent small program on the moved-to/-from vector (monitors: built by the vector's constructor, "
                       "constructed == destroyed, addresses stable across the move); "
                       "strategies uniform random, round-robin with random pre-emption, PCT; distinct non-trivial = distinct "
                       "(program, observed outcome incl. allocation counters); small+directed programs are explored "
                       "exhaustively in the extracted model and every implementation outcome must be in the model's set")
    for cid in list(impl_out)[:: max(1, len(impl_out) // 5)]:
        chk.sample({"case": lines[[x.split()[0] for x in lines].index(cid)], "impl": impl_out[cid]})
    chk.cov["trusted_base"] = chk.cov.get("trusted_base", []) + [
        "translator/gen.py", "ExtrOcamlBasic extraction + ocaml/explore.ml + ocaml/cv_driver.ml",
        "harness/shim (verif_atomic.h macro shim, dsched.cpp: virtual clock_gettime)",
        "harness/conc/c04_vector.cpp: operator new/delete replacement, counting element type, -fno-access-control sampling",
        "modelled not verified: operator new never returns a live address twice"]
    chk.assumptions = ["sequentially consistent interleavings at atomic-operation granularity (weak-memory effects are covered "
                       "only by the memory-order obligations on the regenerated site table)",
                       "no allocator address reuse while a stale pointer is held (no pointer ABA on _block_table/_head)",
                       "indices/sizes below 2^32 * block_size (block_index is uint32_t)",
                       "no thread is descheduled for more than one cooling period inside a single vector call"]
    chk.finish("proof")
