"""C14 — Id allocator / deposit box: live ids unique, one taker wins, stale ids never match."""
import json
import os
import vlib
from vlib import Check, VERIF

META = {
    "engine": "E1+E2+E3+E4",
    "text": "Coq theorems over an interleaving model of IdAllocator (Treiber stack with a (value, version) head, link "
            "array, _next_value) and DepositBox (slot version words) at atomic-operation granularity, for every client "
            "program, every number of threads and every schedule, for the REAL version widths (vmod = 2^16 / 2^32) under "
            "the window hypothesis no_wrap_in_window (fewer than vmod pushes between a head load and the CAS that "
            "compares against it; slot version fewer than vmod ahead of a taken id) and for unbounded versions: no value "
            "has two owners (free list included), the pop CAS can only succeed with an up-to-date link (ABA), a solo "
            "allocate with a non-empty free list reuses its top and mints nothing (also after a move of the allocator: "
            "both move members are regenerated as `= default`, a move is the identity on the state), the cells marked ACTIVE at quiescence "
            "are exactly the held values, thread ids of simultaneously live threads differ; for the box no emplace round "
            "has two winners, a take of an issued id fails only if another take already won, a won id never matches its "
            "slot again; RAII layer (DepositBox::Accessor: take into holders, move assignment, move construction, "
            "destruction - special members interpreted from the regenerated std::swap / std::exchange calls): #successful "
            "takes = #finish_released calls + #ids held, i.e. every won id is finished exactly once.  Proof of the "
            "real-width statements: the wrapped execution is step for step the image of the "
            "unbounded (ghost) execution.  The boundary is the refuted witness (exactly 65536 pushes in one window), "
            "replayed on the real IdAllocator<uint16_t> on every run.  Release/acquire half on the view machine of "
            "coq/WM/RA.v with the orders of the regenerated site tables: link publication (release push CAS / acquire "
            "head load / acquire reload of a failed pop CAS, also through a chain of RMWs), hand-over of the resource "
            "from one owner of a value to the next, deposit item published by the client's channel (the box's own "
            "orders are relaxed).  Index expressions, the +1 of push and take, the loop test, ACTIVE_FLAG and the "
            "site tables are regenerated from id_allocator.h(pp)/deposit_box.h on every run.  Tie: the real classes "
            "run under a deterministic scheduler pre-empting at every atomic operation (no repo edits); for small "
            "programs every outcome they produce must be one the extracted model admits (exhaustive exploration); "
            "monitors check the property text itself (owner table, for_each at quiescence, free-list drain, take "
            "winners, stale ids across 48 slot reuses, real thread birth/exit through ThreadId/LeakyThreadId).",
    "note": "Known finding version-wrap-aba-u16: without the window hypothesis the uniqueness statement is false for the "
            "16-bit version (c14_unique_owner_refuted; replayed on the real code).  The window hypothesis is also asked "
            "for deallocate's CAS (needed by the simulation proof only).  The deposit-box window is in terms of the "
            "allocator's push count (slot versions are copies of the head version); 2^32 pushes are not replayed.  "
            "for_each's grouping of values into ranges and ConcurrentVector growth are not modelled (checked by the "
            "monitor on the implementation, incl. across the 128-element block boundary).  DepositBox orders nothing by "
            "itself (relaxed version store / relaxed take CAS): the item is published by whatever the client uses to "
            "pass the id (stated as c14_deposit_item_needs_client_channel).  Trusted: Coq kernel; translator; "
            "extraction + OCaml explorer; macro shim and dsched (sequentially consistent executions only; the ordering "
            "obligations are carried by coq/WM/RA.v: release/acquire views, no load buffering); -fno-access-control to "
            "construct a private DepositBox per case.",
}

WM_IMPORTS = "Require Import Verif.Gen.Gen_id_allocator Verif.ID.IDLitmusDefs."
WM_LITMUS = [
    ("link-publication", "id_link_group_safe", "id_link_group_prog", "id_link_group_bad",
     "deallocate's push CAS lost its release, allocate's head load its acquire, or the reload done by allocate's failed "
     "pop CAS its acquire: an allocate that sees a value on top (directly, after a failed CAS, or through a later push "
     "and pop) can read a stale link (_free_next_value) and install a wrong free-list head"),
    ("handover", "id_handover_group_safe", "id_handover_group_prog", "id_handover_bad",
     "the accesses of the previous owner of an id value to the resource it names do not happen-before those of the "
     "next owner (data race across reuse): deallocate's CAS must release, allocate's head load and the reload of its "
     "failed pop CAS must acquire"),
    ("deposit-item", "box_take_src_safe", "box_take_src", "box_take_bad",
     "deposit item not published to the taker although the client passes the id with release/acquire"),
]

AL_SETUPS = ["-", "A,A,F0,F0", "A,A,A,F0,F0,F0", "A,A,A,F1,F0", "A,A,F1", "A,A,A,F0,F1", "A,A,A,A,F0,F2,F0"]
AL_DIRECTED = [("A,A,A,F0,F0,F0", "A|A,A,F1"), ("A,A,A,F0,F0,F0", "A,A|A,A,F1"), ("A,A,F0,F0", "A|A,A,F1,A"),
               ("A,A,F0,F0", "A,F0|A,F0"), ("-", "A,F0,A|A,F0,A"), ("A,A,A,F0,F0,F0", "A|A,A,F1|A"),
               ("A,A,F0", "A|F0"), ("A,A,A,F0,F0", "A,A|F0,A"), ("A,A,F0,F0", "A,A,A|A,F0"),
               # a deallocate whose CAS fails once while two other pushes complete (version bump per retry)
               ("-", "A,F0,A,A|A,A,F0,F0,A,A")]
# move construction at quiescence (setup op V: IdAllocator b(std::move(a)), everything afterwards runs on b): the freed
# values must still be reused first, head version / for_each / end unchanged by the move
AL_MOVED = [("A,A,A,F0,F0,V,A", "A|A,F0"), ("A,A,A,A,F1,F2,V", "A,A|A"), ("A,A,F0,F0,V,A,F0,V", "A,F0,A|A"),
            ("A,A,A,F0,F0,F0,V", "A,A,A,A|-")]
DB_SETUPS = ["-", "E", "E,E", "E,T0,R", "E,E,T0,R,T1,R", "E,T0,R,E"]
DB_DIRECTED = [("E", "T0,R|T0,R"), ("E", "T0,R,E|T0,T1"), ("E,T0,R", "E,T1|T0,T1,R"), ("-", "E,T0,R|T0,R,E"),
               ("E,E", "T0,T1,R,R|T1,T0,R,R"), ("E", "T0,R,E,T1,R|T0,T1,T0"), ("E", "T0|T0|T0"),
               ("E,T0", "R,E|T0,T1"),
               # finish_released retried across two other releases, then the slots are re-emplaced: ids must stay distinct
               ("E,E,E", "T0,R,E,E|T1,T2,R,R,E,E"), ("E,E,E", "T0,R,E,T4,R,E,E|T1,T2,R,R,E,T3,R"),
               # RAII layer: take into holders, move-assign (both holding / source only / target only / self),
               # move-construct, destroy, then further emplace calls
               ("E,E", "K0.0,K1.1,M0.1,D0,D1,E,E|T0,T1"), ("E", "K0.0,E,E|T0"),
               ("E,E", "K0.0,K0.1,C1.0,D1,E|K0.0,M0.0,D0"), ("E,E", "K0.0,M1.0,D0,E,D1,E|K1.1,D1"),
               ("E", "K0.0,M0.0,D0,E|K0.0,D0"), ("E,E", "K0.0,K1.1,M0.1,E,E|K0.0"),
               ("E,E", "K0.0,M0.1,E,D0,E|K1.1,M0.1,D0,E"), ("E", "K0.0,D1,C1.0,E,D1,E|K2.0,M1.2,E")]
TH_SCRIPTS = ["b3,q,x2,q,s2,q,x3,q", "b4,x4,s3,q", "b2,q,x1,s1,q", "s3,q,x1,s1,q,x3,s2,q", "b5,q,x3,b3,q,x2,s2,q",
              "b2,x2,b2,x2,b2,q", "s1,x1,s1,x1,s1,q", "b6,q,x6,s6,q"]


def setup_state(setup, kind):
    """-> (#ids kept by the setup thread, #ids emplaced) after the setup ran alone"""
    held = emp = 0
    for o in ([] if setup == "-" else setup.split(",")):
        if o == "A":
            held += 1
        elif o[0] == "F" and int(o[1:]) < held:
            held -= 1
        elif o == "E":
            emp += 1
    return held, emp


def gen_al(rng, small):
    setup = rng.choice(AL_SETUPS)
    nt = 2 if (small and rng.chance(3, 4)) else 3
    budget = 5 if small else 24
    threads = []
    for t in range(nt):
        n = 1 + rng.below(3 if small else 8)
        held = 0
        ops = []
        for _ in range(n):
            if budget <= 0:
                break
            budget -= 1
            if held > 0 and rng.chance(1, 2):
                i = rng.below(held) if rng.chance(7, 8) else held     # sometimes an index nobody holds: no-op
                ops.append("F%d" % i)
                if i < held:
                    held -= 1
            else:
                ops.append("A")
                held += 1
        threads.append(ops or ["A"])
    return setup, "|".join(",".join(t) for t in threads)


def gen_db(rng, small):
    setup = rng.choice(DB_SETUPS)
    _, emp = setup_state(setup, "DB")
    nt = 2 if (small and rng.chance(3, 4)) else 3
    budget = 5 if small else 20
    threads = []
    for t in range(nt):
        n = 1 + rng.below(3 if small else 7)
        ops = []
        took = 0
        acc = rng.chance(1, 2)
        for _ in range(n):
            if budget <= 0:
                break
            budget -= 1
            r = rng.below(10)
            if acc:                                       # this thread uses the RAII layer
                if r < 2:
                    ops.append("E")
                    emp += 1
                elif r < 5 or took == 0:
                    ops.append("K%d.%d" % (rng.below(3), rng.below(max(1, emp + 1))))
                    took += 1
                elif r < 7:
                    ops.append("M%d.%d" % (rng.below(3), rng.below(3)))
                elif r < 8:
                    ops.append("C%d.%d" % (rng.below(3), rng.below(3)))
                else:
                    ops.append("D%d" % rng.below(3))
            elif r < 3:
                ops.append("E")
                emp += 1
            elif r < 8 or took == 0:
                ops.append("T%d" % rng.below(max(1, emp + 1)))
                took += 1
            else:
                ops.append("R")
        threads.append(ops or ["T0"])
    return setup, "|".join(",".join(t) for t in threads)


def sweeps(nthreads, span, double):
    """strategy-2 choice lists: thread a runs i points, is pre-empted, (the next runs j points, is pre-empted,) ..."""
    out = []
    for start in range(nthreads):
        for i in range(span):
            out.append("%d,0*%d,1" % (start, i))
            if double and i < span - 2:
                for j in range(0, span - 2, 2):
                    out.append("%d,0*%d,1,0*%d,1" % (start, i, j))
    return out


def main(argv):
    chk = Check("C14", argv)
    thorough = chk.tier == "thorough"
    chk.translate(["id_allocator"])
    chk.log("translated")
    chk.coq("Properties_C14.v")
    chk.log("coq done")
    # release/acquire half: skeletons instantiated with the regenerated orders; an order weakened in the source makes a
    # check false and the view machine is searched for the execution
    for nm, safe, prog, bad, what in WM_LITMUS:
        chk.wm_litmus(nm, WM_IMPORTS, safe, prog, bad, what, machine="RA")
    chk.log("wm litmus done")
    model = chk.extract("id", "Extract_id.v", "id_driver.ml", explorer=True)
    chk.log("model extracted")
    impl = chk.build_cpp("c14_id", [os.path.join(VERIF, "harness/conc/c14_id.cpp"),
                                    os.path.join(VERIF, "harness/shim/dsched.cpp")],
                         flags=["-fno-access-control"], ldflags=["-ldl"])
    rng = chk.rng
    lines = []          # implementation case lines
    meta = {}           # cid -> dict
    mlines = []         # model lines (small programs)
    progs = []          # (pid, kind, bits, setup, prog, small)
    directed = set()

    def add_prog(kind, bits, setup, prog, small):
        key = (kind, bits, setup, prog)
        if key in [p[1:5] for p in progs]:
            return
        progs.append(("p%d" % len(progs),) + key + (small,))

    if chk.replay:
        r = json.load(open(chk.replay))["replay"]
        if r.get("kind") in ("AL", "DB"):
            progs.append(("r0", r["kind"], r.get("bits", 16), r["setup"], r["prog"], r.get("small", False)))
            scheds = [(r["seed"], r["strategy"], r.get("choices", "-"))]
        else:
            progs = []
            scheds = []
            lines.append(r["line"])
            meta[r["line"].split()[0]] = {k: v for k, v in r.items() if k != "impl_line"}
    else:
        for i, (s, p) in enumerate(AL_DIRECTED):
            add_prog("AL", 16 if i % 2 == 0 else 32, s, p, True)
        for s, p in DB_DIRECTED:
            add_prog("DB", 32, s, p, True)
        for i, (s, p) in enumerate(AL_MOVED):           # not explored in the model (no move op there; Properties_C14.v:
            add_prog("AL", 16 if i % 2 == 0 else 32, s, p, False)   # c14_move_transfers_free_list says it is the identity)
        directed = set(p[0] for p in progs)
        n_small, n_big = (30, 40) if not thorough else (150, 300)
        for kind, gen in (("AL", gen_al), ("DB", gen_db)):
            for small, n in ((True, n_small), (False, n_big)):
                k = tries = 0
                while k < n and tries < 30 * n:
                    tries += 1
                    s, p = gen(rng, small)
                    before = len(progs)
                    add_prog(kind, 16 if rng.chance(1, 2) else 32, s, p, small)
                    k += len(progs) - before
        nsched = 24 if not thorough else 120
        scheds = [(rng.below(1 << 31), [0, 1, 3, 1][i % 4], "-") for i in range(nsched)]
    for pid, kind, bits, setup, prog, small in progs:
        nth = prog.count("|") + 1
        sl = list(scheds)
        if not chk.replay and small:
            sl += [(1, 2, c) for c in sweeps(nth, 10 if not thorough else 16, pid in directed or thorough)]
        for si, (seed, strat, choices) in enumerate(sl):
            cid = "%s.%d" % (pid, si)
            if kind == "AL":
                lines.append("%s AL %d %d %d %s %s %s" % (cid, bits, seed, strat, choices, setup, prog))
            else:
                lines.append("%s DB %d %d %s %s %s" % (cid, seed, strat, choices, setup, prog))
            meta[cid] = {"kind": kind, "bits": bits, "setup": setup, "prog": prog, "small": small, "seed": seed,
                         "strategy": strat, "choices": choices, "pid": pid}
        if small:
            tl, vm = ((65535, 65536) if bits == 16 else (4294967295, 4294967296))
            mlines.append("%s %d %d %s %s" % (pid, tl, vm, setup, prog))
    if not chk.replay:
        # real thread birth / exit through ThreadId and LeakyThreadId
        nth_sched = 10 if not thorough else 60
        k = 0
        for si, script in enumerate(TH_SCRIPTS):
            for j in range(nth_sched):
                cid = "th%d.%d" % (si, j)
                # (no PCT here: the scripts spin on sched_yield, which a strict-priority scheduler never leaves)
                line = "%s TH %d %d %s %s" % (cid, rng.below(1 << 31), [0, 3][j % 2], "ABC"[k % 3], script)
                k += 1
                lines.append(line)
                meta[cid] = {"kind": "TH", "line": line}
        # many ids: for_each across the 128-element block boundary, long free lists
        for j, n in enumerate([130, 257] if not thorough else [130, 257, 600, 1500]):
            setup = ",".join(["A"] * n + ["F%d" % (i % 7) for i in range(n // 2)])
            cid = "blk%d" % j
            line = "%s AL %d %d 0 - %s %s" % (cid, 16 if j % 2 == 0 else 32, rng.below(1 << 31), setup, "A,F0,A|A,A,F1|F0,A")
            lines.append(line)
            meta[cid] = {"kind": "ALBIG", "line": line}
        # sequential bulk histories: n ids live at once around the 128-cell block size and around the point where the
        # 16-bit link table is complete (capacity 65536 = 2^16), free a pattern, reuse, for_each after every phase
        seq = [(16, n) for n in (1, 127, 128, 129, 255, 256, 257, 1000, 65407, 65408, 65409, 65534)] + \
              [(32, n) for n in (127, 128, 129, 257, 65537, 70000)]
        for j, (bits, n) in enumerate(seq):
            cid = "seq%d.%d" % (bits, n)
            line = "%s SEQ %d %d %d" % (cid, bits, n, rng.choice([0, 2, 3, 7, 129]))
            lines.append(line)
            meta[cid] = {"kind": "SEQ", "line": line}
        # staged 16-bit version wrap (the _refuted witness of Properties_C14.v) and controls that must not wrap
        for split in range(0, 8):
            for pushes in (65536, 65535, 65537, 300) + ((131072, 131071) if thorough else ()):
                cid = "wrap%d.%d" % (pushes, split)
                line = "%s WRAP %d %d" % (cid, pushes, split)
                lines.append(line)
                meta[cid] = {"kind": "WRAP", "pushes": pushes, "split": split, "line": line}
    chk.log("%d programs, %d implementation runs, %d model explorations" % (len(progs), len(lines), len(mlines)))
    line_of = {x.split(None, 1)[0]: x for x in lines}
    impl_out = chk.run_cases(impl, lines, timeout=900) if impl else {}
    model_sets = {}
    states = trans = 0
    if model:
        mo = chk.run_cases(model, mlines, timeout=1800)
        for pid, l in mo.items():
            f = dict(x.split("=", 1) for x in l.split()[1:9] if "=" in x)
            states += int(f.get("states", 0))
            trans += int(f.get("trans", 0))
            outs = l.split("outcomes=", 1)[1] if "outcomes=" in l else ""
            model_sets[pid] = (set(outs.split(";")), "trunc=true" in l)
            if int(f.get("stuck", "0")) > 0:
                chk.broke("correspondence", "model has a stuck terminal state", l[:300])
            mline = [m for m in mlines if m.split()[0] == pid][0]
            for key, sig, what in (("regress", "model-version-regress", "the head version of the free list decreases on a push "
                                    "(version not bumped relative to the head the successful CAS replaced)"),
                                   ("dupheld", "model-two-owners", "an id value ends up held by two owners"),
                                   ("dupids", "model-stale-id-matches", "emplace hands out an id equal to an earlier one: the "
                                    "stale copy matches the new item")):
                if int(f.get(key, "0")) > 0:
                    chk.violate(sig, "the model regenerated from the source admits an execution in which " + what +
                                ": program " + mline, {"level": "model", "program": mline, "count": f.get(key)})
        for m in mlines:
            if m.split()[0] not in mo:
                chk.broke("harness", "model driver gave no line", m)
    WHAT = {"unique": "an id value was held by two owners at the same time",
            "foreach": "for_each at quiescence did not report exactly the held values",
            "reuse": "an allocation at quiescence minted a new value although freed values existed (or the free list lost values)",
            "onewin": "a deposit id was obtained by more than one take, or by none although takes were made",
            "stale": "an id whose item had been taken matched again (or one id was handed out twice)",
            "payload": "the winning take did not get the item that was emplaced under this id, or an item held through an "
                       "Accessor was lost / overwritten",
            "stable": "current_thread_id changed during a thread's life",
            "headmono": "the free-list head version decreased during the run (version must be bumped on every push)",
            "pushcount": "at quiescence the head version differs from the number of deallocate / finish_released calls "
                         "(every push must add exactly one, pops none)",
            "foreach-exact": "for_each at quiescence did not report exactly the live values in a sequential history "
                             "(allocate n, free a pattern, reuse)"}
    validated = 0
    distinct = set()
    nwrapdup = 0
    for cid, l in impl_out.items():
        m = meta[cid]
        rep = dict(m)
        rep["impl_line"] = l
        if "line" not in rep:
            rep["line"] = line_of[cid]
        if l.startswith("DSCHED-STUCK"):
            chk.violate("stuck", "threads never finish under the scheduler: " + l[:400], rep)
            continue
        if l.startswith("CRASH"):
            chk.violate("crash", "implementation crashed (free list corrupted?) on %s: %s" % (rep["line"][:200], l[:300]), rep)
            continue
        parts = l.split(" | ")
        if len(parts) != 3:
            chk.broke("harness", "unparsable driver line", l)
            continue
        mon = dict(x.split("=") for x in parts[2].split())
        if m["kind"] == "WRAP":
            if mon.get("unique") != "1":
                if m["pushes"] % 65536 == 0:
                    nwrapdup += 1
                    chk.violate("version-wrap-aba-u16",
                                "IdAllocator<uint16_t>: an allocate() pre-empted between its loads and its CAS while exactly "
                                "65536 deallocations happen sees (value, version) unchanged, its CAS succeeds with a stale "
                                "link and a value another thread holds is handed out again: " + parts[1], rep)
                else:
                    chk.violate("mon-unique", WHAT["unique"] + " (wrap control run): " + parts[1], rep)
            distinct.add(("wrap", parts[1].split(" split")[0]))
            continue
        for k, v in mon.items():
            if v != "1":
                sig = "stale-id-matches" if (k == "stale" and m["kind"] == "DB") else "mon-" + k
                chk.violate(sig, WHAT.get(k, k) + ": " + rep["line"][:300] + " -> " + parts[1][:300], rep)
        distinct.add((m.get("pid", cid.split(".")[0]), parts[1]))
        if m.get("small") and m.get("pid") in model_sets:
            outs, trunc = model_sets[m["pid"]]
            validated += 1
            if parts[1] not in outs and not trunc:
                chk.broke("correspondence", "IDModel does not admit the outcome of %s / %s" % (m["setup"], m["prog"]),
                          "impl outcome: %s\nmodel outcomes: %s" % (parts[1], sorted(outs)[:12]))
    for cid, x in line_of.items():
        if cid not in impl_out and impl:
            chk.broke("harness", "driver gave no line", x[:200])
    chk.cov["evaluations"] = len(lines)
    chk.cov["distinct_nontrivial"] = len(distinct)
    chk.cov["traces_validated_against_impl"] = validated
    chk.cov["states"] = states
    chk.cov["transitions"] = trans
    chk.cov["wrap_witness_reproduced_runs"] = nwrapdup
    chk.cov["rule"] = ("case = (client program, schedule); programs: directed ABA / racing-take programs plus seeded random mixes "
                       "of allocate/deallocate (IdAllocator<uint16_t> and <uint32_t>) and emplace/take_released/finish_released "
                       "plus Accessor operations (take into a holder, move-assign between holders incl. self-assignment, "
                       "move-construct, destroy) (DepositBox) over 2-3 threads after a sequential setup that pre-fills the free list / the box; schedules: "
                       "uniform random, PCT depth 3, round-robin with random pre-emption, and for small programs an exhaustive "
                       "sweep of all one- and two-pre-emption schedules (replay strategy); SEQ cases are sequential histories with n = 1 .. 65534 (16-bit) / "
                       "70000 (32-bit) ids live at once (around the 128-cell block size and the 16-bit table capacity 65536); "
                       "thread-id scripts spawn/exit real "
                       "threads in waves; WRAP cases stage the 65536-push window; distinct non-trivial = distinct (program, "
                       "observed outcome) pairs; small programs are explored exhaustively in the extracted model and every "
                       "implementation outcome (ids with versions, live set, end) must be in the model's outcome set")
    ks = list(impl_out)
    for cid in ks[:: max(1, len(ks) // 5)]:
        chk.sample({"case": line_of[cid][:300], "impl": impl_out[cid][:300]})
    chk.cov["trusted_base"] = chk.cov.get("trusted_base", []) + [
        "translator/gen.py", "ExtrOcamlBasic extraction + ocaml/explore.ml + ocaml/id_driver.ml",
        "coq/WM/RA.v release/acquire view machine (explorer proved complete in WM/RAProofs.v; no load buffering)",
        "harness/shim (verif_atomic.h macro shim, dsched.cpp: pthread create/join interposition, sched_yield)",
        "g++ -fno-access-control (private DepositBox constructor, _slot_id_allocator)",
        "modelled not verified: ConcurrentVector (ensure / operator[] / snapshot), absl::optional"]
    chk.assumptions = ["sequentially consistent interleavings at atomic-operation granularity",
                       "no_wrap_in_window: fewer than 2^16 resp. 2^32 pushes between a head load and the CAS comparing "
                       "against it; slot version fewer than 2^32 ahead of a taken id (or unbounded versions)",
                       "fewer than 65534 (2^32-2) values ever minted by one allocator (nv <= ACTIVE_FLAG)"]
    chk.finish("proof")
