"""C13 - coroutines: each suspension resumed exactly once, on its executor, right result (coroutine futex first)."""
import hashlib
import json
import os
import subprocess
import threading
import vlib
from vlib import Check, VERIF, REPO, BUILD

META = {
    "engine": "E1+E2+E3+E4",
    "text": "Coq theorems over an interleaving model of coroutine::Futex (waiter list under the mutex, wake_one, "
            "wake_all, Awaitable::cancel, await_suspend) on an abstract DepositBox (versioned id, one taker per id), "
            "with the executor hand-off of BasicPromise::resume and the take race of BasicCancellable, for every "
            "client program, every number of waiters/wakers/cancellers, every history of earlier waits (slot reuse) "
            "and every schedule: no coroutine is resumed unless it is suspended on the node the resumer took (never "
            "twice), each suspension is resumed at most once and on the executor the coroutine is bound to, a taken "
            "node always has exactly one owner that resumes it, wake_one returns 0 only with an empty list, wake_all "
            "detaches the whole list, a non-matching wait does not suspend, and when nothing is in flight the slots in "
            "use are exactly the queued waiters (no leak, nothing stranded).  The pointer the loops of wake_one / "
            "wake_all follow and the release of the slot of a non-suspending wait are regenerated from futex.cpp / "
            "futex.h on every run.  Tie: real C++20 coroutines (Task, Future awaitable, Cancellable, Futex, real "
            "DepositBox) run under the deterministic scheduler (futex.cpp compiled through the atomic shim, std::mutex "
            "interposed) on harness executors served by a small worker pool; monitors check resume counts, executor "
            "identity at every continuation, awaited values / empty optional iff cancel won, wake_one / wake_all "
            "against the real waiter list and slot versions, and deposit-box slots in use; for small futex programs "
            "every observed outcome must be one the exhaustively explored extracted model admits.",
    "note": "Trusted: Coq kernel; translator; extraction + OCaml explorer; macro shim + dsched (sequentially "
            "consistent interleavings; the driver adds one scheduling point after finish_released in futex.cpp to open "
            "the plain-memory window of wake_all; a second build of the same driver additionally yields after every "
            "unlock of futex.cpp and poisons freed memory, to see await_suspend touching a destroyed awaitable); DepositBox/IdAllocator are modelled abstractly (their own property is "
            "C14); Task/Future-awaitable/Cancellable are covered by monitors on the real code and a small model of the "
            "take race only.  Liveness is proved in its safety form (no reachable quiescent state has a stranded or "
            "leaked wait); the step to 'eventually resumed under a fair scheduler' is not mechanised.",
}

# ------------------------------------------------------------------------------------------------ build
def sha_files(paths, extra=""):
    h = hashlib.sha1(extra.encode())
    for q in paths:
        try:
            h.update(q.encode() + b"\0" + open(q, "rb").read())
        except OSError:
            h.update(b"missing:" + q.encode())
    return h.hexdigest()


def build_cached(chk, name, srcs, flags, ldflags):
    """one object per source, compiled in parallel; objects are re-used only when the content of every dependency
    under REPO / VERIF and the flags are unchanged (content hash)."""
    exe = os.path.join(BUILD, "bin", name)
    stamp = exe + ".stamp"
    os.makedirs(os.path.dirname(exe), exist_ok=True)
    key = " ".join(vlib.CXXFLAGS + list(flags) + [vlib.CXX])

    def relevant(deps, old_repo):
        out = []
        for d_ in deps:
            if old_repo and d_.startswith(old_repo + "/"):
                d_ = REPO + d_[len(old_repo):]
            if d_.startswith(REPO + "/") or d_.startswith(VERIF + "/"):
                out.append(d_)
        return sorted(set(out))

    objs = ["%s.%d.o" % (exe, i) for i in range(len(srcs))]
    fresh = False
    if os.path.exists(stamp) and os.path.exists(exe) and all(os.path.exists(o) for o in objs):
        try:
            st = json.load(open(stamp))
            fresh = st["hash"] == sha_files(relevant(st["deps"], st["repo"]), key)
        except (ValueError, KeyError, OSError):
            fresh = False
    if fresh:
        return exe
    alldeps, procs = [], []
    for src, o in zip(srcs, objs):
        cmd = [vlib.CXX] + vlib.CXXFLAGS + ["-I" + os.path.join(VERIF, "harness")] + list(flags) + \
              ["-MMD", "-MF", o + ".d", "-c", src, "-o", o]
        procs.append((src, o, subprocess.Popen(cmd, stdout=subprocess.PIPE, stderr=subprocess.PIPE, text=True)))
    for src, o, pr in procs:
        out, err = pr.communicate()
        if pr.returncode != 0:
            chk.broke("harness", "compile %s (%s)" % (os.path.basename(src), name), err[-3000:])
            return None
        txt = open(o + ".d").read().replace("\\\n", " ")
        alldeps += [os.path.abspath(x) for x in txt.split(":", 1)[1].split()]
    rc, out, err = vlib.sh([vlib.CXX] + objs + ["-o", exe] + list(ldflags) + vlib.LDFLAGS, timeout=600)
    if rc != 0:
        chk.broke("harness", "link " + name, err[-3000:])
        return None
    deps = relevant(alldeps, None)
    json.dump({"repo": REPO, "deps": deps, "hash": sha_files(deps, key)}, open(stamp, "w"))
    return exe


# ------------------------------------------------------------------------------------------------ programs
def gen_small(rng):
    """futex-only program small enough for exhaustive exploration of the model"""
    nk = 1 + rng.below(3)
    coros = []
    budget = 4
    for i in range(nk):
        nw = 1 + (1 if (rng.chance(1, 3) and budget > nk) else 0)
        ops = []
        for _ in range(nw):
            r = rng.below(10)
            ops.append("w0" if r == 0 else ("w1" if r < 3 else "w1t"))
            budget -= 1
        coros.append((rng.below(2), ops))
    toks = [(i, j) for i, (_, ops) in enumerate(coros) for j, o in enumerate(ops) if o.endswith("t")]
    first_tok = len([1 for _, ops in coros if ops[0] == "w1t"])
    nt = 1 + rng.below(2)
    threads = [[] for _ in range(nt)]
    nops = 2 + rng.below(2 if nk == 3 else 3)
    use_v = rng.chance(1, 4)
    for _ in range(nops):
        t = rng.below(nt)
        r = rng.below(10)
        if r < 3:
            threads[t].append("W1")
        elif r < 5:
            threads[t].append("WA")
        elif r < 9 and toks:
            i, j = rng.choice(toks)
            threads[t].append("K%d.%d" % (i, j))
        elif use_v:
            threads[t].append("V%d" % rng.below(2))     # store to the word, then (mostly) the wake that goes with it
            if rng.chance(3, 4):
                threads[t].append(rng.choice(["WA", "WA", "W1"]))
        else:
            threads[t].append("W1")
    for t in range(nt):
        if first_tok and not use_v and rng.chance(2, 3):
            threads[t].insert(0, "Q%d" % (1 + rng.below(first_tok)))
    threads = [th for th in threads if th]
    return coros, threads


def gen_big(rng):
    nk = 2 + rng.below(4)
    nex = 1 + rng.below(3)
    two = rng.chance(1, 3)        # a second futex drawing its nodes from the same deposit box
    coros, futs = [], 0
    for i in range(nk):
        ops = []
        for _ in range(1 + rng.below(3)):
            r = rng.below(20)
            if r < 9:
                ops.append(("u" if two and rng.chance(1, 2) else "w") + ("1t" if rng.chance(3, 4) else "1"))
            elif r < 11:
                ops.append("w0" if rng.chance(1, 2) else "w0t")
            elif r < 13:
                ops.append("%s%d" % (rng.choice("fF"), futs)); futs += 1
            elif r < 16:
                e = rng.choice(["i"] + [str(x) for x in range(nex)])
                if rng.chance(2, 3):
                    ops.append("a%s.%d" % (e, futs)); futs += 1
                else:
                    ops.append("a%s.-" % e)
            else:
                if rng.chance(3, 4):
                    ops.append("c%d.%d" % (rng.below(nex), futs)); futs += 1   # explicit executor (see F3e)
                else:
                    ops.append("c%s.-" % rng.choice(["i"] + [str(x) for x in range(nex)]))
        coros.append((rng.below(nex), ops))
    toks = [(i, j) for i, (_, ops) in enumerate(coros) for j, o in enumerate(ops)
            if (o[0] in "wu" and o.endswith("t")) or o[0] == "c"]
    nt = 2 + rng.below(2)
    threads = [[] for _ in range(nt)]
    for k in range(futs):
        threads[rng.below(nt)].append("S%d" % k)
    for _ in range(3 + rng.below(6)):
        t = rng.below(nt)
        pos = rng.below(len(threads[t]) + 1)
        r = rng.below(10)
        fx = "X" if two and rng.chance(1, 2) else "W"
        if r < 3:
            o = fx + "1"
        elif r < 5:
            o = fx + "A"
        elif r < 9 and toks:
            o = "K%d.%d" % rng.choice(toks)
        else:
            o = "Y"
        threads[t].insert(pos, o)
    ntok_first = len([1 for _, ops in coros if ops[0] in ("w1t", "u1t")])
    if rng.chance(1, 4):                                  # word change + wake racing with waiters that register
        t = rng.below(nt)
        pos = rng.below(len(threads[t]) + 1)
        threads[t][pos:pos] = ["V0", rng.choice(["WA", "WA", "W1"])]
        ntok_first = 0                                    # tokens may never be published: no Q
    for t in range(nt):
        if ntok_first and rng.chance(1, 2):
            threads[t].insert(0, "Q%d" % (1 + rng.below(ntok_first)))
    threads = [th for th in threads if th]
    return coros, threads


def show(coros, threads):
    cs = ";".join("%d:%s" % (e, ",".join(ops)) for e, ops in coros) or "-"
    ts = "|".join(",".join(t) for t in threads) or "-"
    return cs, ts


DIRECTED = [
    # (name, coroutines, threads, schedules)
    ("d.mismatch", "0:w0;0:w0,w0", "-", 2),
    ("d.w1cancel", "0:w1t;0:w1t", "Q2,K0.0,K1.0|Q2,W1,W1", 60),
    ("d.wareuse", "0:w1t,w1;0:w1t,w1;1:w1t", "Q3,WA", 120),
    ("d.wareuse2", "0:w1t,w1t;1:w1t;0:w1t", "Q3,WA,W1|Q3,K1.0", 60),
    # store + wake racing with waiters that are registering (the Y's let the coroutines reach add_awaiter first)
    ("d.lostwake", "0:w1;1:w1;0:w1t", "Y,Y,Y,Y,V0,WA", 60),
    ("d.lostwake2", "0:w1,w1;1:w1", "Y,Y,Y,V0,WA|W1", 40),
    ("d.lostwake3", "0:w1t,w1;1:w1", "Q1,W1,Y,V0,WA", 40),
    # cancel racing wake_all with several waiters queued, then a second round of waits (slot reuse) that is cancelled /
    # woken again, on one futex and on two futexes sharing the deposit box; priority schedules (strategy 1) keep a
    # canceller parked between its take and the futex mutex long enough
    ("d.cancelwa", "0:w1t,w1t;1:w1t,w1t;0:w1t,w1t;1:w1t,w1t", "Q4,K0.0,K1.0|Q4,WA|Q4,K2.0,K3.0", 150, 1),
    ("d.cancelwa2", "0:w1t,u1t;1:w1t,u1t;0:w1t,u1t;1:w1t,u1t", "Q4,K0.0,K1.0,X1|Q4,WA,XA|Q4,K2.0,K3.0,X1", 75, 1),
    ("d.cancelwa3", "0:w1t,w1t,w1;1:w1t,w1t,w1;0:w1t,w1", "Q3,K0.0,K1.0,Q5,K0.1,W1|Q3,WA,Y,W1,WA|Q3,K2.0,Q4,K1.1", 50, 1),
    ("d.race1", "0:w1t", "Q1,K0.0|Q1,W1", 30),
    ("d.race2", "0:w1t;1:w1t", "Q2,K0.0,W1|Q2,WA,K1.0", 40),
    ("d.history", "0:w1t,w1t,w1t", "Q1,W1,Q2,K0.1,Q3,WA|K0.0,K0.2", 30),
    ("d.cancellable", "0:c1.0;1:c0.1", "Q1,K0.0,S1|Q1,S0,K1.0", 40),
    ("d.future", "0:f0,F1;1:f0", "S0|S1", 20),
    ("d.task", "0:a1.0,ai.-;1:ai.1,a0.-", "S0|S1", 20),
    ("d.noexec", "0:ci.0;1:ai.1,ci.-", "Q1,S0|S1", 6),
]
# programs for the variant driver (scheduling point after every unlock of futex.cpp, freed memory poisoned)
DIRECTED_V = [
    ("cbrace", "0:w1t;1:w1t", "W1,Y,W1,Y,W1,Y,W1,Y,W1,W1|Y,WA,Y,WA,Y,WA", 320),
    ("lostwake", "0:w1;1:w1;0:w1t", "Y,Y,Y,Y,V0,WA", 40),
    ("w1cancel", "0:w1t;0:w1t", "Q2,K0.0,K1.0|Q2,W1,W1", 40),
    ("wareuse", "0:w1t,w1;0:w1t,w1;1:w1t", "Q3,WA", 60),
    ("race2", "0:w1t;1:w1t", "Q2,K0.0,W1|Q2,WA,K1.0", 40),
    ("history", "0:w1t,w1t,w1t", "Q1,W1,Q2,K0.1,Q3,WA|K0.0,K0.2", 30),
]
SMALL_DIRECTED = {"d.lostwake", "d.lostwake2", "d.lostwake3", "d.mismatch", "d.w1cancel", "d.wareuse", "d.race1", "d.race2", "d.history"}
MON = ["once", "acct", "exec", "value", "nosusp", "w1", "wall", "leak", "stranded", "cbafter", "lostwake", "listwf"]
WHAT = {"once": "a co_await returned twice / a coroutine was resumed while running / a token cancelled twice",
        "acct": "resumed futex suspensions != wake_one + wake_all results + successful cancels",
        "exec": "a continuation ran outside the executor its coroutine is bound to",
        "value": "awaited value wrong, or optional empty without / non-empty despite a successful cancel",
        "nosusp": "a non-matching wait suspended (or a matching one did not)",
        "w1": "wake_one returned 0 although an untaken waiter was queued during the whole call",
        "wall": "wake_all left a waiter that was queued when it began linked or untaken",
        "leak": "deposit-box slots still in use after every coroutine finished",
        "stranded": "a suspended coroutine was never resumed although wake_all ran after it was queued",
        "lostwake": "a coroutine is suspended on a futex whose word differs from its expected value although a wake_all "
                    "began after the last store to the word (compare and enqueue of add_awaiter not atomic: lost wakeup)",
        "listwf": "a futex waiter list is not a well-formed doubly linked list of waiters of that futex when nothing is in "
                  "flight (prev of a linked node wrong / cycle / node of another futex), or is not empty at the end",
        "cbafter": "await_suspend fetched the on_suspend callback from an awaitable the continuation had already destroyed"}


def main(argv):
    chk = Check("C13", argv)
    thorough = chk.tier == "thorough"
    chk.translate(["coroutine"])
    built = {}

    srcs = [os.path.join(VERIF, "harness/conc/c13_coroutine.cpp"),
            os.path.join(REPO, "src/babylon/executor.cpp"),
            os.path.join(REPO, "src/babylon/basic_executor.cpp"),
            os.path.join(VERIF, "harness/shim/dsched.cpp")]

    def build_variant():
        # same driver; the lock_guard of futex.cpp yields after unlocking and freed memory is poisoned
        built["variant"] = build_cached(chk, "c13_coroutine_v", srcs,
                                        flags=["-fno-access-control", "-include", "shim/prelude.h", "-DC13_UNLOCK_POINT"],
                                        ldflags=["-ldl"])
    bv = threading.Thread(target=build_variant)
    bv.start()

    def build():
        built["impl"] = build_cached(chk, "c13_coroutine",
                                     [os.path.join(VERIF, "harness/conc/c13_coroutine.cpp"),
                                      os.path.join(REPO, "src/babylon/executor.cpp"),
                                      os.path.join(REPO, "src/babylon/basic_executor.cpp"),
                                      os.path.join(VERIF, "harness/shim/dsched.cpp")],
                                     flags=["-fno-access-control", "-include", "shim/prelude.h"], ldflags=["-ldl"])
    bt = threading.Thread(target=build)
    bt.start()
    chk.coq("Properties_C13.v")
    chk.log("coq done")
    model = chk.extract("co", "Extract_co.v", "co_driver.ml", explorer=True)
    chk.log("extraction done")
    bt.join()
    bv.join()
    chk.log("drivers built")
    impl = built.get("impl")
    variant = built.get("variant")
    rng = chk.rng
    progs = []   # (pid, cs, ts, small, nsched)
    if chk.replay:
        r = json.load(open(chk.replay))["replay"]
        progs = [("r0", r["coroutines"], r["threads"], r.get("small", False), 1)]
        fixed_sched = (r["seed"], r["strategy"], r.get("workers", 2))
    else:
        fixed_sched = None
        forced = {}
        for d in DIRECTED:
            name, cs, ts, n = d[:4]
            if len(d) > 4:
                forced[name] = d[4]
            progs.append((name, cs, ts, name in SMALL_DIRECTED, n * (5 if thorough else 2)))
        n_small, n_big = (36, 120) if not thorough else (90, 500)
        seen = set()
        for small, n, gen in ((True, n_small, gen_small), (False, n_big, gen_big)):
            k = 0
            while k < n:
                cs, ts = show(*gen(rng))
                if (cs, ts) in seen:
                    continue
                seen.add((cs, ts))
                progs.append(("%s%d" % ("s" if small else "b", k), cs, ts, small,
                              (20 if small else 16) * (3 if thorough else 1)))
                k += 1
    lines, meta = [], {}
    for pid, cs, ts, small, nsched in progs:
        for si in range(nsched):
            if fixed_sched:
                seed, strat, nw = fixed_sched
            else:
                seed, strat, nw = rng.below(1 << 31), [0, 3, 1, 0][si % 4], 2 + (si % 2)
                if pid in forced:
                    strat, nw = forced[pid], 2 + (si % 3)
            cid = "%s.%d" % (pid, si)
            lines.append("%s %d %d %d 1 %s %s" % (cid, seed, strat, nw, cs, ts))
            meta[cid] = (pid, cs, ts, small, seed, strat, nw)
    vlines = []
    if not chk.replay or json.load(open(chk.replay))["replay"].get("variant"):
        vprogs = [(n, c, t, k) for n, c, t, k in DIRECTED_V]
        if chk.replay:
            r = json.load(open(chk.replay))["replay"]
            # the variant driver's schedules depend on the history of the process (first-use paths of the deposit box
            # take more atomic operations), so a single (seed, strategy) is not reproducible in isolation: the replay
            # re-runs the program of the case under many schedules
            vprogs = [("r0", r["coroutines"], r["threads"], 400)]
        for name, cs, ts, n in vprogs:
            for si in range(n * (4 if thorough else 1)):
                if fixed_sched and not chk.replay:
                    seed, strat, nw = fixed_sched
                else:
                    seed, strat, nw = rng.below(1 << 31), [0, 3, 1, 0][si % 4], 3
                cid = "v.%s.%d" % (name, si)
                vlines.append("%s %d %d %d 1 %s %s" % (cid, seed, strat, nw, cs, ts))
                meta[cid] = (name, cs, ts, False, seed, strat, nw)
    if chk.replay and vlines:
        lines = []
    chk.log("%d programs, %d cases (+ %d on the variant driver)" % (len(progs), len(lines), len(vlines)))
    impl_out = chk.run_cases(impl, lines, timeout=900) if impl and lines else {}
    if variant and vlines:
        # the variant driver leaves the process (exit 0) right after reporting a cbafter failure, before anything else
        # touches the destroyed awaitable; run_cases books the following case as "CRASH rc=0": run those again
        todo = vlines
        for _ in range(8):
            out = chk.run_cases(variant, todo, timeout=900)
            again = [l for l in todo if out.get(l.split()[0], "").startswith("CRASH rc=0 ")]
            impl_out.update({k: v for k, v in out.items() if not v.startswith("CRASH rc=0 ")})
            if not again:
                break
            todo = again
    chk.log("implementation runs done")
    model_sets = {}
    states = trans = 0
    if model:
        cap = 1500000 if thorough else 400000
        mlines = ["%s 1 %s %s gen %d" % (pid, cs, ts, cap) for pid, cs, ts, small, _ in progs if small]
        mo = chk.run_cases(model, mlines, timeout=1500)
        for pid, l in mo.items():
            if "outcomes=" not in l:
                chk.broke("harness", "model driver", l[:300])
                continue
            f = dict(x.split("=", 1) for x in l.split()[1:6])
            states += int(f.get("states", 0))
            trans += int(f.get("trans", 0))
            model_sets[pid] = (set(l.split("outcomes=", 1)[1].split(";")), f.get("trunc") == "true")
            if int(f.get("bad", "0")) > 0:
                prog = [p for p in progs if p[0] == pid][0]
                chk.violate("model-bad", "the model of the regenerated code reaches a state in which a coroutine that is not "
                            "suspended is resumed, a node is queued while the word does not match (lost wakeup), or "
                            "remove_awaiter writes link fields of a node that is not in the list, for "
                            "coroutines %s threads %s: %s" % (prog[1], prog[2], l[:200]),
                            {"level": "model", "coroutines": prog[1], "threads": prog[2], "small": True, "seed": 1,
                             "strategy": 0, "workers": 2})
    chk.log("model exploration done: %d states" % states)
    validated = 0
    reported = set()
    distinct = set()
    for cid, l in impl_out.items():
        pid, cs, ts, small, seed, strat, nw = meta[cid]
        rep = {"coroutines": cs, "threads": ts, "seed": seed, "strategy": strat, "workers": nw, "small": small,
               "variant": cid.startswith("v."), "impl_line": l[:600]}
        if l.startswith("DSCHED-STUCK"):
            kind = "deadlock" if "deadlock" in l.split()[1] else "livelock"
            chk.violate("stuck-" + kind, "threads never finish (%s): %s" % (kind, l[:300]), rep)
            continue
        if l.startswith("CRASH"):
            chk.violate("crash", "implementation crashed (double resumption / null executor / use after release): "
                        + l[:200] + " [%s / %s]" % (cs, ts), rep)
            continue
        parts = l.split(" | ")
        if len(parts) != 3:
            chk.broke("harness", "unparsable driver line", l[:300])
            continue
        mon = dict(x.split("=", 1) for x in parts[2].split())
        for m in MON:
            if mon.get(m) != "1":
                chk.violate("mon-" + m, "%s [%s / %s] %s" % (WHAT[m], cs, ts, mon.get("detail", "")), rep)
        distinct.add((pid, parts[1]))
        if small and pid in model_sets:
            outs, trunc = model_sets[pid]
            res, prog_ = parts[1].split(" / ")
            res = "|".join(",".join(x for x in th.split(",") if x != "y") for th in res.split("|"))
            validated += 1
            if (res + " / " + prog_) not in outs and not trunc and pid not in reported:
                reported.add(pid)
                chk.broke("correspondence", "COModel does not admit outcome of %s %s" % (cs, ts),
                          "impl outcome: %s\nmodel outcomes: %s" % (parts[1], sorted(outs)[:30]))
    chk.cov["evaluations"] = len(lines) + len(vlines)
    chk.cov["distinct_nontrivial"] = len(distinct)
    chk.cov["traces_validated_against_impl"] = validated
    chk.cov["states"] = states
    chk.cov["transitions"] = trans
    chk.cov["rule"] = ("case = (coroutine programs, client programs, schedule seed, strategy, worker count); directed "
                       "programs aim at the windows named in the property (cancel vs wake_one on the head node, "
                       "wake_all vs re-wait of a resumed coroutine, cancel vs completion, completion vs registration, "
                       "non-matching wait, slot reuse history, several executors); random programs mix futex waits "
                       "(with/without token, matching or not), future / task / cancellable awaits, wake_one, wake_all, "
                       "cancels, value stores; distinct non-trivial = distinct (program, outcome) pairs; small futex "
                       "programs are explored exhaustively in the extracted model and every implementation outcome must "
                       "be in the model's outcome set")
    for cid in list(impl_out)[:: max(1, len(impl_out) // 5)]:
        chk.sample({"case": cid, "program": meta[cid][1:3], "impl": impl_out[cid][:300]})
    chk.cov["trusted_base"] = chk.cov.get("trusted_base", []) + [
        "translator/gen.py", "ExtrOcamlBasic extraction + ocaml/explore.ml + ocaml/co_driver.ml",
        "harness/shim (verif_atomic.h macro shim, dsched.cpp: mutex/usleep/pthread interposition) + one extra "
        "scheduling point after finish_released in futex.cpp (macro in the driver)",
        "modelled not verified: DepositBox/IdAllocator (C14), std::mutex, coroutine frames"]
    chk.assumptions = ["sequentially consistent interleavings at atomic-operation granularity",
                       "deposit-box id versions do not wrap (2^32 re-uses of one slot between a token's creation and use)",
                       "executors run every function handed to them (a refusing executor resumes inline, off-executor)"]
    chk.finish("proof")
