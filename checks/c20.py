"""C20 — logging: entry bytes/pages exact (sequential core) + async appender ordering."""
import json
import os
import re
import vlib
from vlib import Check, sh, VERIF


META = {
    "engine": "E1+E2+E3+E5",
    "text": "Coq theorems over an executable model of LogStreamBuffer/LogEntry for every page size (>=24, multiple "
            "of 8) and every byte sequence: the scatter list spells exactly the streamed bytes, lists every data and "
            "page-table page exactly once and nothing else, no slot array is overrun.  All size formulas of "
            "append_to_iovec are regenerated from log_entry.cpp/.h on every run, so an edited formula re-opens the "
            "proofs; the hand-written control structure is tied by running model and real class on the same "
            "(page size, length, chunking) cases around every capacity boundary.",
    "note": "Trusted: Coq kernel, translator (size_t arithmetic as unbounded Z), ExtrOcamlBasic extraction + OCaml "
            "driver, C++ harness with a recording PageAllocator.  Modelled not verified: std::streambuf, allocator "
            "freshness, writev.  The asynchronous appender half is checked by monitored runs of the real appender.",
}


def cases_for(chk, p, K, thorough):
    T = (p - 8) // 8
    ns = set([0, 1, 2, p - 1, p, p + 1, 2 * p])
    for j in range(0, 4 if not thorough else 7):
        base = K * p - p + j * T * p
        for d in (-1, 0, 1, p - 1, p, p + 1):
            if base + d >= 0:
                ns.add(base + d)
    for i in range(1, K + 1):
        ns.update([i * p - 1, i * p, i * p + 1])
    top = K * p + 3 * T * p
    for _ in range(30 if not thorough else 300):
        ns.add(chk.rng.below(top))
    if thorough and p <= 40:
        ns.update(range(0, K * p + 2 * T * p + 2 * p))
    # the extracted model runs byte by byte over Coq lists: keep entries below ~100 KB (for large pages the
    # multi-table boundaries are out of reach; they are covered by the small page sizes and by the proof)
    return sorted(n for n in ns if n <= 100000)


def async_part(chk, lib, thorough):
    """asynchronous half: real AsyncFileAppender (compiled with the atomic shim) under the deterministic
    scheduler; monitors = every entry exactly once, intact, per-thread order per file, pages returned."""
    if chk.replay or not lib:
        return
    src = lambda rel: os.path.join(vlib.REPO, "src", "babylon", rel)
    exe = chk.build_cpp("c20_appender",
                        [os.path.join(VERIF, "harness/conc/c20_appender.cpp"), src("logging/async_file_appender.cpp"),
                         src("logging/log_entry.cpp"), src("logging/file_object.cpp"), src("reusable/page_allocator.cpp"),
                         os.path.join(VERIF, "harness/shim/dsched.cpp")],
                        objs=[lib], flags=["-include", "shim/prelude.h"], ldflags=["-ldl"])
    if not exe:
        return
    rng = chk.rng
    lines = []
    nprog = 40 if not thorough else 200
    nsched = 6 if not thorough else 20
    for i in range(nprog):
        psize = rng.choice([32, 64, 64, 128])
        qcap = rng.choice([1, 2, 2, 4, 8])
        nfiles = 1 + rng.below(2)
        rot = rng.choice([0, 0, 2, 3])
        nt = 1 + rng.below(3)
        lens = [1, 5, psize - 12, psize, 3 * psize, 14 * psize - 11, 14 * psize + 40, 20 * psize]
        prog = "|".join(",".join("%d:%d" % (rng.below(nfiles), rng.choice(lens)) for _ in range(1 + rng.below(4)))
                        for _ in range(nt))
        for k in range(nsched):
            lines.append("a%d.%d %d %d %d %d %d %d %s" % (i, k, rng.below(1 << 31), [0, 3, 0, 1][k % 4], psize, qcap,
                                                         nfiles, rot, prog))
    # entries and backlogs whose scatter lists exceed the kernel's per-writev limit (IOV_MAX)
    for k in range(3 if not thorough else 10):
        lines.append("h%d %d %d 32 4 1 0 0:%d" % (k, rng.below(1 << 31), [0, 3, 1][k % 3], (1024 + 76 + 5 * k) * 32 - 7))
        lines.append("b%d %d %d 32 128 1 -5000 %s" % (k, rng.below(1 << 31), [0, 3, 1][k % 3],
                                                     "|".join(",".join("0:%d" % (15 * 32 + j) for j in range(45)) for _ in range(2))))
    # file objects that report no descriptor in some writer rounds (cannot open): text may be lost, pages never
    for i in range(12 if not thorough else 60):
        psize = rng.choice([32, 64, 128])
        qcap = rng.choice([1, 2, 4, 8])
        nfiles = 1 + rng.below(2)
        rot = rng.choice([1001, 1002, 1004, 1999])
        lens = [1, psize - 12, psize, 3 * psize, 14 * psize - 11, 14 * psize + 40, 20 * psize, 14 * psize + 3 * (psize // 8 - 1) * psize + 5]
        prog = "|".join(",".join("%d:%d" % (rng.below(nfiles), rng.choice(lens)) for _ in range(1 + rng.below(4)))
                        for _ in range(1 + rng.below(3)))
        for k in range(3):
            lines.append("u%d.%d %d %d %d %d %d %d %s" % (i, k, rng.below(1 << 31), [0, 3, 1][k], psize, qcap, nfiles, rot, prog))
    out = chk.run_cases(exe, lines, timeout=900)
    WHAT = {"intact": "a file stream is not a sequence of intact entries (bytes lost, mixed or invented)",
            "once": "an entry written before close() did not reach its file exactly once",
            "order": "a thread's entries reached a file out of the order it wrote them",
            "pages": "pages were not all returned to the allocator exactly once after close()"}
    seen = set()
    for l in lines:
        cid = l.split()[0]
        o = out.get(cid, "")
        rep = {"async_case": l}
        if o.startswith("DSCHED-STUCK"):
            chk.violate("async-stuck", "asynchronous appender never finishes (close()/write() blocked): " + o[:300], rep)
            continue
        if o.startswith("CRASH") or " | " not in o:
            chk.violate("async-crash", "appender driver crashed: " + o[:300], rep)
            continue
        mon = dict(x.split("=") for x in o.split(" | ")[2].split())
        for m, w in WHAT.items():
            if mon.get(m) != "1":
                chk.violate("async-" + m, w + ": " + o[:300], rep)
        seen.add(o.split(" | ")[1])
    chk.notes["async_appender"] = {"executions": len(lines), "distinct_file_streams": len(seen),
                                   "unavailable_file_cases": len([l for l in lines if l.startswith("u")]),
                                   "unavailable_file_cases_that_lost_text": len([l for l in lines if l.startswith("u") and
                                                                                 re.search(r"lost=[1-9]", out.get(l.split()[0], ""))]),
                                   "sample": out.get(lines[0].split()[0], "") if lines else ""}
    chk.cov["evaluations"] += len(lines)


def main(argv):
    chk = Check("C20", argv)
    thorough = chk.tier == "thorough"
    chk.translate(["log_entry"])
    chk.coq("Properties_C20.v")
    model = chk.extract("lg", "Extract_lg.v", "lg_driver.ml")
    lib = chk.repolib_all()
    impl = chk.build_cpp("c20_log_entry", [os.path.join(VERIF, "harness/seq/c20_log_entry.cpp")], objs=[lib]) if lib else None
    K = 14
    if impl:
        rc, out, err = sh([impl], input="", timeout=60)
        import re
        m = re.search(r"INLINE_PAGE_CAPACITY=(\d+)", out)
        if m:
            K = int(m.group(1))
    cases = []
    if chk.replay:
        r = json.load(open(chk.replay))["replay"]
        cases = [(r["p"], r["n"], r.get("chunkseed", 0))]
    else:
        for p in ([24, 32, 40, 64, 128, 256] + ([48, 512, 4096] if thorough else [])):
            for n in cases_for(chk, p, K, thorough):
                for cs in (0, 1, 2 + chk.rng.below(1 << 30)):
                    cases.append((p, n, cs))
    chk.log("%d cases" % len(cases))
    impl_lines, model_lines = {}, {}
    consts = ""
    if impl:
        rc, out, err = sh([impl], input="".join("%d %d %d\n" % c for c in cases), timeout=1800)
        if rc != 0:
            chk.violate("impl-crash", "implementation driver crashed (rc=%d): %s" % (rc, err[-300:]),
                        {"cases": "see stdin order", "stderr": err[-2000:], "last_stdout": out[-500:]})
        lines = out.splitlines()
        if lines and lines[0].startswith("const"):
            consts = lines[0]
            lines = lines[1:]
        for c, l in zip(cases, lines):
            impl_lines[c] = l
    if model:
        uniq = sorted(set((p, n) for p, n, _ in cases))
        rc, out, err = sh([model], input="".join("%d %d\n" % c for c in uniq), timeout=1800)
        if rc != 0:
            chk.broke("correspondence", "model driver", err[-500:])
        for c, l in zip(uniq, out.splitlines()):
            model_lines[c] = l
    async_part(chk, lib, thorough)
    nontrivial = set()
    validated = 0
    for c in cases:
        p, n, cs = c
        rep = {"p": p, "n": n, "chunkseed": cs}
        il = impl_lines.get(c)
        ml = model_lines.get((p, n))
        if il is not None:
            obs, mon = il.split(" | ")
            if "bytes_ok=1" not in obs:
                chk.violate("bytes-mismatch", "scatter list of a %d-byte entry (page size %d) does not describe the bytes "
                            "streamed: %s" % (n, p, obs), rep)
            if "mon_pages_once=1" not in mon:
                chk.violate("pages-not-once", "pages backing a %d-byte entry (page size %d) are not each listed exactly "
                            "once: %s" % (n, p, obs), rep)
            if "mon_returned=1" not in mon:
                chk.violate("pages-not-returned", "discarding a %d-byte entry (page size %d) does not return every page "
                            "exactly once" % (n, p), rep)
            if ml is not None:
                validated += 1
                if obs != ml:
                    chk.broke("correspondence", "LGModel.observe vs LogStreamBuffer p=%d n=%d" % (p, n),
                              "impl : %s\nmodel: %s" % (obs, ml))
                    if len([b for b in chk.broken if b[0] == "correspondence"]) > 5:
                        break
        if ml is not None and ("bytes_ok=1" not in ml or "err=0" not in ml):
            chk.violate("model-bytes-mismatch", "model (with the regenerated formulas) loses bytes for n=%d p=%d: %s"
                        % (n, p, ml), dict(rep, level="model"))
        if n > K * p:
            nontrivial.add((p, n))
    chk.cov["evaluations"] = chk.cov.get("evaluations", 0) + len(cases)
    chk.cov["distinct_nontrivial"] = len(nontrivial)
    chk.cov["traces_validated_against_impl"] = validated
    chk.cov["rule"] = ("cases = (page size, entry length, write chunking); lengths sit at every inline-capacity and "
                       "page-table-capacity boundary +-1 plus seeded random lengths; each is streamed with one sputn, "
                       "byte-wise sputc and a random chunking; non-trivial = distinct (page size, length) that spill "
                       "into chained page tables")
    for c in cases[:: max(1, len(cases) // 5)]:
        chk.sample({"case": c, "impl": impl_lines.get(c), "model": model_lines.get((c[0], c[1]))})
    chk.notes["impl_constants"] = consts
    chk.cov["trusted_base"] = chk.cov.get("trusted_base", []) + [
        "translator/gen.py (C expression subset -> Z; size_t arithmetic taken as unbounded Z)",
        "extraction: ExtrOcamlBasic only, no Extract Constant/Inductive beyond it; ocaml/lg_driver.ml",
        "harness/seq/c20_log_entry.cpp (recording PageAllocator)",
        "modelled not verified: std::streambuf put area, the allocator (fresh pages), writev",
    ]
    chk.assumptions = ["page size >= 24 and a multiple of 8 (a page table must hold >= 2 slots)",
                       "entries non-empty for the appender (size 0 is the stop sentinel)"]
    chk.finish("proof")
