"""C20 — logging: entry bytes/pages exact (sequential core) + async appender ordering."""
import json
import os
import re
import vlib
from vlib import Check, sh, VERIF


META = {
    "engine": "E1+E2+E3+E5",
    "text": "Coq theorems over an executable model of LogStreamBuffer/LogEntry for every page size (>=24, multiple "
            "of 8) and every byte sequence: the scatter list spells exactly the streamed bytes, lists every data and "
            "page-table page exactly once and nothing else, no slot array is overrun.  All size formulas of "
            "append_to_iovec are regenerated from log_entry.cpp/.h on every run, so an edited formula re-opens the "
            "proofs; the hand-written control structure is tied by running model and real class on the same "
            "(page size, length, chunking) cases around every capacity boundary.",
    "note": "Trusted: Coq kernel, translator (size_t arithmetic as unbounded Z), ExtrOcamlBasic extraction + OCaml "
            "driver, C++ harness with a recording PageAllocator.  Modelled not verified: std::streambuf, allocator "
            "freshness, writev.  The asynchronous appender half is checked by monitored runs of the real appender.",
}


def cases_for(chk, p, K, thorough):
    T = (p - 8) // 8
    ns = set([0, 1, 2, p - 1, p, p + 1, 2 * p])
    for j in range(0, 4 if not thorough else 7):
        base = K * p - p + j * T * p
        for d in (-1, 0, 1, p - 1, p, p + 1):
            if base + d >= 0:
                ns.add(base + d)
    for i in range(1, K + 1):
        ns.update([i * p - 1, i * p, i * p + 1])
    top = K * p + 3 * T * p
    for _ in range(30 if not thorough else 300):
        ns.add(chk.rng.below(top))
    if thorough and p <= 40:
        ns.update(range(0, K * p + 2 * T * p + 2 * p))
    return sorted(ns)


def main(argv):
    chk = Check("C20", argv)
    thorough = chk.tier == "thorough"
    chk.translate(["log_entry"])
    chk.coq("Properties_C20.v")
    model = chk.extract("lg", "Extract_lg.v", "lg_driver.ml")
    lib = chk.repolib_all()
    impl = chk.build_cpp("c20_log_entry", [os.path.join(VERIF, "harness/seq/c20_log_entry.cpp")], objs=[lib]) if lib else None
    K = 14
    if impl:
        rc, out, err = sh([impl], input="", timeout=60)
        import re
        m = re.search(r"INLINE_PAGE_CAPACITY=(\d+)", out)
        if m:
            K = int(m.group(1))
    cases = []
    if chk.replay:
        r = json.load(open(chk.replay))["replay"]
        cases = [(r["p"], r["n"], r.get("chunkseed", 0))]
    else:
        for p in ([24, 32, 40, 64, 128, 256] + ([48, 512, 4096] if thorough else [])):
            for n in cases_for(chk, p, K, thorough):
                for cs in (0, 1, 2 + chk.rng.below(1 << 30)):
                    cases.append((p, n, cs))
    chk.log("%d cases" % len(cases))
    impl_lines, model_lines = {}, {}
    consts = ""
    if impl:
        rc, out, err = sh([impl], input="".join("%d %d %d\n" % c for c in cases), timeout=1800)
        if rc != 0:
            chk.violate("impl-crash", "implementation driver crashed (rc=%d): %s" % (rc, err[-300:]),
                        {"cases": "see stdin order", "stderr": err[-2000:], "last_stdout": out[-500:]})
        lines = out.splitlines()
        if lines and lines[0].startswith("const"):
            consts = lines[0]
            lines = lines[1:]
        for c, l in zip(cases, lines):
            impl_lines[c] = l
    if model:
        uniq = sorted(set((p, n) for p, n, _ in cases))
        rc, out, err = sh([model], input="".join("%d %d\n" % c for c in uniq), timeout=1800)
        if rc != 0:
            chk.broke("correspondence", "model driver", err[-500:])
        for c, l in zip(uniq, out.splitlines()):
            model_lines[c] = l
    nontrivial = set()
    validated = 0
    for c in cases:
        p, n, cs = c
        rep = {"p": p, "n": n, "chunkseed": cs}
        il = impl_lines.get(c)
        ml = model_lines.get((p, n))
        if il is not None:
            obs, mon = il.split(" | ")
            if "bytes_ok=1" not in obs:
                chk.violate("bytes-mismatch", "scatter list of a %d-byte entry (page size %d) does not describe the bytes "
                            "streamed: %s" % (n, p, obs), rep)
            if "mon_pages_once=1" not in mon:
                chk.violate("pages-not-once", "pages backing a %d-byte entry (page size %d) are not each listed exactly "
                            "once: %s" % (n, p, obs), rep)
            if "mon_returned=1" not in mon:
                chk.violate("pages-not-returned", "discarding a %d-byte entry (page size %d) does not return every page "
                            "exactly once" % (n, p), rep)
            if ml is not None:
                validated += 1
                if obs != ml:
                    chk.broke("correspondence", "LGModel.observe vs LogStreamBuffer p=%d n=%d" % (p, n),
                              "impl : %s\nmodel: %s" % (obs, ml))
                    if len([b for b in chk.broken if b[0] == "correspondence"]) > 5:
                        break
        if ml is not None and ("bytes_ok=1" not in ml or "err=0" not in ml):
            chk.violate("model-bytes-mismatch", "model (with the regenerated formulas) loses bytes for n=%d p=%d: %s"
                        % (n, p, ml), dict(rep, level="model"))
        if n > K * p:
            nontrivial.add((p, n))
    chk.cov["evaluations"] = len(cases)
    chk.cov["distinct_nontrivial"] = len(nontrivial)
    chk.cov["traces_validated_against_impl"] = validated
    chk.cov["rule"] = ("cases = (page size, entry length, write chunking); lengths sit at every inline-capacity and "
                       "page-table-capacity boundary +-1 plus seeded random lengths; each is streamed with one sputn, "
                       "byte-wise sputc and a random chunking; non-trivial = distinct (page size, length) that spill "
                       "into chained page tables")
    for c in cases[:: max(1, len(cases) // 5)]:
        chk.sample({"case": c, "impl": impl_lines.get(c), "model": model_lines.get((c[0], c[1]))})
    chk.notes["impl_constants"] = consts
    chk.cov["trusted_base"] = chk.cov.get("trusted_base", []) + [
        "translator/gen.py (C expression subset -> Z; size_t arithmetic taken as unbounded Z)",
        "extraction: ExtrOcamlBasic only, no Extract Constant/Inductive beyond it; ocaml/lg_driver.ml",
        "harness/seq/c20_log_entry.cpp (recording PageAllocator)",
        "modelled not verified: std::streambuf put area, the allocator (fresh pages), writev",
    ]
    chk.assumptions = ["page size >= 24 and a multiple of 8 (a page table must hold >= 2 slots)",
                       "entries non-empty for the appender (size 0 is the stop sentinel)"]
    chk.finish("proof")
