"""C01 — Bounded queue: each element delivered exactly once, FIFO, with exclusive access.
(also hosts the shared machinery of C02: checks/c02.py calls run("C02", ...))"""
import json
import os
import vlib
from vlib import Check, VERIF

META = {
    "engine": "E1+E2+E3+E4",
    "text": "Coq theorems over an interleaving model of ConcurrentBoundedQueue at atomic-operation granularity (ticket "
            "fetch_add / load+store / CAS, slot-word load / CAS / exchange / 16-bit store, fences, futex wait/wake, "
            "usleep; the callback is a step of its own), for every client program mixing push, pop, try_push, try_pop, "
            "push_n, pop_n, try_push_n, try_pop_n and the timed exclusive pop with any CONCURRENT / USE_FUTEX_WAIT / "
            "USE_FUTEX_WAKE flags that satisfy the documented pairing rules (usage_ok), every capacity 2^k, every "
            "number of threads and every schedule: no callback ever enters a slot that is owned or whose payload is in "
            "the wrong state (exclusive access), every delivered (pop ticket, value) is the (push ticket, value) "
            "written by the producer with the same ticket, tickets are delivered at most once, tickets respect real "
            "time (an op that starts after another finished gets a larger ticket => FIFO), a failing try_ op saw a "
            "full/empty queue or an overlapping op.  Every integer formula and comparison of the model (version for "
            "index, ring split, waiter bit, wake tests, CAS targets) is regenerated from bounded_queue.hpp on every run.  "
            "Tie: the real class runs under a deterministic scheduler that pre-empts at every atomic operation / futex "
            "call / inside callbacks (no repo edits); every outcome it produces on small programs must be one the "
            "extracted model admits (exhaustive exploration per program); monitors check the property text itself "
            "(multiset conservation, no duplicate/invented value, real-time FIFO on stamped calls, exclusive payload "
            "cells, justified try_ failures) on every run, including the compensating push_n/pop_n variants.  Client "
            "programs may use every public overload: the forwarded template-argument lists of all wrappers are "
            "regenerated, the model runs `lower` of each call (c01_entry_points_forward_flags: lower = the call as "
            "written; c01_exclusive_any_entry, c01_exactly_once_any_entry), the harness calls value / pointer / "
            "iterator overloads and the ones without template arguments; 'parked' programs keep a consumer / producer "
            "inside its callback while an exclusive try_push_n / try_pop_n wraps the ring (conservation at quiescence).  "
            "swap / move construction / move assignment: the member pairing of swap is regenerated and "
            "c01_swap_exchanges_queues proves the destination becomes exactly the source; every fourth schedule of a big "
            "program first fills the queue (0 / 1 / capacity-1 / capacity elements) and swaps, move-constructs or "
            "move-assigns it (both call directions), then runs the program on the destination and drains the other queue.",
    "note": "All four schedule-quantified statements are theorems (c01_exclusive, c01_exactly_once incl. conservation at "
            "quiescence, c01_fifo_realtime, c01_try_fail_justified), proved for every usage_ok program / capacity 2^k / thread "
            "count / schedule from the ticket-interval invariant (coq/BQ/BQInv*.v), every theorem 'Closed under the global "
            "context'.  Not covered by the Coq model: the compensating push_n/pop_n(cb, reverse_cb, n) variants (monitors "
            "only).  Proofs are over sequentially consistent interleavings - the release/acquire publication argument is "
            "reduced to memory-order obligations on the regenerated site tables (c01_memory_order_obligations), not executed "
            "on a weak-memory machine; the model keeps versions unbounded and compares them as the code does, 16-bit "
            "truncation is handled by c01_version16_sound under the assumption of < 2^15 rounds of ticket lag.  "
            "Trusted: Coq kernel; translator; extraction (ExtrOcamlBasic) + OCaml explorer; macro shim + dsched "
            "(serialises threads); kernel futex semantics are modelled (compare-and-block atomically, wake_all wakes "
            "every sleeper on the word).",
}

PUSH = "PpNnXHh"
POP = "OoMmUYDg"


# ----------------------------------------------------------------------------------------- program generators
# public overloads per op kind (letter after the flags; none = callback overload with template arguments):
# v value / reference, q pointer, i iterators, d / e / r / j = callback / value / pointer / iterators without template arguments
ENTRIES = {"P": "vde", "O": "vqder", "p": "v", "o": "vde", "N": "idj", "M": "idj"}


def pick_entry(rng, kind, c, w, k):
    opts = ["", ""]
    for e in ENTRIES.get(kind, ""):
        if e in "derj" and not ((c == 1 and k == 1) if kind in "po" else (c, w, k) == (1, 1, 1)):
            continue    # the overloads without template arguments mean <true, true, true> (try_: <true, true>)
        opts.append(e)
    return rng.choice(opts)


def tok(kind, c, w, k, arg=None, tmo=None, entry=""):
    s = "%s%d%d%d%s" % (kind, c, w, k, entry)
    if arg is not None:
        s += ":" + (";".join(str(x) for x in arg) if isinstance(arg, list) else str(arg))
    if tmo is not None:
        s += ":%d" % tmo
    return s


class Vals:
    def __init__(self):
        self.n = 0

    def take(self, k):
        r = list(range(self.n + 1, self.n + 1 + k))
        self.n += k
        return r


def assign_flags(rng, threads, force=None):
    """threads: list of list of (kind, arg, tmo).  Chooses flags satisfying the documented pairing rules."""
    nside = {True: 0, False: 0}
    for th in threads:
        for role in (True, False):
            if any((o[0] in PUSH) == role for o in th):
                nside[role] += 1
    has_until = any(o[0] == "U" for th in threads for o in th)
    all_wake = {True: rng.chance(3, 4), False: rng.chance(3, 4)}
    if has_until:
        all_wake[True] = True
    if force == "futex":
        all_wake = {True: True, False: True}
    side_conc = {r: (1 if nside[r] > 1 else None) for r in (True, False)}
    if has_until and nside[False] > 1:
        raise ValueError("timed pop needs a single consumer thread")
    mix = rng.chance(2, 5)      # call the queue through all public overloads, not only the callback ones
    out = []
    for th in threads:
        ops = []
        for kind, arg, tmo in th:
            if kind in "XYA":
                ops.append(tok(kind, 0, 0, 0, arg))
                continue
            role = kind in PUSH
            c = side_conc[role] if side_conc[role] is not None else rng.below(2)
            k = 1 if all_wake[role] else rng.below(2)
            w = (1 if force == "futex" else rng.below(2)) if all_wake[not role] else 0
            if force == "spin":
                w = 0
            ops.append(tok(kind, c, w, k, arg, tmo, pick_entry(rng, kind, c, w, k) if mix else ""))
        out.append(ops)
    return out


def gen_small(rng):
    """<= 5 ops over <= 3 threads, capacity 1 or 2, any op kind of the model; may block for good (the model says)."""
    k = rng.choice([0, 0, 1, 1, 1])
    cap = 1 << k
    nt = 2 + rng.below(2)
    v = Vals()
    total = 2 + rng.below(4)
    threads = [[] for _ in range(nt)]
    timed_thread = rng.below(nt) if rng.chance(1, 5) else None
    for _ in range(total):
        t = rng.below(nt)
        kinds = list("PPOOpoNMnm")
        if timed_thread is not None:
            kinds = list("PPpNn") if t != timed_thread else list("UUom")
        kind = rng.choice(kinds)
        if kind in "Pp":
            threads[t].append((kind, v.take(1), None))
        elif kind in "Nn":
            threads[t].append((kind, v.take(1 + rng.below(cap)), None))
        elif kind in "Mm":
            threads[t].append((kind, 1 + rng.below(cap), None))
        elif kind == "U":
            threads[t].append((kind, 1 + rng.below(cap), rng.below(3)))
        else:
            threads[t].append((kind, None, None))
    threads = [th for th in threads if th]
    if len(threads) < 2:
        threads.append([("O", None, None)])
    return k, assign_flags(rng, threads), False


def gen_big(rng, focus):
    """bigger programs, monitors only; constructed so that no legitimate execution blocks for good."""
    mode = rng.choice(["block", "block", "block", "trymix", "timed", "comp", "parked", "parked"] if focus == "C01"
                      else ["block", "block", "block", "block", "timed", "timed", "trymix", "parked"])
    k = rng.choice([0, 1, 1, 2, 2, 3]) if focus == "C01" else rng.choice([0, 0, 1, 1, 2])
    cap = 1 << k
    v = Vals()
    force = None
    if mode == "block":
        npd, ncs = 1 + rng.below(3), 1 + rng.below(3)
        prods = []
        total = 0
        for _ in range(npd):
            th = []
            for _ in range(1 + rng.below(4)):
                if rng.chance(1, 2):
                    th.append(("P", v.take(1), None)); total += 1
                else:
                    n = 1 + rng.below(cap)
                    th.append(("N", v.take(n), None)); total += n
            prods.append(th)
        cons = [[] for _ in range(ncs)]
        left = total
        while left > 0:
            t = rng.below(ncs)
            if rng.chance(1, 2) or left == 1:
                cons[t].append(("O", None, None)); left -= 1
            else:
                n = 1 + rng.below(min(cap, left))
                cons[t].append(("M", n, None)); left -= n
        threads = prods + [c for c in cons if c]
        force = rng.choice([None, "futex", "futex", "spin"]) if focus == "C02" else rng.choice([None, None, "futex", "spin"])
    elif mode == "trymix":
        npd, ncs = 1 + rng.below(2), 1 + rng.below(2)
        threads = []
        for _ in range(npd):
            th = []
            for _ in range(1 + rng.below(4)):
                kind = rng.choice("ppnnPN")
                n = 1 if kind in "Pp" else 1 + rng.below(cap)
                th.append((kind, v.take(n), None))
            threads.append(th)
        for _ in range(ncs):
            th = []
            for _ in range(rng.below(4)):
                kind = rng.choice("oomm")
                th.append((kind, None if kind == "o" else 1 + rng.below(cap), None))
            th.append(("D", None, None))
            threads.append(th)
    elif mode == "timed":
        npd = 1 + rng.below(2)
        threads = []
        for _ in range(npd):
            th = []
            for _ in range(1 + rng.below(4)):
                kind = rng.choice("PPNpA")
                if kind == "A":
                    th.append(("A", 1 + rng.below(12), None))
                else:
                    n = 1 if kind in "Pp" else 1 + rng.below(cap)
                    th.append((kind, v.take(n), None))
            threads.append(th)
        # a slow producer (H: its callback holds a claimed index unpublished until a timed pop has returned) next to
        # a fast one that publishes the later indices: the timed pop must come back by its deadline with the ready
        # prefix, it may not wait for the hole
        hole = cap >= 2 and rng.chance(1, 2)
        if hole:
            fast = []
            for _ in range(1 + rng.below(3)):
                n = 1 + rng.below(cap)
                fast.append(("P", v.take(1), None) if n == 1 else ("N", v.take(n), None))
            slow = [("P", v.take(1), None) for _ in range(rng.below(2))] + [("H", v.take(1), None)]
            threads = [slow, fast]
        th = []
        for _ in range(1 + rng.below(4)):
            n = rng.choice([1, cap, 1 + rng.below(cap)])
            if hole and rng.chance(2, 3):
                n = 1 + rng.below(cap - 1)
            th.append(("U", n, rng.below(4) if hole else rng.below(3)))
        th.append(("D", None, None))
        threads.append(th)
    elif mode == "parked":
        # non-concurrent batch try_ calls that wrap the ring while a counterpart stays inside its callback on a slot
        # (g / h: retried try_pop / try_push whose callback does not return before the other side's threads are done),
        # so that slots are released out of ticket order; nothing blocks, conservation is judged at quiescence
        k = rng.choice([1, 1, 2, 2, 3])
        cap = 1 << k
        wk = rng.below(2)
        if rng.chance(2, 3):    # exclusive producer, try_push_n<false> across the round end; parked consumers + a drainer
            th = [tok("n", 0, 0, wk, v.take(cap))]
            for _ in range(2 + rng.below(4)):
                if rng.chance(1, 3):
                    th.append(tok("p", 0, 0, wk, v.take(1)))
                else:
                    th.append(tok("n", 0, 0, wk, v.take(2 + rng.below(cap - 1))))
            out = [th] + [[tok("g", 1, 0, wk)] for _ in range(1 + rng.below(2))] + [[tok("D", 1, 0, wk)]]
        else:                   # exclusive consumer, try_pop_n<false> across the round end; parked + fast producers
            fast = []
            for _ in range(2 + rng.below(3)):
                n = 1 + rng.below(cap)
                fast.append(tok("p", 1, 0, wk, v.take(1)) if n == 1 else tok("n", 1, 0, wk, v.take(n)))
            cons = []
            for _ in range(3 + rng.below(4)):
                cons.append(tok("o", 0, 0, wk) if rng.chance(1, 3) else tok("m", 0, 0, wk, 2 + rng.below(cap - 1)))
            out = [[tok("h", 1, 0, wk, v.take(1))] for _ in range(1 + rng.below(2))] + [fast, cons]
        return k, out, True
    else:  # comp
        nt = 2 + rng.below(2)
        threads = []
        for _ in range(nt):
            th = []
            for _ in range(1 + rng.below(3)):
                kind = rng.choice("XXYYpomn")
                if kind in "Xn":
                    th.append((kind, v.take(1 + rng.below(cap)), None))
                elif kind in "Ym":
                    th.append((kind, 1 + rng.below(cap), None))
                elif kind == "p":
                    th.append((kind, v.take(1), None))
                else:
                    th.append((kind, None, None))
            threads.append(th)
        threads.append([("D", None, None)])
        # compensating variants fetch_add both tickets and never wake: everything else must be CONCURRENT, spin/try only
        out = []
        for th in threads:
            out.append([tok(kd, 0, 0, 0, a) if kd in "XY" else tok(kd, 1, 0, 1, a) for kd, a, _ in th])
        return k, out, True
    return k, assign_flags(rng, threads, force), True


AIMED_SMALL = [
    (0, "P111:1,P111:2|O111,O111"),            # capacity 1, futex on both sides: every op parks
    (0, "P110:1,P110:2|O001,O001"),            # futex-waiting producer, spin consumer that wakes
    (0, "P001:1,P001:2|O110,O110"),
    (0, "P100:1,P100:2|O100,O100"),            # spin only
    (0, "P011:1,P011:2|O011,O011"),            # !CONCURRENT tickets
    (1, "N111:1;2|O111,O111"),                 # batch waker, single futex waiters
    (1, "P111:1,P111:2|M111:2"),               # single wakers, batch futex waiter
    (1, "P111:1,N111:2;3|O111,M111:2"),        # ring split: index 1 + 2 crosses the end
    (1, "N011:1;2,N011:3;4|M011:2,M011:2"),    # batch/batch, full ring each time
    (0, "p101:1|p101:2|o101,o101"),            # try_ with CAS contention
    (1, "P001:1,n001:2;3|O001,m001:2"),        # try_n split
    (1, "n101:1;2|n101:3;4|m001:2,m001:2"),    # try_n CAS failure
    (0, "P011:1,P011:2|U001:1:1,U001:1:1"),    # timed pop with n = capacity (waits on the slot it pops)
    (1, "N011:1;2,P011:3|U001:2:1,U001:2:1"),
    (1, "P011:1|U001:1:2,o001"),
    (0, "P111:1|P111:2|O111|O111"),
    # public overloads (value / pointer / iterator, with and without template arguments), asymmetric wait / wake flags:
    # "producer spins but wakes sleeping consumers" and the converse
    (1, "N101i:1;2|O110v,O110q"),
    (1, "N101i:1;2,N101i:3;4|M110i:2,M110i:2"),
    (1, "P101v:1,P101v:2|M110i:2"),
    (0, "P110v:1,P110v:2|O001v,O001q"),
    (1, "N110i:1;2|M001i:1,O001v"),
    (1, "P111e:1,P111d:2,N111j:3;4|O111e,O111r,O111d,M111j:1"),
    (1, "N111d:1;2|M111d:2"),
    (0, "p101v:1,p101v:2|o111e,o111d,o101v"),
]


# monitors only (virtual time passes inside the program): a wake-up that does not bring the awaited version makes the
# timed pop refresh its timeout
AIMED_BIG = [
    (0, "A000:5,P011:1|U001:1:2,D001"),
    (1, "A000:8,N011:1;2|U001:2:3,D001"),
    (0, "P011:1,A000:3,P011:2|U001:1:1,U001:1:2,D001"),
    # slow producer holding an unpublished index (H) while a fast one publishes the slot the timed pop waits on
    (1, "H111:1|P111:2|U001:1:2,D001"),
    (2, "H111:1|P111:2,P111:3|U001:2:3,D001"),
    (2, "H111:1|N111:2;3;4|U001:3:3,D001"),
    (2, "P111:1,H111:2|P111:3,P111:4,P111:5|U001:2:2,U001:3:3,D001"),
    (1, "H101:1|P101:2|U000:1:3,U000:1:0,D000"),
    (3, "H111:1|N111:2;3,N111:4;5;6|U001:4:3,U001:2:1,D001"),
    # the asymmetric overload programs once more as "must not get stuck" (balanced, pairing rules satisfied as written)
    (1, "N101i:1;2|O110v,O110q"),
    (1, "N101i:1;2,N101i:3;4|M110i:2,M110i:2"),
    (2, "N101i:1;2;3|M110i:2,O110q"),
    (0, "P110v:1,P110v:2|O001v,O001q"),
    (1, "N110i:1;2,N110i:3;4|M001i:1,O001v,M001i:2"),
    # exclusive producer whose try_push_n wraps the ring while a consumer stays inside its callback (g) and a drainer
    # keeps freeing the slots behind it; and the mirror image (h) for try_pop_n
    (1, "n001:1;2,p001:3,n001:4;5,n001:6;7|g101|D101"),
    (1, "n000:1;2,p000:3,n000:4;5,p000:6,n000:7;8|g100|D100"),
    (2, "n001:1;2;3;4,p001:5,n001:6;7,p001:8,n001:9;10;11|g101|D101"),
    (2, "n001:1;2;3;4,n001:5;6;7,n001:8;9,n001:10;11;12|g101|g101|D101"),
    (1, "h101:9|n101:1;2,p101:3,n101:4;5|m001:2,o001,m001:2,m001:2"),
    (2, "h101:9|n101:1;2;3,n101:4;5,p101:6|m001:3,m001:2,o001,m001:3,m001:2"),
]


def model_prog(threads):
    return "|".join(",".join(t) for t in threads)


MON = ["excl", "state", "publish", "conserve", "nodup", "counts", "fifo", "tryjust", "timed", "avail", "prefix"]
WHAT = {"excl": "two callbacks held the same payload cell at the same time",
        "state": "a producer callback got a cell whose value was never consumed / a consumer callback got an empty cell",
        "publish": "a consumer read a value different from the one the producer wrote into the cell",
        "conserve": "a pushed value was never delivered (lost) or a delivered value was never pushed (invented)",
        "nodup": "a value was delivered twice",
        "counts": "an op reported a count different from the elements its callbacks handled",
        "fifo": "a value pushed by a call that returned before another push began was popped after the later value "
                "by ordered pops",
        "tryjust": "a try_ op failed / came up short although no op overlapped it and the queue was not full/empty",
        "timed": "try_pop_n_exclusively_until returned later than its deadline plus scheduling delay",
        "avail": "try_pop_n_exclusively_until returned fewer elements than were available when it was called",
        "prefix": "try_pop_n_exclusively_until returned fewer elements than the leading indices whose push had already "
                  "returned when it was called"}
C02_MON = {"timed", "avail", "prefix"}


def run(prop, argv, meta_focus):
    chk = Check(prop, argv)
    thorough = chk.tier == "thorough"
    chk.translate(["bounded_queue", "bounded_queue_orders"])
    chk.log("translated")
    chk.coq("Properties_%s.v" % prop)
    chk.log("coq done")
    if prop == "C01":
        # release/acquire half ("the consumer sees every write the producer made"): every publish path x every
        # observe path of the queue on the view machine of coq/WM/RA.v, orders regenerated from the source; when an
        # order or a fence was weakened the search prints the execution in which the payload is read too early
        chk.wm_litmus("publication", "Require Import Verif.BQ.BQLitmusDefs.", "all_pairs_safe", "bad_pair_prog", "mp_bad",
                      "a slot's version publish / observe pair no longer synchronises (release store or exchange, release "
                      "fence + relaxed stores vs. acquire load, relaxed loads + acquire fence): the consumer callback can "
                      "read the element before the producer's writes are visible", machine="RA")
    if prop == "C02":
        # store-buffer half: the waker/waiter skeleton with the fences regenerated from the source, on the TSO machine of coq/WM
        defs = ("Require Import Verif.Gen.Gen_bounded_queue.\n"
                "Definition df : bool := match sites_deal_n with [_; _; (KFence, o, _)] => is_seq_cst o | _ => false end.\n"
                "Definition tf : bool := match sites_try_deal_n with [_; _; _; _; (KFence, o, _)] => is_seq_cst o | _ => false end.\n"
                "Definition xr : bool := match sites_xchg with [(KXchg, _, _)] => true | _ => false end.")
        chk.wm_litmus("deal_n-fence", defs, "batch_wake_safe df", "[waker df; waiter]", "lost_wakeup",
                      "deal_n_continuously's fence between the version stores and wakeup_waiters is not seq_cst: a waiter "
                      "can park while the batch waker misses its waiter bit (lost wakeup)")
        chk.wm_litmus("try_deal_n-fence", defs, "batch_wake_safe tf", "[waker tf; waiter]", "lost_wakeup",
                      "try_deal_n_continuously's fence between the version stores and wakeup_waiters is not seq_cst: a "
                      "waiter can park while the batch waker misses its waiter bit (lost wakeup)")
        chk.wm_litmus("xchg-waker", defs, "xr && xchg_wake_safe", "[xchg_waker; waiter]", "xchg_lost",
                      "set_version_and_wakeup_waiters no longer publishes with one exchange of the whole word: a waiter can "
                      "park unseen by the single-element waker")
    model = chk.extract("bq", "Extract_bq.v", "bq_driver.ml", explorer=True)
    chk.log("model extracted")
    impl = chk.build_cpp("c01_bounded_queue", [os.path.join(VERIF, "harness/conc/c01_bounded_queue.cpp"),
                                               os.path.join(VERIF, "harness/shim/dsched.cpp")], flags=["-fno-access-control"], ldflags=["-ldl"])
    chk.log("drivers built")
    rng = chk.rng
    progs = []   # (pid, k, threads, small, nostuck)
    if chk.replay:
        r = json.load(open(chk.replay))["replay"]
        progs = [("r0", r["k"], r["threads"], r.get("small", False), r.get("nostuck", False))]
        scheds = [(r.get("seed", 1), r.get("strategy", 0))]
        replay_flags = r.get("flags", 0)
    else:
        seen = set()
        for k, p in AIMED_SMALL:
            progs.append(("p%d" % len(progs), k, [t.split(",") for t in p.split("|")], True, False))
            seen.add((k, p))
        for k, p in AIMED_BIG:
            progs.append(("p%d" % len(progs), k, [t.split(",") for t in p.split("|")], False, True))
            seen.add((k, p))
        n_small, n_big = (40, 70) if not thorough else (200, 500)
        for small, n in ((True, n_small), (False, n_big)):
            have = tries = 0
            while have < n and tries < 30 * n:
                tries += 1
                try:
                    k, th, nostuck = gen_small(rng) if small else gen_big(rng, meta_focus)
                except ValueError:
                    continue
                key = (k, model_prog(th))
                if key in seen or not all(th):
                    continue
                seen.add(key)
                progs.append(("p%d" % len(progs), k, th, small, nostuck))
                have += 1
        nsched = 24 if not thorough else 120
        scheds = [(rng.below(1 << 31), [0, 3, 1, 0][i % 4]) for i in range(nsched)]
    lines = []
    meta = {}
    for pid, k, th, small, nostuck in progs:
        yields = any(o[0] in "DXYHgh" for t in th for o in t)
        for si, (seed, strat) in enumerate(scheds):
            if strat == 1 and yields:
                strat = 3        # PCT is unfair to sched_yield loops (drain / compensating variants)
            cid = "%s.%d" % (pid, si)
            # every third schedule also lets futex_wait return without a wake (EINTR / spurious 0): the waiter
            # must re-check the version and wait again - the model admits no new outcome for it
            spur = 1 if (si % 3 == 2 and strat != 1) else 0
            # every fourth schedule starts the queue just before / at / after the 16-bit wrap of the slot versions
            # (as if 32767, 32768 or 65535 turns of the ring had passed): outcomes must not depend on the turn
            if si % 4 == 1:
                spur |= ([1, 2, 3][(si // 4) % 3]) << 1
            # every fourth schedule of a big program hands the queue over before the threads start: it is filled with
            # 1 / capacity / capacity-1 / 0 elements and then swapped, move-constructed or move-assigned (both call
            # directions); the program runs on the destination, whose content must be what the source held
            if si % 4 == 3 and nostuck and not any(o[0] in "XY" for t in th for o in t):
                j = si // 4
                cap = 1 << k
                spur |= (1 + j % 5) << 3      # 5 = used, then reserve_and_clear(same capacity), then the program
                spur |= [1, cap, max(cap - 1, 0), 0, cap, 1][j % 6] << 6
            if chk.replay:
                spur = replay_flags
            lines.append("%s %d %d %d %d %s" % (cid, seed, strat, k, spur, model_prog(th)))
            meta[cid] = (pid, k, th, small, nostuck, seed, strat, spur)
    chk.log("%d programs x %d schedules" % (len(progs), len(scheds)))
    impl_out = chk.run_cases(impl, lines, timeout=900) if impl else {}
    chk.log("implementation runs done")
    model_sets = {}
    states = trans = 0
    if model:
        mlines = []
        for pid, k, th, small, nostuck in progs:
            if small:
                tsum = sum(int(o.split(":")[2]) for t in th for o in t if o[0] == "U")
                mlines.append("%s %d %d %d %s" % (pid, k, (tsum + 1) if tsum or any(o[0] == "U" for t in th for o in t) else 0,
                                                  400000 if not thorough else 2000000, model_prog(th)))
        mo = chk.run_cases(model, mlines, timeout=1800)
        chk.log("model exploration done")
        for pid, l in mo.items():
            if "outcomes=" not in l:
                chk.broke("harness", "model driver", l[:300])
                continue
            f = dict(x.split("=", 1) for x in l.split()[1:9])
            if f.get("usage") == "true" and f.get("wrappers") != "true":
                chk.violate("wrapper-flags", "a public overload does not hand on the template arguments it was given (or a core "
                            "passes the wrong role / the three batch calls differ): the program satisfies the documented "
                            "pairing rules as written, but not with the flags the overloads really forward: k=%s %s"
                            % (l.split()[0], model_prog(dict((p[0], p[2]) for p in progs).get(pid, []))),
                            {"level": "model", "program": model_prog(dict((p[0], p[2]) for p in progs).get(pid, []))})
            states += int(f.get("states", 0))
            trans += int(f.get("trans", 0))
            outs = set(l.split("outcomes=", 1)[1].split(";"))
            trunc = f.get("trunc") == "true"
            model_sets[pid] = (outs, trunc)
            if f.get("usage") != "true":
                chk.broke("harness", "generator produced a program violating usage_ok", l[:200])
            if int(f.get("errs", "0")) > 0 or int(f.get("lost", "0")) > 0:
                chk.violate("model-unsafe", "the model itself reaches a state violating exclusivity/conservation: %s" % l[:300],
                            {"level": "model", "program": l.split()[0]})
    validated = 0
    distinct = set()
    for cid, l in impl_out.items():
        pid, k, th, small, nostuck, seed, strat, spur = meta[cid]
        rep = {"k": k, "threads": th, "seed": seed, "strategy": strat, "flags": spur, "small": small, "nostuck": nostuck,
               "impl_line": l}
        if l.startswith("DSCHED-STUCK"):
            kind = "deadlock" if "deadlock" in l.split()[1] else "livelock"
            admitted = small and pid in model_sets and (model_sets[pid][1] or any(o.endswith("#STUCK") for o in model_sets[pid][0]))
            if nostuck or (small and pid in model_sets and not admitted):
                chk.violate("stuck-" + kind, "a blocked push/pop is never woken / threads never finish (%s) in a program "
                            "whose pushes and pops balance: %s" % (kind, l[:400]), rep)
            continue
        if l.startswith("CRASH"):
            chk.violate("crash", "implementation crashed under schedule: " + l[:300], rep)
            continue
        parts = l.split(" | ")
        if len(parts) != 3:
            chk.broke("harness", "unparsable driver line", l)
            continue
        mon = dict(x.split("=") for x in parts[2].split())
        for m in MON:
            if mon.get(m) != "1":
                chk.violate("mon-" + m, WHAT[m] + ": " + model_prog(th) + " -> " + parts[1], rep)
        distinct.add((pid, parts[1]))
        if small and pid in model_sets:
            outs, trunc = model_sets[pid]
            if not trunc:
                validated += 1
                if parts[1] not in outs:
                    chk.broke("correspondence", "BQModel does not admit outcome of k=%d %s" % (k, model_prog(th)),
                              "impl outcome: %s\nmodel outcomes: %s" % (parts[1], sorted(outs)[:20]))
    chk.cov["evaluations"] = len(lines)
    chk.cov["distinct_nontrivial"] = len(distinct)
    chk.cov["traces_validated_against_impl"] = validated
    chk.cov["states"] = states
    chk.cov["transitions"] = trans
    chk.cov["rule"] = ("case = (client program, capacity 2^k, schedule seed, strategy); programs: hand-aimed small ones "
                       "(capacity 1/2, futex/spin/!CONCURRENT pairings, ring split, try_ CAS contention, timed pop with "
                       "n = capacity) + seeded random small ones over all modelled op kinds + bigger balanced "
                       "producer/consumer, try-mix (with drain), timed (also with a slow producer callback holding an unpublished index "
                       "while later ones are published) and compensating programs; flags always satisfy the "
                       "documented pairing rules; two programs in five call the queue through all public overloads (value / "
                       "pointer / iterator, with and without template arguments) instead of the callback ones only; "
                       "'parked' programs: exclusive try_push_n / try_pop_n wrapping the ring while a counterpart stays "
                       "inside its callback so that slots are released out of ticket order; "
                       "strategies: uniform random, round-robin with random pre-emptions, PCT; "
                       "pre-emption at every atomic op / futex call / inside callbacks; distinct non-trivial = distinct "
                       "(program, observed outcome) pairs; small programs are explored exhaustively in the extracted model "
                       "and every implementation outcome (per-op counts and popped values; DSCHED-STUCK vs model #STUCK) "
                       "must be in the model's set")
    for cid in list(impl_out)[:: max(1, len(impl_out) // 5)]:
        chk.sample({"case": lines[[x.split()[0] for x in lines].index(cid)], "impl": impl_out[cid][:300]})
    chk.cov["trusted_base"] = chk.cov.get("trusted_base", []) + [
        "translator/gen.py", "ExtrOcamlBasic extraction + ocaml/explore.ml + ocaml/bq_driver.ml",
        "harness/shim (verif_atomic.h macro shim, dsched.cpp: futex/clock/usleep/sched_yield interposition)",
        "modelled not verified: kernel futex, absl clock (follows the virtual clock through clock_gettime)"]
    chk.assumptions = ["sequentially consistent interleavings at atomic-operation granularity (weak-memory effects are "
                       "covered only by the memory-order obligations on the regenerated site table)",
                       "size_t tickets do not wrap; fewer than 2^15 rounds of ticket lag (16-bit versions)",
                       "client programs satisfy usage_ok (documented CONCURRENT / FUTEX_WAIT / FUTEX_WAKE pairing, batch <= capacity)",
                       "callbacks do not touch the queue"]
    chk.finish("proof")


def main(argv):
    run("C01", argv, "C01")
