"""C16 — ConcurrentExecutionQueue: items consumed once, one consumer at a time, none stranded."""
import json
import os
import threading
import vlib
from vlib import Check, VERIF, REPO

META = {
    "engine": "E1+E2+E3+E4",
    "text": "Coq theorems over an interleaving model of ConcurrentExecutionQueue (both execute overloads - execute(T&&) and "
            "execute(const T&), each taking its ring ticket as the regenerated CONCURRENT template flag of its "
            "_queue.push<...> call says: one atomic fetch_add, or load + store as two steps - / signal_push_event / "
            "start_consumer / consume_until_empty incl. the _queue.size() test / join at atomic-operation granularity, "
            "inner bounded queue as a ticketed FIFO whose push is ticket-then-publish and whose try_pop_n pops only the "
            "published prefix, exactly as in bounded_queue.hpp), for every client program, every number of producers, "
            "every capacity >= 1, inline and asynchronous executors, every fault list of the executor and every "
            "schedule: the event counter is non-zero exactly when there is one owner (a launched/running consumer or a "
            "producer inside start_consumer), hence the consume function never runs in two places; every ticket is "
            "delivered at most once, in ticket order, producers' items in submission order; every signalled item that "
            "is not yet delivered has an owner working for it (never stranded); a join() that returns finds every item "
            "whose execute() had returned delivered (and, with a never-refusing executor, every join result in every "
            "history is 0 missing); at the end of every run every item was consumed exactly once, also after refused "
            "launches once a later launch was accepted; no reachable state with an unfinished thread is a deadlock "
            "unless a refused launch is outstanding, and a waiting join() always has an enabled owner.  The comparison "
            "operators, CAS operands, initial values, the size() test and formula, and the memory orders are "
            "regenerated from execution_queue.h / bounded_queue.hpp on every run.  Tie: the real "
            "ConcurrentExecutionQueue<uint64_t> with the real ConcurrentBoundedQueue runs under a deterministic "
            "scheduler pre-empting at every atomic operation, with a harness Executor that refuses launches per fault "
            "list; each observed outcome (return codes, join result, delivery order) must be one the extracted model "
            "admits (exhaustive exploration per small program); monitors check the property text directly on every run.",
    "note": "All sentences of the property are proved at full strength except part of liveness.  'join() does return' is "
            "proved as (a) deadlock-freedom of every reachable state and 'the owner of a non-zero counter is enabled', "
            "(b) for states in which the producers are through (no thread between ticket and fetch_add, only joins "
            "left; launch retries and arbitrary finite fault lists allowed): every step strictly decreases an explicit "
            "measure, so at most mu(s) steps happen under any schedule, and every weakly fair infinite schedule (each "
            "thread is again and again picked or not enabled) reaches all-threads-finished (c16_join_returns_fair).  Not "
            "mechanised: that a fair schedule gets from an arbitrary reachable state to a producers-quiet one (consumer "
            "spinning on an unpublished ticket, capacity-blocked producers); the scheduler runs and the exhaustive "
            "model exploration - no STUCK outcome without a refused launch - cover that empirically.  Resumption after "
            "refused launches is proved at step level for arbitrary refusal histories (c16_refused_then_resumes).  'stale = false' (last reset of the counter was a consumer's exit) is the formal reading "
            "of 'as long as the executor accepts the launch'.  Fixed defect (f78c0c5, was signature ticket-gap): the "
            "consumer used to give up its role when try_pop_n stopped at a taken-but-unpublished ticket; a recurrence is "
            "reported by the covered/join monitors as a violation and re-opens c16_never_stranded (translator target "
            "keep_role_while_tickets_out).  Both execute overloads must push with CONCURRENT=true (c16_tickets_atomic; targets "
            "execute_move_push_concurrent / execute_copy_push_concurrent): with false the model takes the ticket in two "
            "steps, the proofs re-open and the explorer exhibits the duplicate ticket (model-lost-item / model-stuck).  "
            "The structure of the roll-back in start_consumer (CAS retry loop) is read by the "
            "model from the regenerated site table: replacing it (e.g. by a fetch_sub) re-opens g_rb_kind.  Exactly-once relies on C01 (the inner queue delivers each ticket's value to "
            "the pop of that ticket).  Trusted: Coq kernel; translator; extraction + OCaml explorer; macro shim and "
            "dsched (sequentially consistent interleavings; memory orders are checked as obligations on the "
            "regenerated site tables).",
}

FIXED_SMALL = [
    # (capacity, mode, faults, program)
    (4, "A", "-", "E,J|E"), (4, "I", "-", "E,J|E"), (1, "A", "-", "E,J|E"), (2, "I", "-", "E,E,J|E"),
    (4, "A", "-", "E|E|J"), (4, "A", "1", "E,S,J|E"), (4, "I", "1", "E,S,J|E"), (4, "A", "10", "E|E,J"),
    (4, "I", "10", "E|E,J"), (4, "A", "11", "E,S,S,J"), (4, "A", "101", "E,E|S,J"), (1, "A", "-", "E,E,J|E"),
    (1, "I", "-", "E,E|E,J"), (2, "A", "-", "E,E,E|J"), (4, "A", "01", "E,J|E,J"), (4, "I", "1", "E,E,J"),
    (4, "A", "-", "E,J|E,J"), (4, "I", "-", "E,J|E,J"),
    # concurrent producers through the copying overload execute(const T&), alone and mixed with execute(T&&)
    (4, "A", "-", "C,J|C"), (4, "I", "-", "C|C|J"), (2, "A", "-", "C,C|E,J"), (1, "A", "-", "C|E|C"),
    (4, "A", "-", "C,C,J|C,C"), (4, "I", "1", "C,S,J|C"),
]


def gen_program(rng, small):
    nt = 2 + rng.below(2 if small else 4)
    maxops = 2 if small else 5
    threads = []
    for _ in range(nt):
        n = 1 + rng.below(maxops)
        ops = []
        for _ in range(n):
            r = rng.below(10)
            # both public overloads: E = execute(T&&), C = execute(const T&)
            ops.append(("E" if rng.chance(1, 2) else "C") if r < 6 else ("J" if r < 9 else "S"))
        threads.append(ops)
    if not any(o in "EC" for th in threads for o in th):
        threads[0][0] = "C"
    ne = sum(1 for th in threads for o in th if o in "EC")
    mode = rng.choice(["A", "I"])
    if rng.chance(1, 3):
        nf = 1 + rng.below(3)
        faults = "".join(rng.choice("01") for _ in range(nf))
        if "1" not in faults:
            faults = "1" + faults[1:]
    else:
        faults = "-"
    caps = [1, 2, 4, 8]
    cap = rng.choice(caps)
    if faults != "-":
        # a refused launch may leave the queue unconsumed: keep producers from blocking on a full queue forever
        while cap < ne:
            cap *= 2
        # give a recovery signal and a join to one thread so that resumption is exercised
        if rng.chance(1, 2):
            threads[rng.below(nt)].extend(["S", "J"])
    return cap, mode, faults, "|".join(",".join(t) for t in threads)


def main(argv):
    chk = Check("C16", argv)
    thorough = chk.tier == "thorough"
    chk.translate(["execution_queue_sites", "execution_queue"])
    # the C++ driver (3 translation units through the macro shim) is built while Coq runs
    built = {}

    def build():
        built["impl"] = chk.build_cpp("c16_execution_queue",
                                      [os.path.join(VERIF, "harness/conc/c16_execution_queue.cpp"),
                                       os.path.join(REPO, "src/babylon/executor.cpp"),
                                       os.path.join(REPO, "src/babylon/basic_executor.cpp"),
                                       os.path.join(VERIF, "harness/shim/dsched.cpp")],
                                      flags=["-fno-access-control", "-include", "shim/prelude.h"], ldflags=["-ldl"])
    bt = threading.Thread(target=build)
    bt.start()
    chk.coq("Properties_C16.v")
    model = chk.extract("eq", "Extract_eq.v", "eq_driver.ml", explorer=True)
    bt.join()
    impl = built.get("impl")
    rng = chk.rng
    progs = []   # (pid, cap, mode, faults, program, small)
    if chk.replay:
        r = json.load(open(chk.replay))["replay"]
        progs = [("r0", r["cap"], r["mode"], r["faults"], r["program"], r.get("small", False))]
        scheds = [(r["seed"], r["strategy"])]
    else:
        seen = set()
        for f in FIXED_SMALL:
            seen.add(f)
            progs.append(("p%d" % len(progs),) + f + (True,))
        n_small, n_big = (30, 50) if not thorough else (150, 400)
        for small, n in ((True, n_small), (False, n_big)):
            tries = 0
            have = 0
            while have < n and tries < 50 * n:
                tries += 1
                key = gen_program(rng, small)
                nops = key[3].count(",") + key[3].count("|") + 1
                if key in seen or (small and nops > 5):
                    continue
                seen.add(key)
                progs.append(("p%d" % len(progs),) + key + (small,))
                have += 1
        nsched = 30 if not thorough else 150
        scheds = [(rng.below(1 << 31), [0, 3, 1, 1][i % 4]) for i in range(nsched)]
    lines = []
    meta = {}
    for pid, cap, mode, faults, prog, small in progs:
        for si, (seed, strat) in enumerate(scheds):
            cid = "%s.%d" % (pid, si)
            # every third schedule runs with a slow consume function (sleeps longer than join()'s polling period)
            m = mode if (chk.replay or len(mode) > 1 or si % 3 != 2) else mode + "s"
            lines.append("%s %d %d %d %s %s %s" % (cid, seed, strat, cap, m, faults, prog))
            meta[cid] = (pid, cap, m, faults, prog, small, seed, strat)
    chk.log("%d programs x %d schedules" % (len(progs), len(scheds)))
    impl_out = chk.run_cases(impl, lines, timeout=900) if impl else {}
    # model: all admissible outcomes of the small programs
    model_sets = {}
    states = trans = 0
    if model:
        mlines = ["%s %d %s %s %s" % (pid, cap, mode[0], faults, prog) for pid, cap, mode, faults, prog, small in progs if small]
        mo = chk.run_cases(model, mlines, timeout=1800)
        for pid, l in mo.items():
            if "outcomes=" not in l:
                chk.broke("harness", "model driver", l)
                continue
            f = dict(x.split("=", 1) for x in l.split(" outcomes=", 1)[0].split()[1:])
            states += int(f.get("states", 0))
            trans += int(f.get("trans", 0))
            outs = set(l.split("outcomes=", 1)[1].split(";"))
            model_sets[pid] = (outs, f.get("trunc") == "true")
            p = [x for x in progs if x[0] == pid][0]
            rep = {"level": "model", "cap": p[1], "mode": p[2], "faults": p[3], "program": p[4]}
            if int(f.get("maxinside", "0")) > 1:
                chk.violate("model-single", "the model admits two consumers inside the consume function: %s" % l[:200], rep)
            nexec = sum(1 for ch in p[4] if ch in "EC")
            lost = [o for o in outs if not o.endswith("STUCK") and o.endswith("stale=0") and
                    len([x for x in o.split(" del=")[1].split(" ")[0].split(",") if x]) != nexec]
            if lost:
                chk.violate("model-lost-item", "the model admits a finished execution in which an item passed to execute() "
                            "is never delivered (or delivered twice) although no launch was refused at the end: %s [%s]"
                            % (lost[0], p[4]), rep)
            if p[3] == "-" and any(o.endswith("STUCK") for o in outs):
                chk.violate("model-stuck", "the model admits an execution that never finishes without any refused "
                            "launch: %s" % l[:300], rep)
    MON = ["once", "order", "single", "covered", "join", "final", "idle"]
    WHAT = {"once": "an item was delivered to the consume function twice / not exactly once by the end",
            "order": "items of one producer were consumed out of submission order",
            "single": "the consume function was entered while another invocation was still inside",
            "covered": "an item whose execute() returned is pending with no running or launched consumer and no "
                       "launcher and no refused launch outstanding",
            "join": "join() returned while an item whose execute() had returned before join() was called was not consumed",
            "final": "an item was never consumed although the last reset of the event counter was a consumer's exit",
            "idle": "the run ended with a non-zero event counter or a live consumer"}
    validated = 0
    distinct = set()
    for cid, l in impl_out.items():
        pid, cap, mode, faults, prog, small, seed, strat = meta[cid]
        rep = {"cap": cap, "mode": mode, "faults": faults, "program": prog, "seed": seed, "strategy": strat,
               "small": small, "impl_line": l}
        if l.startswith("DSCHED-STUCK"):
            if faults != "-" and pid in model_sets and any(o.endswith("STUCK") for o in model_sets[pid][0]):
                continue    # producers blocked on a full queue after a refused launch: admitted by the model
            kind = "deadlock" if "deadlock" in l.split()[1] else "livelock"
            chk.violate("stuck-" + kind, "join() never returns / threads never finish (%s): %s" % (kind, l[:400]), rep)
            continue
        if l.startswith("CRASH"):
            chk.violate("crash", "implementation crashed under schedule: " + l[:300], rep)
            continue
        parts = l.split(" | ")
        if len(parts) != 3:
            chk.broke("harness", "unparsable driver line", l)
            continue
        mon = dict(x.split("=") for x in parts[2].split())
        for m in MON:
            if mon.get(m) != "1":
                chk.violate("mon-" + m, WHAT[m] + ": " + parts[1] + " [" + prog + " cap=%d %s faults=%s]" % (cap, mode, faults), rep)
        outcome = parts[1] + " stale=" + mon.get("stale", "?")
        distinct.add((pid, outcome))
        if small and pid in model_sets:
            outs, trunc = model_sets[pid]
            validated += 1
            if outcome not in outs and not trunc:
                chk.broke("correspondence", "EQModel does not admit outcome of %s cap=%d %s faults=%s" % (prog, cap, mode, faults),
                          "impl outcome: %s\nmodel outcomes: %s" % (outcome, sorted(outs)[:20]))
    chk.cov["evaluations"] = len(lines)
    chk.cov["distinct_nontrivial"] = len(distinct)
    chk.cov["traces_validated_against_impl"] = validated
    chk.cov["states"] = states
    chk.cov["transitions"] = trans
    chk.cov["rule"] = ("case = (client program, capacity, executor mode, fault list, schedule seed, strategy); programs are "
                       "24 fixed boundary programs (join racing a slower producer, refused launch + recovery signal, "
                       "capacity 1, concurrent producers through execute(const T&) alone and mixed with execute(T&&)) plus seeded random mixes of execute(T&&) / execute(const T&) / join / signal_push_event over 2-5 threads, "
                       "capacities 1-8, inline and asynchronous executors, fault lists of length 0-3; strategies: uniform "
                       "random, round-robin with random pre-emptions, PCT depth 3 (twice); every third schedule with a consume "
                       "function that sleeps longer than join()'s polling period; distinct non-trivial = distinct "
                       "(program, observed outcome) pairs; small programs are additionally explored exhaustively in the "
                       "extracted model and every implementation outcome must be in the model's outcome set")
    ids = [l.split()[0] for l in lines]
    for cid in list(impl_out)[:: max(1, len(impl_out) // 5)]:
        chk.sample({"case": lines[ids.index(cid)], "impl": impl_out[cid]})
    chk.cov["trusted_base"] = chk.cov.get("trusted_base", []) + [
        "translator/gen.py", "ExtrOcamlBasic extraction + ocaml/explore.ml + ocaml/eq_driver.ml",
        "harness/shim (verif_atomic.h macro shim, dsched.cpp: usleep/sched_yield/pthread_create interposition)",
        "inner ConcurrentBoundedQueue assumed to deliver each ticket's value to the pop of that ticket (property C01); "
        "its ticket-then-publish structure and prefix-only try_pop_n are modelled",
        "harness FaultyExecutor (inline or one new thread per accepted launch) stands for babylon executors"]
    chk.assumptions = ["sequentially consistent interleavings at atomic-operation granularity (weak-memory effects are "
                       "covered only by the memory-order obligations on the regenerated site table)",
                       "the consume function does not call back into the queue",
                       "size_t event counter / queue indices do not wrap"]
    chk.finish("proof")
