"""C02 — Bounded queue: a blocked push/pop is always woken (no lost wakeup, no deadlock)."""
import c01

META = {
    "engine": "E1+E2+E3+E4",
    "text": "Same interleaving model as C01 (coq/BQ/BQModel.v).  Coq theorems for every usage_ok client program, capacity, "
            "thread count and schedule: a thread asleep in futex_wait on a slot always has the waiter bit set or a "
            "wake_all pending for that slot; if the slot's version already equals what the sleeper waits for, a waker "
            "(single exchange waker or batch store16/fence/load/CAS waker) is still on its way to that slot (no lost "
            "wakeup); every unfinished thread that is not asleep is enabled; a timed sleeper is released by the clock.  "
            "Tie: the real class under the deterministic scheduler (pre-emption at every atomic op and futex call, "
            "virtual time); DSCHED-STUCK on a balanced program = deadlock/lost wakeup; small programs are compared with "
            "the exhaustively explored model (which also says when blocking for good is legitimate); the timed "
            "exclusive pop is checked against the virtual clock.",
    "note": "PARTIAL where named *_partial in coq/Properties_C02.v: global deadlock-freedom of balanced programs is "
            "proved for the wake protocol (no sleeper is forgotten) and thread-local progress; the step from 'no "
            "reachable trap' to termination under a fair scheduler is the standard argument and is not mechanised; "
            "store-buffer (TSO) reorderings of the batch waker are covered by the seq_cst-fence obligation on the "
            "regenerated site table, not executed.  Trusted base as C01.",
}


def main(argv):
    c01.run("C02", argv, "C02")
