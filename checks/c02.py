"""C02 — Bounded queue: a blocked push/pop is always woken (no lost wakeup, no deadlock)."""
import c01

META = {
    "engine": "E1+E2+E3+E4",
    "text": "Same interleaving model as C01 (coq/BQ/BQModel.v).  Coq theorems for every usage_ok client program, capacity, "
            "thread count and schedule: a thread asleep in futex_wait on a slot whose version already equals the one it waits "
            "for has a waker on its way - a pending wake_all, or the USE_FUTEX_WAKE batch publisher of that version before / "
            "inside its wakeup_waiters pass (c02_no_lost_wakeup: single exchange waker and batch store16 / seq_cst fence / "
            "load / CAS / wake_all waker, including the waiter registering between the waker's store and its check); that "
            "waker is itself enabled, so a state with no enabled thread has no ready sleeper (c02_deadlock_not_lost_wakeup); "
            "a sleeper always has the waiter bit set or a wake_all pending; every unfinished thread that is not asleep is "
            "enabled; a timed sleeper is released by the clock.  Tie: the real class under the deterministic scheduler "
            "(pre-emption at every atomic op and futex call, virtual time); DSCHED-STUCK on a balanced program = deadlock / "
            "lost wakeup; small programs are compared with the exhaustively explored model (which also says when blocking "
            "for good is legitimate); the timed exclusive pop is checked against the virtual clock.  Timed pop: after its one "
            "timed wait the call is try_pop_n<false> and never waits again (c02_timed_pop_tail_never_waits; the tail of the "
            "function is regenerated: the statement after the wait must be `return try_pop_n<false,...>(callback, num);` and "
            "the last of the body); executed with a slow producer callback holding an unpublished index while later indices "
            "are published (H ops): the call must return by its deadline with the ready prefix (stuck / mon-timed / "
            "mon-prefix otherwise).  "
            "Deadline arithmetic of the two timed slow paths (coq/BQ/BQDeadlineModel.v: the futex loop with its refresh of the remaining time and the usleep loop, against an arbitrary list of wake-up events; the timeout the refresh starts from, the store-back, the single sampling of begin, the ETIMEDOUT exit, the subtraction, both expiry tests, the spin deadline and quantum are regenerated): for every number and timing of spurious or genuine wake-ups the wait ends by begin + timeout + one scheduling delay (+ one quantum when spinning): c02_timed_futex_wait_meets_deadline, c02_timed_futex_wait_nonpositive_timeout, c02_timed_futex_wait_only_waits_before_deadline, c02_timed_spin_wait_meets_deadline.  "
            "reserve_and_clear (coq/BQ/BQReserve.v): on a quiescent empty queue the slot of the next push index keeps the push version of that index - the indexes are rewound only in the capacity-changed branch together with the per-slot futex reset, the other branch is clear() alone (positions regenerated: rc_* targets; c02_reserve_and_clear_keeps_protocol_state).  "
            "Public overloads: every forwarded template-argument list (value / pointer / iterator "
            "overloads, the overloads without template arguments, the callback overloads handing <WAIT, WAKE, PUSH_OR_POP> "
            "resp. <CONCURRENT, WAKE, PUSH_OR_POP> to the cores) is regenerated; the model runs `lower` of each client call, "
            "c02_entry_points_forward_flags proves lower = the call as written, so c02_no_lost_wakeup_any_entry / "
            "c02_no_deadlock_any_entry hold for programs written against any overload; the explorer reports a program whose "
            "pairing rules hold as written but not after forwarding (wrapper-flags), the harness calls all overloads with "
            "asymmetric wait / wake pairings.",
    "note": "All statements are theorems, incl. c02_no_deadlock (balanced programs of blocking calls with one-sided threads "
            "always have an enabled thread while a thread is unfinished; proved from the ticket accounting: every issued "
            "ticket is published or held, counters = elements of the calls that obtained tickets).  The step from 'no "
            "reachable deadlock' to termination under a fair scheduler is the standard argument and is not mechanised.  "
            "c02_no_lost_wakeup / c02_no_deadlock assume slot versions below 2^16 (fewer than 2^15 rounds): "
            ""
            "beyond that the 16-bit word comparison of the code admits the ABA 'waiter pre-empted for exactly 2^15 rounds'.  "
            "Store-buffer (TSO) half: the waker/waiter skeleton with the fences regenerated from the site tables is checked on "
            "the explicit store-buffer machine of coq/WM for every execution (c02_wake_batch_tso, c02_wake_single_tso; a "
            "weakened fence gives a wm- violation whose replay is the store-buffer schedule); the skeleton abstracts one slot, "
            "one waker, one waiter.  Trusted base as C01 plus coq/WM/TSO.v as the definition of TSO.",
}


def main(argv):
    c01.run("C02", argv, "C02")
