"""C06 - monotonic buffer resources: blocks aligned / owned / disjoint / stable, release frees everything once."""
import json
import os
import re
import vlib
from vlib import Check, sh, VERIF, REPO

META = {
    "engine": "E1+E2+E3+E5",
    "text": "Coq theorems over an executable model of ExclusiveMonotonicBufferResource (addresses in Z, page allocator "
            "and upstream as oracles that answer with fresh aligned regions), for every page size 2^k >= 128 and every "
            "sequence of allocate / register_destructor / contains / release / move: each returned block is aligned, lies "
            "in a page or oversize block the resource holds, is disjoint from every other live block and from every "
            "intrusive bookkeeping array, every store the resource performs lands inside its own bookkeeping; release runs "
            "the registered destructors once in reverse order, returns exactly the pages obtained and exactly the oversize "
            "blocks with the (bytes, alignment) they were obtained with, and leaves the initial state.  Every comparison, "
            "rounding expression, placement test, slot index and struct size of memory_resource.{h,cpp} is regenerated "
            "from the source on each run, so an edited expression re-opens the proofs; the hand-written control structure "
            "is tied by running the extracted model and the real class on the same operation sequences with the addresses "
            "the recording allocators really returned fed to the model as oracle answers (returned pointers, bump window, "
            "array chains, slot positions, accounting and all allocator/upstream/destructor events compared exactly).  "
            "Monitors on the real classes check the property text directly, including Shared/Swiss resources under real "
            "threads created while others allocate.",
    "note": "Shared/Swiss variants: c06_shared_disjoint proves cross-thread disjointness for per-thread exclusive "
            "resources over shared allocators under every interleaving incl. thread creation; c06_shared_release_order / "
            "_exact prove that the shared release (two loops, structure regenerated from the source) runs every "
            "destructor of every sub-resource before any page / oversize block goes back, each exactly once.  The "
            "thread->resource map (EnumerableThreadLocal) is covered by monitors over real threads only (recording "
            "thread-safe allocators with a global free counter: no deallocation may precede any destructor call during "
            "release; watcher destructors registered in one thread's sub-resource check a canary block of another "
            "thread's sub-resource in a ring; disjointness/ownership/contents/release exactness checked after joins; "
            "no schedule enumeration).  Contents stability is proved as 'every store of the resource is inside a "
            "bookkeeping array, and those are disjoint from live blocks' (the model has no byte memory).  Move: both "
            "move-assignment into a prepared target and move-construction are operations of the model and of every "
            "theorem; every std::swap line of operator=(&&) is a translator target (Gen.move_swaps_<member>, all 12 "
            "members; the _upstream swap was missing before /repo 2947382, KNOWN_FINDINGS 'fixed:'); move assignment "
            "between two non-empty resources with different page allocators (and page sizes) and upstreams is "
            "c06_move_assign_exchanges over a pair model plus monitored two-resource runs of the real class (every "
            "page / oversize block back to the allocator it came from exactly once, destructors once, contains, "
            "contents, release in either order, destruction).  Preconditions in the statements: page size 2^k "
            ">= 128, pages page-size aligned, alignment a power of two <= 2^32, sizes and addresses below 2^62 (no "
            "address wrap), oracle regions fresh.  Trusted: Coq kernel, translator, extraction + OCaml driver, C++ "
            "harness (recording allocators, -fno-access-control walk of the intrusive arrays).",
}

MON_TEXT = {
    "mon_align": ("misaligned", "a block returned by allocate is not aligned as requested"),
    "mon_owned": ("not-owned", "a block returned by allocate is not inside memory the resource holds"),
    "mon_disjoint": ("blocks-overlap", "two live blocks overlap"),
    "mon_book": ("bookkeeping-overlap", "a live block overlaps the resource's own bookkeeping (or bookkeeping is corrupt)"),
    "mon_stable": ("contents-lost", "a live block lost its contents before release"),
    "mon_dtor": ("destructors-not-once", "release did not run each registered destructor exactly once in reverse order before freeing"),
    "mon_pages": ("pages-not-once", "release did not return every page to the page allocator exactly once"),
    "mon_up": ("oversize-not-once", "release did not return every oversize block upstream exactly once with its size and alignment"),
    "mon_zero": ("accounting-not-zero", "accounting / contains not reset by release"),
    "mon_contains": ("contains-false", "contains() is false for a live block"),
    "mon_reuse": ("double-return", "a released resource returned memory again when destroyed"),
}

PAGE_SIZES_QUICK = [128, 256, 512, 4096]
PAGE_SIZES_THOROUGH = [128, 256, 512, 1024, 2048, 4096, 8192]


def gen_case(rng, P, style):
    """-> (shuffle, [op tokens]) ; ends with a release and a short reuse phase."""
    ops = []
    nblk = [0]
    ntok = [1000]

    def A(b, a):
        ops.append("A:%d:%d" % (max(0, b), a))
        nblk[0] += 1

    def G():
        ntok[0] += 1
        ops.append("G:%d:%d" % (ntok[0], 1 + rng.below(2)))

    def C():
        off = rng.choice([0, 1, -1, 8, P - 1, P, P + 1, 2 * P, 127, 128, 4 * P + 5])
        ops.append("C:%d:%d" % (rng.below(max(1, nblk[0])), off))

    def small_align():
        return 1 << rng.below(7)

    def fill_pages(n):
        # n allocations that each take a fresh page and leave little behind
        for _ in range(n):
            A(P - rng.choice([0, 0, 1, 7, 8, 9, 16]), small_align())

    def boundary_trigger():
        # leave r bytes in the current page, then ask for something that does not fit
        r = rng.choice([0, 8, 112, 119, 120, 121, 127, 128, 129, 135, 136, 137, 144, 200, 248, 256])
        r = min(r, P)
        A(P - r, rng.choice([1, 8, 16]))
        b = rng.choice([P, P - 1, P - 8, P - 120, P - 121, P - 127, P - 128, P - 129, P - 135, P - 136, r + 1, r + 8, 129, 137])
        b = max(1, min(b, P))
        A(b, rng.choice([1, 2, 8, 16, 64, P]))

    def oversize():
        k = rng.below(4)
        if k == 0:
            A(P + 1 + rng.below(64), small_align())
        elif k == 1:
            A(rng.choice([0, 1, 8, 100]), P * (2 << rng.below(3)))
        elif k == 2:
            A(P * 2 + rng.below(P), rng.choice([1, 8, 64, 2 * P]))
        else:
            A(P + rng.choice([1, 7, 8, 9, 369, 376]), rng.choice([1, 4, 8, 16, 4096]))

    shuffle = rng.choice([0, 1, 2, 3, 7, 0, 1])
    rounds = 2
    for rd in range(rounds):
        if style == "pages":
            fill_pages(rng.choice([0, 1, 13, 14]))
            for _ in range(1 + rng.below(3)):
                boundary_trigger()
                if rng.chance(1, 3):
                    fill_pages(rng.choice([12, 13, 14]))
                if rng.chance(1, 3):
                    G()
            for _ in range(rng.below(4)):
                C()
        elif style == "oversize":
            for _ in range(rng.choice([3, 14, 15, 16, 17, 31])):
                oversize()
                if rng.chance(1, 5):
                    A(1 + rng.below(P), small_align())
                if rng.chance(1, 6):
                    C()
        elif style == "dtor":
            for _ in range(rng.choice([1, 14, 15, 16, 17, 31, 46])):
                G()
                if rng.chance(1, 4):
                    A(rng.choice([1, 8, P - 248, P - 247, P - 256, P - 240, 100, P]), small_align())
            for _ in range(rng.below(3)):
                C()
        else:  # mixed
            for _ in range(10 + rng.below(50)):
                k = rng.below(20)
                if k < 7:
                    A(rng.below(P // 2 + 2), small_align())
                elif k < 10:
                    A(P - rng.below(140), small_align())
                elif k < 12:
                    oversize()
                elif k < 15:
                    G()
                elif k < 16:
                    A(0, rng.choice([1, 8, 64, P, 2 * P]))
                elif k < 18:
                    C()
                elif k < 19:
                    ops.append("M")
                else:
                    boundary_trigger()
        if rng.chance(1, 3):
            ops.append("M")
        ops.append("R")
        if rng.chance(1, 2):
            C()
    return shuffle, ops


def move_ctor_cases(P):
    """move construction of a resource that holds oversize blocks of a non-default upstream"""
    return [(0, ["A:%d:8" % (P + 1), "K", "R"]),
            (0, ["A:10:8", "A:%d:16" % (2 * P), "G:1001:1", "K", "A:16:8", "R"])]


def gen_pair_case(rng, PA, PB):
    """two resources with different page allocators / upstreams; both non-empty when a move assignment happens"""
    ops = []
    P = {"a": PA, "b": PB}

    def some(x, n):
        for _ in range(n):
            k = rng.below(10)
            if k < 4:
                ops.append("%s:A:%d:%d" % (x, 1 + rng.below(P[x] // 2), 1 << rng.below(5)))
            elif k < 6:
                ops.append("%s:A:%d:%d" % (x, P[x] - rng.below(9), 8))
            elif k < 8:
                ops.append("%s:A:%d:%d" % (x, P[x] + 1 + rng.below(200), rng.choice([1, 8, 64])))
            else:
                ops.append("%s:G" % x)

    for rd in range(1 + rng.below(2)):
        some("a", 3 + rng.below(20))
        some("b", 3 + rng.below(20))
        # make sure both hold pages, an oversize block and a destructor
        for x in ("a", "b"):
            ops += ["%s:A:24:8" % x, "%s:A:%d:8" % (x, P[x] + 40), "%s:G" % x]
        ops.append(rng.choice(["X", "Z"]))
        some("a", rng.below(12))
        some("b", rng.below(12))
        if rng.chance(1, 3):
            ops.append(rng.choice(["X", "Z"]))
            some(rng.choice(["a", "b"]), rng.below(8))
        rel = rng.below(4)           # release a first / b first / only one / none (destruction does it)
        if rel == 0:
            ops += ["a:R", "b:R"]
        elif rel == 1:
            ops += ["b:R", "a:R"]
        elif rel == 2:
            ops += [rng.choice(["a:R", "b:R"])]
    return rng.below(2), ops


def split_impl(line):
    """impl line -> (canonical text comparable with the model, [extras per op], monitors dict, detail)"""
    body, _, mon = line.partition(" | ")
    cid, _, rest = body.partition(" ")
    segs = rest.split(" ; ") if rest else []
    canon, extras = [], []
    for s in segs:
        a, _, b = s.rpartition(" #")
        canon.append(a)
        extras.append([int(x) for x in b.split(",")])
    mons = dict(re.findall(r"(mon_\w+)=(\d)", mon))
    detail = mon.partition("detail=")[2]
    return cid + " " + " ; ".join(canon), extras, mons, detail


def model_line(cid, P, ops, extras):
    toks = []
    for o, ex in zip(ops, extras):
        f = o.split(":")
        if f[0] == "A":
            toks.append("A:%s:%s:%d:%d:%d" % (f[1], f[2], ex[0], ex[1], ex[2]))
        elif f[0] == "G":
            toks.append("G:%s:%s:%d:%d:%d" % (f[1], f[2], ex[0], ex[1], ex[2]))
        elif f[0] == "C":
            toks.append("C:%d" % ex[3])
        else:
            toks.append(f[0])
    return "%s %d %s" % (cid, P, " ".join(toks))


def classify(canon):
    """which bookkeeping events a case exercised (from the compared text)"""
    tags = set()
    prev_pa = prev_oa = prev_da = 0
    for seg in canon.split(" ", 1)[1].split(" ; ") if " " in canon else []:
        m = re.search(r"pa=\[([^\]]*)\] ot=-?\d+ oa=\[([^\]]*)\] dt=-?\d+ da=\[([^\]]*)\] ev=(\S*)", seg)
        if not m:
            continue
        pa = [int(x) for x in m.group(1).split(",") if x]
        oa = [x for x in m.group(2).split(",") if x]
        da = [x for x in m.group(3).split(",") if x]
        evs = m.group(4).split(",") if m.group(4) else []
        pas = [int(e[2:]) for e in evs if e.startswith("pa")]
        if len(pa) > prev_pa and pas:
            if len(pas) >= 2 and pa[0] == pas[-1]:
                tags.add("array-extra-page")
            elif any(p <= pa[0] < p + (1 << 20) for p in pas[:1]) and abs(pa[0] - pas[0]) < 65536 and pa[0] >= pas[0]:
                tags.add("array-new-page-tail")
            else:
                tags.add("array-old-page-tail")
            if prev_pa >= 1:
                tags.add("second-page-array")
        if len(oa) > prev_oa:
            tags.add("oversize-array" if prev_oa == 0 else "second-oversize-array")
        if len(da) > prev_da:
            tags.add("destroy-array" if prev_da == 0 else "second-destroy-array")
        prev_pa, prev_oa, prev_da = len(pa), len(oa), len(da)
    return tags


def main(argv):
    chk = Check("C06", argv)
    thorough = chk.tier == "thorough"
    chk.translate(["memory_resource"])
    chk.coq("Properties_C06.v", timeout=1500)
    model = chk.extract("mr", "Extract_mr.v", "mr_driver.ml")
    lib = chk.repolib_all()
    impl = chk.build_cpp("c06_memory_resource", [os.path.join(VERIF, "harness/seq/c06_memory_resource.cpp")],
                         objs=[lib], flags=["-fno-access-control"]) if lib else None

    # struct sizes the translator takes from a table must be the compiler's
    if impl:
        rc, out, err = sh([impl], input="const x\n", timeout=60)
        consts = dict((k, int(v)) for k, v in re.findall(r"(\w+)=(\d+)", out))
        chk.notes["impl_constants"] = consts
        spec = json.load(open(os.path.join(VERIF, "translator/targets/memory_resource.json")))
        for name, key in (("PageArray", "sizeof_PageArray"), ("OversizePageArray", "sizeof_OversizePageArray"),
                          ("DestroyTaskArray", "sizeof_DestroyTaskArray")):
            if consts.get(key) != spec["sizeof"][name]:
                chk.broke("translator", "sizeof(%s)" % name, "translator table says %d, compiler says %s"
                          % (spec["sizeof"][name], consts.get(key)))

    # ------------------------------------------------------------------ cases
    xcases = {}   # id -> (P, shuffle, ops)
    scases = []
    ycases = []
    if chk.replay:
        r = json.load(open(chk.replay))["replay"]
        if r.get("kind", "X") == "X":
            xcases["r0"] = (r["P"], r["shuffle"], r["ops"])
        elif r["kind"] == "Y":
            ycases.append("r0 Y %d %d %d %s" % (r["PA"], r["PB"], r["order"], " ".join(r["ops"])))
        else:
            scases.append("r0 %s %d %d %d %d" % (r["kind"], r["P"], r["T"], r["N"], r["seed"]))
    else:
        n = 0
        per = 40 if thorough else 9
        for P in (PAGE_SIZES_THOROUGH if thorough else PAGE_SIZES_QUICK):
            for style in ("pages", "pages", "oversize", "dtor", "mixed", "mixed"):
                for _ in range(per):
                    sh_, ops = gen_case(chk.rng, P, style)
                    xcases["x%d" % n] = (P, sh_, ops)
                    n += 1
            for sh_, ops in move_ctor_cases(P):
                xcases["k%d" % n] = (P, sh_, ops)
                n += 1
        y = 0
        for PA, PB in [(128, 256), (256, 128), (4096, 512), (512, 4096), (256, 256)]:
            for _ in range(8 if not thorough else 60):
                order, ops = gen_pair_case(chk.rng, PA, PB)
                ycases.append("y%d Y %d %d %d %s" % (y, PA, PB, order, " ".join(ops)))
                y += 1
        m = 0
        for P in ([128, 256, 4096] if not thorough else [128, 256, 512, 4096]):
            for kind in ("S", "W"):
                for T in ([1, 3, 8] if not thorough else [1, 2, 3, 5, 8, 16]):
                    for rep in range(2 if not thorough else 6):
                        scases.append("s%d %s %d %d %d %d" % (m, kind, P, T, 40 if T > 4 else 120, 1 + chk.rng.below(1 << 30)))
                        m += 1
    chk.log("%d exclusive op sequences (%d ops), %d two-resource move cases, %d shared/swiss thread cases"
            % (len(xcases), sum(len(c[2]) for c in xcases.values()), len(ycases), len(scases)))

    def report_monitors(cid, rep, mons, detail, what_prefix=""):
        parts = dict(re.findall(r"\[(\w+)\] (.*?)(?= // \[|$)", detail))
        for k, (sig, text) in MON_TEXT.items():
            if mons.get(k) == "0":
                d = parts.get(k[4:], detail)
                chk.violate(sig, "%s%s: %s" % (what_prefix, text, d), rep)

    impl_out = {}
    if impl:
        lines = ["%s X %d %d %s" % (cid, P, sh_, " ".join(ops)) for cid, (P, sh_, ops) in xcases.items()] + ycases + scases
        impl_out = chk.run_cases(impl, lines, timeout=900)
    model_in, canon_impl = [], {}
    tags_seen = {}
    nontrivial = 0
    for cid, (P, sh_, ops) in xcases.items():
        line = impl_out.get(cid)
        rep = {"kind": "X", "P": P, "shuffle": sh_, "ops": ops}
        if line is None:
            continue
        if line.startswith("CRASH") or " | " not in line:
            chk.violate("impl-crash", "the resource crashed the driver on an operation sequence: %s" % line[:300], rep)
            continue
        canon, extras, mons, detail = split_impl(line)
        report_monitors(cid, rep, mons, detail)
        if len(extras) != len(ops):
            chk.broke("harness", "impl output for %s" % cid, line[:300])
            continue
        canon_impl[cid] = canon
        model_in.append(model_line(cid, P, ops, extras))
        tg = classify(canon)
        for t in tg:
            tags_seen[t] = tags_seen.get(t, 0) + 1
        if tg & {"second-page-array", "second-oversize-array", "second-destroy-array", "array-extra-page"}:
            nontrivial += 1
    for l in ycases:
        f = l.split()
        cid = f[0]
        rep = {"kind": "Y", "PA": int(f[2]), "PB": int(f[3]), "order": int(f[4]), "ops": f[5:]}
        line = impl_out.get(cid)
        if line is None:
            continue
        if line.startswith("CRASH") or " | " not in line:
            chk.violate("impl-crash-move", "two resources with move assignment crashed the driver: %s" % line[:300], rep)
            continue
        _, _, mon = line.partition(" | ")
        mons = dict(re.findall(r"(mon_\w+)=(\d)", mon))
        report_monitors(cid, rep, mons, mon.partition("detail=")[2],
                        "two resources (page sizes %s/%s, own allocators and upstreams) with move assignment: " % (f[2], f[3]))
    for l in scases:
        cid = l.split()[0]
        f = l.split()
        rep = {"kind": f[1], "P": int(f[2]), "T": int(f[3]), "N": int(f[4]), "seed": int(f[5])}
        line = impl_out.get(cid)
        if line is None:
            continue
        if line.startswith("CRASH") or " | " not in line:
            chk.violate("impl-crash-shared", "shared/swiss resource crashed the driver: %s" % line[:300], rep)
            continue
        _, _, mon = line.partition(" | ")
        mons = dict(re.findall(r"(mon_\w+)=(\d)", mon))
        report_monitors(cid, rep, mons, mon.partition("detail=")[2], "shared/swiss resource, %s threads: " % f[3])
    validated = 0
    ndiff = 0
    if model and model_in:
        mout = chk.run_cases(model, model_in, timeout=900)
        for cid, canon in canon_impl.items():
            ml = mout.get(cid)
            if ml is None or ml.startswith("CRASH"):
                chk.broke("correspondence", "model driver on %s" % cid, str(ml))
                continue
            validated += 1
            if ml.strip() != canon.strip():
                ndiff += 1
                if ndiff <= 3:
                    a, b = canon.split(" ; "), ml.split(" ; ")
                    k = next((i for i in range(min(len(a), len(b))) if a[i] != b[i]), min(len(a), len(b)))
                    P, sh_, ops = xcases[cid]
                    chk.broke("correspondence", "MRModel.step vs ExclusiveMonotonicBufferResource, case %s op #%d %s (P=%d)"
                              % (cid, k, ops[k] if k < len(ops) else "?", P),
                              "impl : %s\nmodel: %s" % (a[k] if k < len(a) else "-", b[k] if k < len(b) else "-"))
    chk.cov["evaluations"] = len(xcases) + len(ycases) + len(scases)
    chk.cov["distinct_nontrivial"] = nontrivial
    chk.cov["traces_validated_against_impl"] = validated
    chk.cov["rule"] = ("exclusive cases = (page size, page order, op sequence) with sizes placed at every case split: remaining "
                       "space of the old page = sizeof(PageArray) +-8, request = page_size - sizeof(PageArray) +-8, 15/16 "
                       "pages, 15/16 oversize blocks, 15/16 destructors, zero bytes, alignment above the page size, release "
                       "and move-assignment in the middle; non-trivial = distinct cases that create a second page / oversize "
                       "/ destroy-task array or take the extra-page placement; two-resource cases = (page sizes, op sequence) "
                       "where both resources hold pages, an oversize block and a destructor when `a = std::move(b)` / "
                       "`b = std::move(a)` runs, then allocate / release in either order / destruction; shared cases = (variant, page size, thread "
                       "count, seed) with threads created in waves while others allocate")
    chk.notes["bookkeeping_events_hit"] = tags_seen
    ids = list(canon_impl)
    for cid in ids[:: max(1, len(ids) // 4)]:
        P, sh_, ops = xcases[cid]
        chk.sample({"case": {"P": P, "shuffle": sh_, "ops": ops[:12]}, "impl_first_ops": canon_impl[cid].split(" ; ")[:3]})
    chk.cov["trusted_base"] = chk.cov.get("trusted_base", []) + [
        "translator/gen.py (C expression subset -> Z; size_t/uintptr_t arithmetic as unbounded Z, casts as mod 2^64; "
        "struct sizes from a table cross-checked against the compiler on every run)",
        "extraction: ExtrOcamlBasic only; ocaml/mr_driver.ml",
        "harness/seq/c06_memory_resource.cpp (recording PageAllocator / upstream over one arena, replaced global operator "
        "new/delete, -fno-access-control to read the intrusive arrays)",
        "modelled not verified: page allocator and upstream (fresh, aligned regions), EnumerableThreadLocal (C19)",
    ]
    chk.assumptions = ["page size 2^k >= 128, pages aligned to the page size", "alignment a power of two",
                       "sizes/addresses below 2^62 (no pointer wrap)", "oracle regions fresh and pairwise disjoint",
                       "destructors do not call back into the resource"]
    chk.finish("proof")
