"""C05 — anyflow: a run equals sequential evaluation; each vertex runs at most once."""
import json
import os
import vlib
from vlib import Check, VERIF

META = {
    "engine": "E1+E2+E3+E4",
    "text": "Coq theorems over (1) an atomic-operation interleaving model of GraphDependency::activate/ready (the +1/+2 "
            "increments, switch labels and terminal tests regenerated from dependency.cpp) closed by reflection over all "
            "interleavings of activator x condition-releaser x target-releaser: exactly one of them notifies the vertex, "
            "only after the condition is evaluated and (if it holds) the target is sealed; (2) the vertex countdown "
            "(GraphVertex::activate/ready, tests regenerated from vertex.cpp/.hpp) for any number of dependencies: invoke at "
            "most once and only after every dependency notified; (2b) both composed for one vertex with n dependencies "
            "(every schedule of the 2n+1 threads): invoked at most once, only when every dependency is resolved, exactly "
            "once when all parties are through, and every step projects to a step of the abstract vertex the engine model "
            "uses (refinement), whose invoke guard is proved equal to the engine model's; the closure counters fire "
            "finish(0)/flush only under the engine model's guards; (2c) the publication wrapper Committer<T> as a state machine (valid / moved-from / released; what the move "
            "constructor, move assignment, destructor, release(), cancel() and get() do is regenerated from data.hpp): for "
            "every program of committer operations a data is published exactly once, at release()/destruction of its unique "
            "valid committer, never by a move, and never written after publication; (2d) Graph::run binding n targets (the two steps of GraphData::bind in the order regenerated from the source) "
            "against concurrent releasers of those targets, every n and schedule: finished with success only when run() "
            "has fired and every requested target is sealed (needs count-before-attach; the extracted machine is also "
            "explored exhaustively for 2 and 3 targets on every run); (3) an event-level engine model of a whole run for every "
            "acyclic graph, input, target set and schedule: values of ready data equal the sequential evaluation, only "
            "needed vertices are activated, every data is sealed once; with wait() every step decreases a measure, no "
            "unflushed state is stuck and a flushed state is finished with no vertex running (termination without "
            "fairness); reset gives the initial state.  Tie: the "
            "real anyflow classes (their .cpp compiled behind the atomic shim) run random DAGs from the same descriptor as "
            "the extracted model under a deterministic scheduler (inplace executor and a harness GraphExecutor whose queued "
            "tasks are picked by 1-3 worker threads, extra threads injecting data during activation, run/reset cycles); "
            "processors publish through Committer<T> in six ways (in place, move-constructed, moved twice + "
            "move-assigned, move-assigned over a valid committer, explicit release, moved into a spawned thread that fills "
            "and releases later); final values, invocation inputs, needed-vertex bounds and error class must equal the "
            "model's sequential evaluation; in 'y' cases requested targets are emitted by other threads "
            "concurrently with run() (success must still give every target its sequential value, producers of non-injected "
            "targets run once); random committer programs run on the real class and on the extracted machine "
            "and must agree on which operation published each data and with what content; one-dependency graphs are explored exhaustively in the extracted protocol machine and every "
            "implementation outcome must be admitted; monitors check the property text on every run.",
    "note": "Trusted: Coq kernel; translator; extraction (ExtrOcamlBasic) + OCaml explorer/driver; macro shim and dsched "
            "(sequentially consistent interleavings only; memory-order obligations checked on the regenerated site table); "
            "the event-level engine model is tied to the code by outcome equality, not by step-for-step trace replay "
            "(the engine has no hook at flush_emits / dependency.ready); per vertex its invoke guard is machine-checked "
            "against the composed atomic-level machines (c05_vx_*, c05_eng_guard_is_resolved, c05_clo_refines), the "
            "composition over all vertices with the activation stacks is not.  Processor bodies are pure functions (Section "
            "variable in the theorems).  KNOWN FINDING run-races-external-release: if Graph::run() starts while another "
            "thread is still inside emit()/release() of an input (data sealed, successors not yet notified - cases with exec "
            "suffix 'x', directed case x.dir = seed 921473905, PCT, 3 workers, d0 injected after 7 yields, targets d8,d7), "
            "fire() can bring the closure's vertex count to 0 while that release is in flight: the closure finishes with -1 "
            "('all vertex finish but data not ready') although the sequential evaluation succeeds, wait() returns, and the "
            "late release then invokes vertices on the flushed or already destroyed ClosureContext (SIGSEGV in "
            "depend_vertex_sub, or Promise::set_value twice).  No small fix: ClosureContext counts only GraphVertexClosure "
            "objects, an external release holds none, and a dependency cannot tell a sealed-but-not-yet-notified target "
            "from one that will never notify; repairing it needs the releasing thread to register with the closure(s) of "
            "activated successors (a protocol change).  The theorems hold under the assumption 'external emitters have "
            "returned before run() starts' (CVAdd guard of the closure machine).  Multiple producers, mutable dependencies, channels and trivial vertices whose "
            "outputs are injected externally (documented as unsupported in vertex.cpp) are outside the quantifier.",
}

M = 1009


# ------------------------------------------------------------------------------------------ reference interpreter
def proc_fn(v, flags, inputs, nemits):
    """the pure processor body shared with the C++ driver and the Gallina model: None = failure."""
    acc = (v * 7 + 1) % M
    for x in inputs:
        acc = (acc * 31 + (x + 1 if x is not None else 0)) % M
    if "f" in flags and acc % 3 == 0:
        return None
    outs = []
    for j in range(nemits):
        y = (acc + 17 * j) % M
        if y % 5 == 0:
            outs.append("E")
        else:
            outs.append(y % 2 if "b" in flags else y)
    return outs


def truthy(val):
    return val != "E" and val != 0


def ref_eval(graph, pre):
    """eager sequential evaluation in topological (= list) order.  env[d] = 'E' | int, absent = never available.
    Returns env, per-vertex info {v: (inputs, status)} status in run|skip(essential)|fail|blocked."""
    env = dict(pre)
    info = {}
    for v, (flags, deps, emits) in enumerate(graph):
        ins = []
        blocked = False
        ess_failed = False
        for (t, c, ev, ess) in deps:
            est = True
            if c is not None:
                if c not in env:
                    blocked = True
                    break
                est = truthy(env[c]) == ev
            if est and t not in env:
                blocked = True
                break
            val = env[t] if est else "E"
            ins.append(None if val == "E" else val)
            if ess and (not est or val == "E"):
                ess_failed = True
        if blocked:
            info[v] = (None, "blocked")
            continue
        if ess_failed:
            info[v] = (None, "skip")
            outs = ["E"] * len(emits)
        else:
            outs = proc_fn(v, flags, ins, len(emits))
            if outs is None:
                info[v] = (ins, "fail")
                continue
            info[v] = (ins, "run")
        for d, o in zip(emits, outs):
            env.setdefault(d, o)
    return env, info


def needed(graph, env, avail, targets):
    """demand-driven activation set: data wanted / vertices activated, given the data available from the start."""
    want = set(t for t in targets)
    act = set()
    missing = False
    producers = {}
    for v, (_, _, emits) in enumerate(graph):
        for d in emits:
            producers[d] = v
    for v in range(len(graph) - 1, -1, -1):
        flags, deps, emits = graph[v]
        if not any(d in want and d not in avail for d in emits):
            continue
        act.add(v)
        for (t, c, ev, ess) in deps:
            if c is None:
                want.add(t)
            else:
                want.add(c)
                if c in env and truthy(env[c]) == ev:
                    want.add(t)
    for d in want:
        if d not in avail and d not in producers:
            missing = True
    return want, act, missing


def expectations(graph, presets, injects, targets):
    pre = dict(presets)
    pre.update(injects)
    env, info = ref_eval(graph, pre)
    out = {}
    for name, avail in (("lo", set(pre)), ("hi", set(presets))):
        want, act, missing = needed(graph, env, avail, targets)
        err = missing or any(info[v][1] == "fail" for v in act)
        out[name] = (act, err)
    return env, info, out


# --------------------------------------------------------------------------------------------------- generators
def fmt_graph(graph):
    vs = []
    for flags, deps, emits in graph:
        ds = []
        for (t, c, ev, ess) in deps:
            s = "%d" % t
            if c is not None:
                s += ("?" if ev else "!") + "%d" % c
            if ess:
                s += "*"
            ds.append(s)
        vs.append("%s:%s:%s" % (flags or "-", ",".join(ds) or "-", ",".join("%d" % e for e in emits) or "-"))
    return ";".join(vs)


def fmt_vals(kv):
    return ",".join("%d=%s" % (d, v) for d, v in kv) or "-"


def gen_case(rng, big):
    nin = 1 + rng.below(3)
    nv = 1 + rng.below(8 if big else 5)
    graph = []
    nd = nin
    booleans = []
    presets = []
    for d in range(nin):
        k = rng.below(6)
        val = [0, 1, "E", 2 + rng.below(900), 1, 0][k]
        presets.append((d, val))
        if val in (0, 1, "E"):
            booleans.append(d)
    allow_fail = rng.chance(1, 5)
    for v in range(nv):
        flags = ""
        if rng.chance(3, 10):
            flags += "b"
        if allow_fail and rng.chance(1, 4):
            flags += "f"
        if rng.chance(1, 7):
            flags += "t"
        # how the processor publishes through Committer<T>: plain / move-constructed / moved twice + move-assigned /
        # move-assigned over a valid committer / explicit release / moved into another thread (deferred commit)
        cm = rng.choice(["", "", "m", "M", "w", "e", "a", "m"])
        if cm == "a" and "t" in flags:
            cm = "m"
        flags += cm
        deps = []
        ndeps = [0, 1, 1, 2, 2, 3][rng.below(6)] if v > 0 or rng.chance(1, 2) else 0
        for _ in range(ndeps):
            t = rng.below(nd)
            c, ev = None, False
            if rng.chance(1, 2) and nd > 1:
                cands = [b for b in booleans if b != t] or [x for x in range(nd) if x != t]
                c = rng.choice(cands)
                ev = rng.chance(1, 2)
            deps.append((t, c, ev, rng.chance(1, 5)))
        nem = 1 + (1 if rng.chance(1, 4) else 0)
        emits = list(range(nd, nd + nem))
        if "b" in flags:
            booleans += emits
        nd += nem
        graph.append((flags, deps, emits))
    # targets: prefer late data
    used = set()
    for _, deps, emits in graph:
        used.update(emits)
        for (t, c, ev, ess) in deps:
            used.add(t)
            if c is not None:
                used.add(c)
    used = sorted(used)
    nt = 1 + rng.below(3)
    targets = []
    for _ in range(nt):
        d = used[len(used) - 1 - rng.below(min(len(used), 4))] if rng.chance(3, 4) else rng.choice(used)
        if d not in targets:
            targets.append(d)
    if rng.chance(1, 25) and presets:
        presets.pop(rng.below(len(presets)))      # a missing input: the run must fail, and terminate
    return graph, presets, targets, nd


def gen_late(rng):
    """aimed at the window 'activation concurrent with release': vertex A is activated late (by the thread that seals
    condition C of X's dependency on A) while A's own target T is being sealed by another worker"""
    presets = [(0, rng.choice([0, 1, "E"])), (1, rng.below(900))]
    chain = rng.below(3)
    graph = [(rng.choice(["", "m", "a", "M"]), [(1, None, False, False)], [2])]
    last = 2
    nd = 3
    for _ in range(chain):
        graph.append(("", [(last, None, False, False)], [nd]))
        last = nd
        nd += 1
    t = last
    graph.append(("b", [(0, None, False, False)] if rng.chance(1, 2) else [], [nd]))
    c = nd
    nd += 1
    adeps = [(t, None, False, False)]
    if rng.chance(1, 2):
        adeps.append((t, c, rng.chance(1, 2), False))
    if rng.chance(1, 3):
        adeps.append((1, None, False, rng.chance(1, 2)))
    graph.append(("", adeps, [nd]))
    a = nd
    nd += 1
    env, _ = ref_eval(graph, dict(presets))
    ev = truthy(env.get(c, "E")) if rng.chance(3, 4) else not truthy(env.get(c, "E"))
    graph.append(("", [(a, c, ev, rng.chance(1, 4))], [nd]))
    x = nd
    nd += 1
    graph.append(("", [(t, None, False, False)], [nd]))
    y = nd
    nd += 1
    targets = [x, y] if rng.chance(1, 2) else [y, x]
    return graph, presets, targets, nd


def gen_injects(rng, graph, presets, targets, nd):
    """externally injected data: producer-less data emitted by extra threads (sealed before run() starts, the
    successor notification of release() still running concurrently with the activation).  Returns (presets', threads)."""
    presets = list(presets)
    threads = []
    if not presets:
        return presets, threads
    for _ in range(1 + rng.below(2)):
        th = []
        for _ in range(1 + rng.below(2)):
            if not presets:
                break
            d, val = presets.pop(rng.below(len(presets)))
            th.append((d, val, rng.below(40)))
        if th:
            threads.append(th)
    return presets, threads


class Var(list):
    """per-cycle variants of the presets / of the requested targets: cycle k uses variant min(k, last)"""


def variant(x, k):
    return x[min(k, len(x) - 1)] if isinstance(x, Var) else x


def case_line(cid, seed, strat, ex, cycles, graph, presets, inj_threads, targets):
    inj = "|".join(",".join("%d=%s@%d" % x for x in th) for th in inj_threads) or "-"
    ps = "#".join(fmt_vals(v) for v in presets) if isinstance(presets, Var) else fmt_vals(presets)
    ts = "#".join(",".join("%d" % t for t in v) for v in targets) if isinstance(targets, Var) else ",".join("%d" % t for t in targets)
    return "%s %d %d %s %d %s %s %s %s" % (cid, seed, strat, ex, cycles, fmt_graph(graph), ps, inj, ts)


def redraw_presets(rng, presets):
    out = []
    for d, v in presets:
        if rng.chance(1, 2):
            v = [0, 1, "E", 2 + rng.below(900), 1, 0][rng.below(6)]
        out.append((d, v))
    return out


def used_data(graph):
    used = set()
    for _, deps, emits in graph:
        used.update(emits)
        for (t, c, ev, ess) in deps:
            used.add(t)
            if c is not None:
                used.add(c)
    return sorted(used)


def gen_variants(rng, graph, presets, targets):
    """run / reset cycles of ONE graph instance with different target sets and different input values: a cycle may leave
    conditional vertices un-activated while their condition is still published, the next one activates them"""
    used = used_data(graph)
    n = 2 + rng.below(2)
    pv, tv = Var(), Var()
    for k in range(n):
        if k == n - 1 and rng.chance(1, 2):
            pv.append(list(presets))
            tv.append(list(targets))
            continue
        pv.append(redraw_presets(rng, presets))
        ts = []
        for _ in range(1 + rng.below(2)):
            d = rng.choice(used)
            if d not in ts:
                ts.append(d)
        tv.append(ts)
    return pv, tv, n


def gen_reset_case(rng):
    """directed: a conditional dependency whose owner is not activated in one cycle (its condition is published with the
    establishing value) and activated in the next with the condition not holding"""
    ev = rng.chance(1, 2)
    hold, nohold = (1, 0) if ev else (0, 1)
    if rng.chance(1, 3):
        nohold = "E" if ev else nohold
    extra = rng.chance(1, 2)
    graph = [("", [], [2]), (rng.choice(["", "m", "e"]), [(2, 0, ev, rng.chance(1, 4))] + ([(1, None, False, False)] if extra else []), [3]),
             ("", [(0, None, False, False)], [4])]
    if not extra:
        graph.append(("", [(1, None, False, False)], [5]))
    other = [4] if rng.chance(1, 2) else [4, 2 if rng.chance(1, 2) else 4]
    other = sorted(set(other))
    pv = Var([[(0, hold), (1, rng.below(50))], [(0, nohold), (1, rng.below(50))]])
    tv = Var([other, [3] + ([4] if rng.chance(1, 2) else [])])
    if rng.chance(1, 3):
        pv.append([(0, hold), (1, 7)])
        tv.append([3])
    return graph, pv, tv, len(pv)


# the directed case of the known finding run-races-external-release (see META["note"])
XDIR = ("x.dir", 921473905, 1, "P3x", 2,
        [("b", [(0, None, False, False), (0, None, False, True)], [1, 2]), ("t", [], [3]),
         ("", [(2, None, False, False), (3, None, False, True), (2, None, False, False)], [4]), ("", [], [5, 6]),
         ("b", [(0, 2, True, True)], [7]), ("b", [(4, None, False, False)], [8]),
         ("", [(3, 0, False, True), (4, None, False, False)], [9, 10])],
        [], [[(0, 1, 7)]], [8, 7])
XSIG = "run-races-external-release"

MON = ["once", "deps", "flag", "input", "dataonce", "wait", "fin", "tgtready", "sealed", "observed"]
WHAT = {"once": "a vertex processor ran (or was activated) more than once in one run",
        "deps": "a processor ran before all of its dependencies were ready (condition sealed, target sealed if it holds)",
        "flag": "dependency.ready() seen by the processor differs from 'condition holds and target sealed'",
        "input": "the value a processor read through a dependency differs from the target data's value",
        "dataonce": "a data was published more than once or its final value differs from the published one",
        "wait": "closure.wait() returned while a started vertex was still running / queued",
        "fin": "closure not finished after get() returned",
        "tgtready": "closure finished with success while a requested target was not ready",
        "sealed": "a data was already sealed (published) while its valid committer had not been released yet - "
                  "published by something other than release()/destruction of the committer, then written afterwards",
        "observed": "a processor ran before its dependency had its value: what it read differs from the data's final content"}


def gen_committer_program(rng):
    """random program over Committer<int64_t> objects on data d0, d1: N<d> M<c> A<dst>:<src> W<c>=<v> L<c> R<c> D<c> C<c>"""
    ops = []
    live = []          # indices of committers not destroyed
    n = 0
    for _ in range(3 + rng.below(10)):
        k = rng.below(10)
        if k < 2 or not live:
            ops.append("N%d" % rng.below(2))
            live.append(n)
            n += 1
        elif k < 5:
            ops.append("M%d" % rng.choice(live))
            live.append(n)
            n += 1
        elif k == 5 and len(live) >= 2:
            a = rng.choice(live)
            b = rng.choice([x for x in live if x != a])
            ops.append("A%d:%d" % (a, b))
        elif k < 8:
            ops.append("W%d=%d" % (rng.choice(live), 1 + rng.below(90)))
        elif k == 8:
            ops.append(rng.choice(["R%d", "D%d", "L%d", "R%d"]) % rng.choice(live))
            if ops[-1][0] == "D":
                live.remove(int(ops[-1][1:]))
        else:
            if rng.chance(1, 4):
                ops.append("C%d" % rng.choice(live))
            else:
                ops.append("W%d=%d" % (rng.choice(live), 1 + rng.below(90)))
    for c in live:
        ops.append("D%d" % c)
    return ",".join(ops)


def parse_cycle(s):
    f = dict(x.split("=", 1) for x in s.split())
    ran = {}
    if f.get("ran"):
        for item in f["ran"].split(";"):
            v, ins = item.split(":")
            ran[int(v)] = ins
    vals = f["vals"].split(",")
    act = set(int(x) for x in f.get("act", "").split(",") if x)
    return int(f["code"]), vals, ran, act, f.get("inj", "")


def check_cycle(chk, rep, cyc, graph, presets, inj_threads, targets, s, yinj=False):
    """monitors that need the reference interpreter; returns a key describing the observed behaviour"""
    code, vals, ran, act, inj = parse_cycle(s)
    injects = dict((d, v) for th in inj_threads for (d, v, _) in th)
    env, info, exp = expectations(graph, dict(presets), injects, targets)
    lo_act, lo_err = exp["lo"]
    hi_act, hi_err = exp["hi"]
    tag = "cycle %d: " % cyc
    if code == 12345:
        chk.violate("mon-noreturn", tag + "run()/get() did not return a code", rep)
        return None
    if lo_err and code == 0:
        chk.violate("mon-code-missed-error", tag + "sequential evaluation fails (failing vertex / missing input) but the "
                    "closure reports success: " + s, rep)
    if not hi_err and code != 0:
        chk.violate("mon-code-spurious-error", tag + "sequential evaluation succeeds but the closure reports an error: " + s,
                    rep)
    for v in ran:
        if v not in hi_act:
            chk.violate("mon-unneeded-ran", tag + "vertex %d is not needed by the targets but its processor ran: %s" % (v, s),
                        rep)
        st = info.get(v, (None, "blocked"))
        if st[1] in ("skip", "blocked"):
            chk.violate("mon-ran-skippable", tag + "vertex %d ran although an essential dependency fails / a dependency "
                        "can never be ready: %s" % (v, s), rep)
        elif st[0] is not None:
            want = ",".join("N" if x is None else "%d" % x for x in st[0])
            if want != ran[v]:
                chk.violate("mon-inputs", tag + "vertex %d saw inputs [%s], sequential evaluation gives [%s]: %s" %
                            (v, ran[v], want, s), rep)
    for v in act:
        if yinj:
            break      # targets injected concurrently can finish the closure early; vertices skipped after the finish flush
            #            empty data, which may activate (never run) vertices the sequential evaluation does not need
        if v not in hi_act:
            chk.violate("mon-unneeded-activated", tag + "vertex %d is not needed by the targets but was activated: %s" % (v, s),
                        rep)
    if code == 0:
        for t in targets:
            want = env.get(t)
            got = vals[t] if t < len(vals) else "U"
            if want is None or str(want) != got:
                chk.violate("mon-value", tag + "target d%d holds %s, sequential evaluation gives %s: %s" % (t, got, want, s),
                            rep)
        for v in lo_act:
            if info[v][1] == "run" and v not in ran:
                chk.violate("mon-needed-not-run", tag + "vertex %d is needed by the targets but never ran on a successful "
                            "run: %s" % (v, s), rep)
    return (code, tuple(sorted(ran.items())), tuple(vals))


def main(argv):
    chk = Check("C05", argv)
    thorough = chk.tier == "thorough"
    chk.translate(["anyflow"])
    chk.log("translated")
    chk.coq("Properties_C05.v")
    chk.log("coq done")
    model = chk.extract("af", "Extract_af.v", "af_driver.ml", explorer=True)
    chk.log("model extracted")
    lib = chk.repolib_all()
    impl = chk.build_cpp("c05_anyflow", [os.path.join(VERIF, "harness/conc/c05_anyflow.cpp"),
                                         os.path.join(VERIF, "harness/shim/dsched.cpp")],
                         objs=[lib], flags=["-fno-access-control"], ldflags=["-ldl"]) if lib else None
    chk.log("harness built")
    rng = chk.rng
    cases = []
    replay_unit = None
    if chk.replay:
        r = json.load(open(chk.replay))["replay"]
        if r.get("unit"):
            replay_unit = r
        else:
            rp = Var([[tuple(p) for p in v] for v in r["presets"]]) if r.get("variants") else [tuple(p) for p in r["presets"]]
            rt = Var(r["targets"]) if r.get("variants") else r["targets"]
            cases = [("r0", r["seed"], r["strategy"], r["exec"], r["cycles"], [tuple([f, [tuple(d) for d in ds], es]) for f, ds, es in r["graph"]],
                     rp, [[tuple(x) for x in th] for th in r["injects"]], rt)]
    else:
        ngraph, nsched = (300, 6) if not thorough else (1500, 14)
        for gi in range(ngraph):
            graph, presets, targets, nd = gen_late(rng) if gi % 4 == 3 else gen_case(rng, big=gi % 3 == 0)
            for si in range(nsched):
                pres, inj = gen_injects(rng, graph, presets, targets, nd) if si % 2 == 1 else (presets, [])
                ex = ["I", "P1", "P2", "P3", "P2", "I"][si % 6] if gi % 4 != 3 else ["P2", "P3", "P1", "P2", "P3", "I"][si % 6]
                strat = [0, 3, 0, 1, 3, 0][si % 6]
                cycles = 2 if si % 3 == 0 else 1
                tg = targets
                if si % 3 == 0 and gi % 2 == 0 and not inj:
                    pres, tg, cycles = gen_variants(rng, graph, presets, targets)
                if inj and gi % 15 == 2 and si in (1, 3):
                    ex, cycles = (ex if ex != "I" else "P2") + "x", 1      # run() races the injector's release()
                cases.append(("g%d.%d" % (gi, si), rng.below(1 << 31), strat, ex, cycles, graph, pres, inj, tg))
        for k in range(40 if not thorough else 300):
            graph, pv, tv, n = gen_reset_case(rng)
            cases.append(("r%d" % k, rng.below(1 << 31), [0, 3][k % 2], ["I", "P2", "I", "P1"][k % 4], n, graph, pv, [], tv))
    if not chk.replay:
        cases.append(XDIR)
        # 'y' cases: requested targets (not the last one by preference) are emitted by another thread concurrently with
        # run(); value = the sequential value (whoever wins the acquire publishes the same content), producer-less
        # targets keep their preset value
        ybase = [c for c in cases if not c[3].endswith("x") and not isinstance(c[8], Var) and len(c[8]) >= 2 and not c[7]]
        ny = 60 if not thorough else 400
        for c in ybase[:: max(1, len(ybase) // ny)][:ny]:
            cid, seed, strat, ex, cycles, graph, presets, inj, targets = c
            env, _ = ref_eval(graph, dict(presets))
            trivial_emits = set(d for fl, _, em in graph if "t" in fl for d in em)
            produced = set(d for _, _, em in graph for d in em)
            # only targets that have a producer: a producer-less target that arrives too late makes run() fail by design
            # ("no producer"), and emitting it after the failed run touches the dead closure (class of the known finding)
            cand = [t for t in targets[:-1] if t in env and t in produced and t not in trivial_emits] or \
                   [t for t in targets if t in env and t in produced and t not in trivial_emits]
            if not cand:
                continue
            hit = [cand[rng.below(len(cand))]]
            if len(cand) > 1 and rng.chance(1, 3):
                hit = cand[:2]
            pres = [p for p in presets if p[0] not in hit]
            threads = [[(t, env[t], rng.below(14))] for t in hit]
            cases.append(("y" + cid, rng.below(1 << 31), [0, 3, 0, 1][len(cases) % 4], (ex if ex != "I" else ["I", "P2"][len(cases) % 2]) + "y", 1,
                          graph, pres, threads, targets))
    lines = []
    xlines = []          # 'x' mode: one driver process per case, run last (a crash there cannot touch any other case)
    meta = {}
    for c in cases:
        (xlines if c[3][-1] in "xy" else lines).append(case_line(*c))
        meta[c[0]] = c
    # unit cases: the real GraphVertex::activate against the real release() of its condition / target, 3 threads
    ucfg = {"u11": ("1", "1", "-:1?0:2", "0=1", "1=7"), "u10": ("1", "0", "-:1!0:2", "0=1", "1=7"),
            "u10e": ("1", "0", "-:1?0:2", "0=E", "1=7"), "u00": ("0", "0", "-:1:2", None, "1=7"),
            "u11u": ("1", "1", "-:1!0:2", "0=0", "1=E")}
    ulines = []
    umeta = {}
    if replay_unit:
        ulines.append(replay_unit["line"])
        umeta[replay_unit["line"].split()[0]] = tuple(replay_unit["cfg"])
    if not chk.replay:
        nu = 150 if not thorough else 1000
        for name, (hc, ho, g, cinj, tinj) in sorted(ucfg.items()):
            for k in range(nu):
                d1, d2 = rng.below(12), rng.below(12)
                inj = "|".join(x for x in [cinj and "%s@%d" % (cinj, d1), "%s@%d" % (tinj, d2)] if x)
                cid = "%s.%d" % (name, k)
                ulines.append("%s %d %d U 1 %s - %s 2" % (cid, rng.below(1 << 31), [0, 3, 1][k % 3], g, inj))
                umeta[cid] = (name, hc, ho)
        # directed at the window "target's decrement between the condition releaser's fetch_sub and its _established
        # store" (the driver makes check_established() a scheduling point): condition holds, both released right after
        # the activation, close to each other
        for k in range(nu):
            cid = "u11d.%d" % k
            ulines.append("%s %d %d U 1 -:1?0:2 - 0=1@%d|1=7@%d 2" % (cid, rng.below(1 << 31), [3, 0][k % 2], 2 + k % 5, 2 + (k // 5) % 5))
            umeta[cid] = ("u11", "1", "1")
    klines = []
    if not chk.replay:
        for k in range(150 if not thorough else 1500):
            klines.append("k%d 0 0 K 1 -:0,1:2 - - %s" % (k, gen_committer_program(rng)))
    elif replay_unit and replay_unit.get("kline"):
        klines.append(replay_unit["kline"])
        ulines = []
    ulines = ulines + klines
    chk.log("%d graph cases, %d unit cases, %d committer programs, %d cases where run() races an external release" % (len(lines), len(ulines) - len(klines), len(klines), len(xlines)))
    if os.environ.get("C05_DUMP"):
        open(os.environ["C05_DUMP"], "w").write("\n".join(lines + ulines + xlines) + "\n")
    impl_out = chk.run_cases(impl, lines + ulines, timeout=900) if impl else {}
    if impl and xlines:
        impl_out.update(chk.run_cases(impl, xlines, timeout=900, jobs=len(xlines)))
    lines = lines + xlines
    model_out = {}
    dep_sets = {}
    if model:
        mlines = []
        for c in cases:
            if isinstance(c[6], Var):
                for k in range(c[4]):
                    mlines.append(case_line(c[0] + "@%d" % k, c[1], c[2], c[3], 1, c[5], variant(c[6], k), c[7], variant(c[8], k)))
            else:
                mlines.append(case_line(*c))
        model_out = chk.run_cases(model, mlines + klines + ["B2 B 2", "B3 B 3"] +
                                  ["D%s%s D %s %s" % (hc, ho, hc, ho) for hc, ho in (("1", "1"), ("1", "0"), ("0", "0"))],
                                  timeout=900)
        for k in ("D11", "D10", "D00"):
            l = model_out.get(k, "")
            if "outcomes=" not in l or "trunc=false" not in l or "stuck" in l:
                chk.broke("correspondence", "dependency protocol exploration " + k, l)
            else:
                dep_sets[k] = set(l.split("outcomes=", 1)[1].split(";"))
                chk.cov["states"] = chk.cov.get("states", 0) + int(l.split("states=")[1].split()[0])
                chk.cov["transitions"] = chk.cov.get("transitions", 0) + int(l.split("trans=")[1].split()[0])
        for k in ("B2", "B3"):
            l = model_out.get(k, "")
            if "early=false" not in l or "unfinished=false" not in l or "trunc=false" not in l:
                if "early=true" in l:
                    chk.violate("model-early-finish", "the bind machine (run() binding %s targets against their releasers, bind "
                                "steps in the source's order) reaches a state where the closure is finished with success "
                                "before every requested target is sealed: %s" % (k[1], l), {"level": "model", "line": k})
                else:
                    chk.broke("correspondence", "bind machine exploration " + k, l)
            else:
                chk.cov["states"] = chk.cov.get("states", 0) + int(l.split("states=")[1].split()[0])
                chk.cov["transitions"] = chk.cov.get("transitions", 0) + int(l.split("trans=")[1].split()[0])
    distinct = set()
    validated = 0
    kids = set(x.split()[0] for x in klines)
    for cid, l in impl_out.items():
        if cid in kids:
            kline = [x for x in klines if x.split()[0] == cid][0]
            rep = {"unit": True, "kline": kline, "line": kline, "cfg": ["k", "0", "0"], "impl_line": l}
            parts = l.split(" | ")
            if len(parts) != 3:
                chk.violate("crash", "committer program crashed: " + l[:300], rep)
                continue
            mon = dict(x.split("=") for x in parts[2].split())
            if mon.get("pubmove") != "1":
                chk.violate("mon-publish-at-move", "a data was published by a move construction of its committer (program %s): %s"
                            % (kline.split()[-1], parts[1]), rep)
            if mon.get("late") != "1":
                chk.violate("mon-write-after-publish", "a data's content was written after it had been published (program %s): %s"
                            % (kline.split()[-1], parts[1]), rep)
            ml = model_out.get(cid)
            if ml:
                validated += 1
                mstr = " ".join(ml.split()[1:3])
                if mstr != parts[1].strip():
                    chk.broke("correspondence", "AFModel committer machine vs implementation on program " + kline.split()[-1],
                              "impl:  %s\nmodel: %s" % (parts[1].strip(), mstr))
            distinct.add(("k", kline.split()[-1].translate(str.maketrans("", "", "0123456789")), parts[1].count("-")))
            continue
        if cid in umeta:
            name, hc, ho = umeta[cid]
            rep = {"unit": True, "cfg": [name, hc, ho], "line": [x for x in ulines if x.split()[0] == cid][0], "impl_line": l}
            if l.startswith("DSCHED-STUCK") or l.startswith("CRASH"):
                chk.violate("unit-" + ("stuck" if l.startswith("DSCHED") else "crash"),
                            "GraphVertex::activate against concurrent release(): " + l[:300], rep)
                continue
            parts = l.split(" | ")
            out = parts[1].strip().replace("unit=", "") if len(parts) == 3 else "?"
            n = out.split("/")[0]
            if n != "1":
                chk.violate("unit-notified-%s" % ("twice" if n not in ("0", "?") else "never"),
                            "one dependency, activator x condition releaser x target releaser: the vertex was invoked "
                            "%s times (notified/_ready/_waiting_num = %s)" % (n, out), rep)
            want_ready = "1" if name in ("u11", "u00", "u11u") else "0"
            if out.split("/")[1:2] != [want_ready]:
                chk.violate("unit-ready-flag", "dependency._ready = %s, expected %s (%s)" % (out.split("/")[1:2], want_ready, out), rep)
            mon = dict(x.split("=") for x in parts[2].split()) if len(parts) == 3 else {}
            for m in ("once", "deps", "flag", "input"):
                if mon.get(m) != "1":
                    chk.violate("mon-" + m, WHAT[m] + " (unit case): " + l, rep)
            key = "D" + hc + ho
            if key in dep_sets:
                validated += 1
                if out not in dep_sets[key]:
                    chk.broke("correspondence", "AFModel DEP does not admit outcome %s of %s" % (out, name),
                              "impl: %s\nmodel outcomes: %s" % (l, sorted(dep_sets[key])))
            distinct.add((name, out))
            continue
        _, seed, strat, ex, cycles, graph, presets, inj, targets = meta[cid]
        rep = {"seed": seed, "strategy": strat, "exec": ex, "cycles": cycles, "graph": graph, "presets": presets,
               "injects": inj, "targets": targets, "variants": isinstance(presets, Var), "line": case_line(*meta[cid]), "impl_line": l}
        if l.startswith("DSCHED-STUCK"):
            kind = "deadlock" if "deadlock" in l.split()[1] else "livelock"
            chk.violate("stuck-" + kind, "the run never terminates (%s): closure not finished / wait() never returns: %s" %
                        (kind, l[:400]), rep)
            continue
        if l.startswith("CRASH"):
            chk.violate("crash", "implementation crashed under schedule: " + l[:300], rep)
            continue
        parts = l.split(" | ")
        if len(parts) != 3:
            chk.broke("harness", "unparsable driver line", l)
            continue
        if ex[-1] in "xy":
            # the one known cause: the closure finished with an error although the sequential evaluation succeeds, at a
            # moment when an external emit() had sealed its data but not yet returned (xp=1); the late release then
            # invokes vertices on the flushed / destroyed closure (xl=1, crash).  Anything else goes through the
            # ordinary monitors below.
            _, _, xexp = expectations(graph, dict(presets), dict((d, v) for th in inj for (d, v, _) in th), targets)
            racy = False
            for s_ in parts[1].split("#"):
                f_ = dict(x.split("=", 1) for x in s_.split() if "=" in x)
                if f_.get("xp") == "1" and f_.get("code") != "0" and not xexp["hi" if ex.endswith("y") else "lo"][1]:
                    racy = True
                if f_.get("xp") == "1" and f_.get("crash"):
                    racy = True      # the closure finished with an error (expected or not) while an external emit was in
                    #                  flight and is gone; the late release then touches it: same root cause
                if f_.get("crash") and f_.get("code") == "0" and f_.get("tr") == "0":
                    chk.violate("mon-tgtready", WHAT["tgtready"] + " (then crashed): " + parts[1][:300], rep)
            if racy:
                chk.violate(XSIG, "run() started while another thread was still inside emit()/release() of an input: the "
                            "closure finished with -1 although the sequential evaluation succeeds (vertex count reached 0 "
                            "with the release in flight); the late release then invokes vertices on the flushed closure "
                            "(after wait() returned / crash): " + parts[1][:300], rep)
                distinct.add((fmt_graph(graph), "racy"))
                continue
            if "crash=" in parts[1]:
                chk.violate("crash", "implementation crashed under schedule: " + parts[1][:300], rep)
                continue
        mon = dict(x.split("=") for x in parts[2].split())
        for m in MON:
            if mon.get(m) != "1":
                chk.violate("mon-" + m, WHAT[m] + ": " + parts[1], rep)
        keys = []
        for cyc, s in enumerate(parts[1].split("#")):
            keys.append(check_cycle(chk, rep, cyc, graph, variant(presets, cyc), inj, variant(targets, cyc), s, yinj=ex.endswith("y")))
        distinct.add((fmt_graph(graph), tuple(keys)))
        # correspondence with the extracted model (sequential evaluation + demand analysis of AFModel)
        ml = model_out.get(cid + "@0" if isinstance(presets, Var) else cid)
        if ml and " code=" in ml:
            validated += 1
            for cyc, s in enumerate(parts[1].split("#")):
                code, vals, ran, act, _ = parse_cycle(s)
                if isinstance(presets, Var):
                    ml = model_out.get("%s@%d" % (cid, cyc), "")
                    if " code=" not in ml:
                        chk.broke("correspondence", "model driver produced no line for %s@%d" % (cid, cyc), ml)
                        break
                targets_c = variant(targets, cyc)
                mf = dict(x.split("=", 1) for x in ml.split()[1:])
                mran = dict((int(a.split(":")[0]), a.split(":")[1]) for a in mf.get("ran", "").split(";") if a)
                mvals = mf["vals"].split(",")
                macts = set(int(x) for x in mf.get("acts", "").split(",") if x)
                diff = None
                ycase = ex.endswith("y")     # concurrently injected targets: the model takes them as given from the start; an
                #                              error (injection too late) and extra runs of their producers are admissible
                if ycase and code != 0:
                    pass
                elif ycase:
                    if any(t < len(vals) and vals[t] != mvals[t] for t in targets_c):
                        diff = "target values %s, model %s" % ([vals[t] for t in targets_c], [mvals[t] for t in targets_c])
                    elif any(v not in ran for v in mran):
                        diff = "processors run %s, model needs %s" % (sorted(ran), sorted(mran))
                    elif any(v in mran and mran[v] != ran[v] for v in ran):
                        diff = "inputs seen %s, model %s" % (sorted(ran.items()), sorted(mran.items()))
                elif (code == 0) != (mf["code"] == "0"):
                    diff = "closure code %d, model expects %s" % (code, mf["code"])
                elif code == 0 and any(t < len(vals) and vals[t] != mvals[t] for t in targets_c):
                    diff = "target values %s, model %s" % ([vals[t] for t in targets_c], [mvals[t] for t in targets_c])
                elif code == 0 and ran != mran:
                    diff = "processors run with inputs %s, model %s" % (sorted(ran.items()), sorted(mran.items()))
                elif any(v not in macts for v in list(ran) + list(act)):
                    diff = "activated/ran %s, model activates only %s" % (sorted(set(ran) | act), sorted(macts))
                elif any(v in mran and mran[v] != ran[v] for v in ran):
                    diff = "inputs seen %s, model %s" % (sorted(ran.items()), sorted(mran.items()))
                if diff:
                    chk.broke("correspondence", "AFModel (sref/needed) vs implementation on %s" % case_line(*meta[cid]),
                              "cycle %d: %s\nimpl:  %s\nmodel: %s" % (cyc, diff, s, ml))
                    break
        elif model:
            chk.broke("correspondence", "model driver produced no line for " + cid, str(ml))
    chk.cov["evaluations"] = len(lines) + len(ulines)
    chk.cov["distinct_nontrivial"] = len(distinct)
    chk.cov["traces_validated_against_impl"] = validated
    chk.cov["rule"] = ("graph case = (random DAG in topological order: 1-8 vertices, 0-3 dependencies each, plain / on / "
                       "unless / essential, 1-2 emits, boolean and failing processors, trivial vertices; presets incl. empty "
                       "and missing inputs; 1-3 requested targets; executor inplace or 1-3 workers picking queued run tasks in "
                       "random order; optional injector threads; 1-3 run/reset cycles of the same graph instance, in a third of "
                       "the multi-cycle cases with a different target set and different input values per cycle (plus directed "
                       "cases: a conditional vertex left un-activated in one cycle while its condition is published, activated "
                       "in the next with the condition not holding); schedule seed; strategy uniform / "
                       "round-robin+pre-emption / PCT).  publication through Committer<T> in place / moved / move-assigned / explicit release / deferred in a spawned "
                       "thread.  'y' case = a graph case with >= 2 targets where one or two requested "
                       "targets (preferably not the last) are emitted by extra threads concurrently with run(), one process "
                       "per case.  committer program = random sequence of construct / move-construct / move-assign / write / "
                       "clear / release / destroy / cancel on two data, compared op-for-op with the extracted machine.  "
                       "unit case = one vertex with one (conditional) dependency, "
                       "GraphVertex::activate in one thread against release() of condition and target in two others.  "
                       "distinct non-trivial = distinct (graph, observed outcome per cycle) resp. (unit config, outcome). "
                       "Every graph case is also evaluated by the extracted model (sequential evaluation, demand set, "
                       "expected error) and must agree; every unit outcome must be in the exhaustively explored outcome set "
                       "of the extracted dependency machine")
    ids = sorted(impl_out)
    for cid in ids[:: max(1, len(ids) // 5)]:
        chk.sample({"case": cid, "impl": impl_out[cid][:400], "model": model_out.get(cid, "")[:300]})
    chk.cov["trusted_base"] = chk.cov.get("trusted_base", []) + [
        "translator/gen.py", "ExtrOcamlBasic extraction + ocaml/explore.ml + ocaml/af_driver.ml",
        "harness/shim (verif_atomic.h macro shim, dsched.cpp), harness GraphExecutor (task queue + worker threads)",
        "refinement of the event-level engine model by the atomic-level machines: machine-checked per vertex (invoke "
        "guard, closure finish/flush guards); the whole-graph composition (activation stacks, EAct/EDepTrig/ERel) is "
        "tied by outcome correspondence only",
        "modelled not verified: babylon::Any, Promise/Future used by ClosureContext (C08), absl::InlinedVector"]
    chk.assumptions = ["sequentially consistent interleavings at atomic-operation granularity (weak-memory effects are "
                       "covered only by the memory-order obligations on the regenerated site table)",
                       "graphs are acyclic, every data has at most one producer, no mutable dependencies / channels",
                       "external emitters have returned from emit before run() starts (the closure accounting does not "
                       "cover a release() in flight on another thread: known finding run-races-external-release, exercised by "
                       "the 'x' cases)",
                       "fewer than 2^64 dependencies per vertex"]
    chk.finish("proof")
