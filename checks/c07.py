"""C07 — Executors: an accepted task runs exactly once; stop() drains submitted work."""
import hashlib
import json
import os
import threading
import vlib
from vlib import Check, VERIF, REPO

META = {
    "engine": "E1+E2+E3+E4",
    "text": "Coq theorems over an executable interleaving model of ThreadPoolExecutor (external submitters, workers: own "
            "local queue -> steal -> blocking global pop, balance thread, stop: join balancer / one STOP marker per worker "
            "/ join workers, enqueue_task: owner-only local push below capacity, its result tested by the regenerated "
            "execute()/submit() failure test) on top of an abstract ticket queue (exactly-once delivery in ticket order, "
            "bounded capacity with blocking push - what C01 establishes), for every worker count, capacity, "
            "stealing/balancing setting, client program, task graph and schedule: c07_run_once - a task starts at most "
            "once, only if its submission was accepted, and only on a worker thread (inside the executor's RunnerScope); "
            "c07_failed_never_runs - a submission that reported failure never starts (the pool never refuses); "
            "c07_stop_drains - when stop() has returned every task whose submission returned before stop() was called "
            "and every task pushed into a local queue has finished (its future is ready); c07_no_deadlock / "
            "c07_stop_makes_progress - no reachable deadlock, stop() cannot get stuck, under the usage rules "
            "queue_cannot_fill (the global queue has room for every push ticket the programs can take: excludes a task "
            "blocked in push on a full queue only its own worker could drain), one_joiner, some_stop.  Small models with "
            "theorems for InplaceExecutor (c07_inplace: each submission, re-entrant ones included, runs exactly once "
            "inside the caller, inside a RunnerScope of that executor, before invoke returns 0; caller's scope restored) "
            "and AlwaysUseNewThreadExecutor (c07_newthread_*: one dedicated thread per task, each starts one task, in "
            "scope; join()/destructor returns only on _running == 0 and then every accepted task and everything it "
            "spawned has finished).  c07_nested_scopes_restore_running_in (EXScope): for every well-bracketed tree of "
            "nested RunnerScopes of other executors opened inside a task of executor e the thread reports e again "
            "afterwards and at every point the current executor is the innermost scope's (regenerated: the constructor "
            "remembers BasicExecutor::current(), the destructor writes it back).  The models read the regenerated source facts: every decision expression of "
            "executor.cpp, the statement order of stop() (_running cleared, balancer joined, marker loop, worker joins), "
            "of InplaceExecutor::invoke and of AlwaysUseNewThreadExecutor::invoke/join, results of enqueue_task/invoke, "
            "memory orders; changing any of them re-opens a lemma the theorems rest on.  Tie: the real executors "
            "(executor.cpp compiled through the atomic shim, worker/balance threads created by start() under the "
            "deterministic scheduler, incl. spurious futex returns) run the same programs; for small programs every run "
            "order must be one the exhaustively explored extracted pool model admits; monitors check the property text "
            "directly on every run (run counters, is_running_in() inside tasks, drain and future readiness at stop() "
            "return, refused submissions, stop() never returning) for pool, inplace, new-thread and refusing executors.",
    "note": "Liveness is 'no reachable deadlock' (some thread can always move until everything is done) under the named "
            "usage rules; turning it into 'stop() eventually returns' needs a fair scheduler (standard argument, not "
            "mechanised).  Without queue_cannot_fill the statement is false by design (self-blocking push); generated "
            "task graphs that push to the global queue from workers therefore get a capacity that cannot fill, and tiny "
            "capacities are exercised with external submitters only.  The InplaceExecutor / AlwaysUseNewThreadExecutor "
            "models are tied to the source by the translator facts and by the monitors, not by an outcome-set "
            "comparison.  Usage rules in the theorems: at least one worker (drain), every task id submitted at one "
            "place only (run-once), one start()/stop() cycle.  The queue is abstract in the pool model (composition "
            "with C01 by its statement).  Trusted: Coq kernel; translator (incl. the statement-order kind 'order'); "
            "extraction + OCaml explorer; macro shim and dsched (sequentially consistent interleavings only).",
}


def bit_ceil(n):
    p = 1
    while p < n:
        p *= 2
    return p


def split_threads(rng, items, nt):
    ths = [[] for _ in range(nt)]
    for it in items:
        ths[rng.below(nt)].append(it)
    return [t for t in ths if t]


def gen_full(rng, small):
    """class A: tiny global capacity (queue-full blocking of external submitters); workers never push to the global
    queue (leaf children only, never more than local_capacity per root: a root is obtained with an empty own local
    queue); stop()/destructor after every submitter finished."""
    nw = 1 + rng.below(2 if small else 3)
    gcap = rng.choice([1, 1, 2])
    lcap = rng.choice([0, 1, 2, 2])
    steal = rng.below(2)
    bal = rng.choice([0, 0, 1, 3]) if (not small or nw == 1) else 0
    nroots = 2 + rng.below(2 if small else 7)
    bodies, roots = [], []
    for _ in range(nroots):
        roots.append(len(bodies))
        bodies.append([])
        k = rng.below(lcap + 1) if not (small and len(bodies) >= 3) else 0
        me = roots[-1]
        for _ in range(k):
            if small and len(bodies) >= 4:
                break
            bodies[me].append(len(bodies))
            bodies.append([])
    ops = ["s%d" % r for r in roots]
    if rng.chance(1, 3):
        ops.insert(rng.below(len(ops) + 1), "W")
    ths = split_threads(rng, ops, 1 + rng.below(2 if small else 3))
    ths.append(["J", rng.choice(["X", "X", "D"])])
    return nw, gcap, lcap, steal, bal, bodies, ths


def gen_graph(rng, small):
    """class B: task graphs of depth <= 3, stop() racing with submitters and running tasks; the global queue is
    large enough never to fill (a worker blocked in push on a full queue that only it could drain is a usage error,
    not the property)."""
    nw = 1 + rng.below(2 if small else 3)
    lcap = rng.choice([0, 1, 1, 2, 3])
    steal = rng.below(2)
    bal = rng.choice([0, 0, 1, 2]) if (not small or nw == 1) else 0
    ntasks = 2 + rng.below(2 if small else 8)
    bodies = [[] for _ in range(ntasks)]
    depth = [0] * ntasks
    roots = []
    for i in range(ntasks):
        cands = [j for j in range(i) if depth[j] < 2]
        if i == 0 or not cands or rng.chance(2, 5):
            roots.append(i)
        else:
            p = rng.choice(cands)
            bodies[p].append(i)
            depth[i] = depth[p] + 1
    ops = ["s%d" % r for r in roots]
    nwake = 0
    if rng.chance(1, 3):
        ops.insert(rng.below(len(ops) + 1), "W")
        nwake = 1
    ths = split_threads(rng, ops, 1 + rng.below(2 if small else 3))
    mode = rng.below(3)
    if mode == 0:
        ths.append(["X"])                                  # racing with everything
    elif mode == 1:
        t = rng.below(len(ths))
        ths[t].insert(1 + rng.below(len(ths[t])), "X")      # after at least one submission of that thread
    else:
        ths.append(["J", "X"])
    gcap = bit_ceil(2 * ntasks + nw + nwake + 1)
    return nw, gcap, lcap, steal, bal, bodies, ths


def gen_straddle(rng):
    """class C: 3-4 workers whose thread ids straddle a 128-id storage block of _local_task_queues (the driver parks
    126 padding threads, env C07_PAD), stealing on, tasks that spawn several children into their local queue while
    other workers are idle thieves: for_each then invokes the stealing callback once per block."""
    nw = 3 + rng.below(2)
    lcap = 1 + rng.below(3)
    nroots = 2 + rng.below(3)
    bodies, roots = [], []
    for _ in range(nroots):
        me = len(bodies)
        roots.append(me)
        bodies.append([])
        for _ in range(1 + rng.below(lcap + 1)):
            bodies[me].append(len(bodies))
            bodies.append([])
    ops = ["s%d" % r for r in roots]
    for _ in range(rng.below(3)):
        ops.insert(rng.below(len(ops) + 1), "W")
    ths = split_threads(rng, ops, 1 + rng.below(2))
    ths.append(["J", "X"] if rng.chance(2, 3) else ["X"])
    gcap = bit_ceil(2 * len(bodies) + nw + 4)
    return nw, gcap, lcap, 1, 0, bodies, ths


def fmt_bodies(bodies):
    return ";".join(".".join(str(c) for c in b) if b else "-" for b in bodies)


def fmt_threads(ths):
    return "|".join(",".join(t) for t in ths)


MON = ["once", "drain", "ready", "scope", "failed", "value", "quiet", "inplace"]
WHAT = {
    "once": "a task ran more than once, or a task accepted before stop() did not run exactly once",
    "drain": "stop() returned before a task accepted before stop() (or spawned by such a task into a local queue) finished",
    "ready": "at stop() return the future of a task accepted before stop() was not ready",
    "scope": "a task ran on a thread that does not report is_running_in() for its executor (or reports another executor)",
    "failed": "a refused / never made submission ran, or a refused execute() returned a valid future",
    "value": "a future does not carry the callable's result (or is ready although the task never ran)",
    "quiet": "a task was still running or started after stop() returned",
    "inplace": "InplaceExecutor did not run the task exactly once before submit returned",
}


def main(argv):
    chk = Check("C07", argv)
    thorough = chk.tier == "thorough"
    chk.translate(["executor"])
    built = {}

    def build():
        # the four translation units are compiled in parallel and incrementally (object + .d file per unit)
        # object cache per source tree: the .d files name absolute header paths
        d = os.path.join(vlib.BUILD, "c07obj" if REPO == "/repo" else "c07obj-" + hashlib.md5(REPO.encode()).hexdigest()[:8])
        os.makedirs(d, exist_ok=True)
        srcs = [os.path.join(VERIF, "harness/conc/c07_executor.cpp"), os.path.join(REPO, "src/babylon/executor.cpp"),
                os.path.join(REPO, "src/babylon/basic_executor.cpp"), os.path.join(VERIF, "harness/shim/dsched.cpp")]
        objs, errs = [], []

        def cc(src, obj):
            cmd = [vlib.CXX] + vlib.CXXFLAGS + ["-I" + os.path.join(VERIF, "harness"), "-fno-access-control", "-include",
                                                "shim/prelude.h", "-MMD", "-c", src, "-o", obj]
            rc, out, err = vlib.sh(cmd, timeout=900)
            if rc != 0:
                errs.append(err[-3000:])
        ths = []
        for src in srcs:
            obj = os.path.join(d, os.path.basename(src).replace(".cpp", ".o"))
            objs.append(obj)
            if Check._stale(obj, src) or os.path.getmtime(os.path.join(VERIF, "harness/shim/prelude.h")) > os.path.getmtime(obj):
                th = threading.Thread(target=cc, args=(src, obj))
                th.start()
                ths.append(th)
        for th in ths:
            th.join()
        if errs:
            chk.broke("harness", "compile c07_executor", errs[0])
            return
        built["impl"] = chk.build_cpp("c07_executor", [], objs=objs, ldflags=["-ldl"])
    bt = threading.Thread(target=build)
    bt.start()
    chk.coq("Properties_C07.v")
    model = chk.extract("ex", "Extract_ex.v", "ex_driver.ml", explorer=True)
    bt.join()
    impl = built.get("impl")
    rng = chk.rng
    progs = []   # (pid, kind, params-string, bodies, threads, small)
    if chk.replay:
        r = json.load(open(chk.replay))["replay"]
        progs = [(("q0" if r.get("pad") else "r0"), r["kind"], r["params"], r["bodies"], r["threads"], r.get("small", False))]
        scheds = [(r["seed"], r["strategy"])]
    else:
        seen = set()
        n_small, n_big, n_deg = (36, 110, 24) if not thorough else (150, 600, 80)
        for small, n in ((True, n_small), (False, n_big)):
            got = 0
            tries = 0
            while got < n and tries < 40 * n:
                tries += 1
                g = gen_full if rng.chance(2, 5) else gen_graph
                nw, gcap, lcap, steal, bal, bodies, ths = g(rng, small)
                if small and (len(bodies) > 4 or len(ths) > 3 or sum(len(t) for t in ths) > 6):
                    continue
                key = (nw, gcap, lcap, steal, bal, fmt_bodies(bodies), fmt_threads(ths))
                if key in seen:
                    continue
                seen.add(key)
                progs.append(("p%d" % len(progs), "P", "%d %d %d %d %d" % (nw, gcap, lcap, steal, bal), fmt_bodies(bodies),
                              fmt_threads(ths), small))
                got += 1
        n_str = 18 if not thorough else 80
        for i in range(n_str):
            nw, gcap, lcap, steal, bal, bodies, ths = gen_straddle(rng)
            progs.append(("q%d" % len(progs), "P", "%d %d %d %d %d" % (nw, gcap, lcap, steal, bal), fmt_bodies(bodies),
                          fmt_threads(ths), False))
        for i in range(n_deg):
            kind = "ITF"[i % 3]
            _, _, _, _, _, bodies, ths = gen_graph(rng, False)
            ths = [[o for o in t if o[0] == "s"] for t in ths]
            ths = [t for t in ths if t] or [["s0"]]
            if kind == "T":
                ths.append(["J", "X"] if rng.chance(1, 2) else ["X"])
            progs.append(("p%d" % len(progs), kind, "0 0 0 0 0", fmt_bodies(bodies), fmt_threads(ths), False))
        # nested RunnerScopes: a pool task synchronously uses InplaceExecutor::instance() ("n") and must still report
        # is_running_in() afterwards; so must every later task on that worker, and children still go to the local queue
        for params, bodies, ths in (("1 8 2 0 0", "n;-;n.3;-", "s0,s1,s2|J,X"),
                                    ("2 8 1 1 0", "n.1.n;-;3.n;-", "s0|s2,J,D"),
                                    ("1 16 2 0 1", "1.n.2;-;n;n.4;-", "s0,s3|J,X")):
            progs.append(("p%d" % len(progs), "P", params, bodies, ths, False))
        nsched = 14 if not thorough else 60
        scheds = []
        for i in range(nsched):
            strat = [0, 3, 1, 0, 3][i % 5]
            if strat != 1 and i % 3 == 1:
                strat += 10          # futex_wait may return spuriously (EINTR / 0 without a wake)
            scheds.append((rng.below(1 << 31), strat))
    lines, meta = [], {}
    for pid, kind, params, bodies, ths, small in progs:
        for si, (seed, strat) in enumerate(scheds if kind in "PT" else scheds[:3]):
            cid = "%s.%d" % (pid, si)
            lines.append("%s %d %d %s %s %s %s" % (cid, seed, strat, kind, params, bodies, ths))
            meta[cid] = (pid, kind, params, bodies, ths, small, seed, strat)
    chk.log("%d programs, %d cases" % (len(progs), len(lines)))
    pad_lines = [l for l in lines if l.startswith("q")]
    lines_plain = [l for l in lines if not l.startswith("q")]
    impl_out = chk.run_cases(impl, lines_plain, timeout=900) if impl else {}
    if impl and pad_lines:
        env = dict(os.environ)
        env["C07_PAD"] = str(r.get("pad", 126)) if chk.replay else "126"
        impl_out.update(chk.run_cases(impl, pad_lines, timeout=900, env=env))
    model_sets = {}
    states = trans = 0
    if model:
        mlines = ["%s %s %s %s" % (pid, params, bodies, ths) for pid, kind, params, bodies, ths, small in progs
                  if small and kind == "P"]
        # model-only cases: two workers whose local queues lie in different storage blocks; every submission precedes
        # stop(), so no schedule of the model may end with an accepted task that never ran
        mblk = ["mb0 2 8 1 1 0 1;- s0,W|J,X 0/1", "mb1 2 8 2 1 0 1.2;-;- s0,W,W|J,X 0/1", "mb2 2 8 1 1 0 1;-;3;- s0,s2,W|J,X 1/0"]
        mlines = mlines + mblk
        mo = chk.run_cases(model, mlines, timeout=1800)
        for mid in ("mb0", "mb1", "mb2"):
            l = mo.pop(mid, "")
            if "outcomes=" not in l:
                chk.broke("harness", "model driver (block cases)", l[:300])
                continue
            bad = [o for o in l.split("outcomes=", 1)[1].split(";") if "norun= late=0" not in o or "STUCK" in o]
            if bad and "trunc=true" not in l:
                chk.violate("model-steal-overwrite", "the model (steal scan block by block, regenerated callback guard) admits a "
                            "schedule in which an accepted task is taken from a local queue and never runs: %s -> %s"
                            % ([m for m in mblk if m.startswith(mid)][0], bad[0]),
                            {"level": "model", "line": [m for m in mblk if m.startswith(mid)][0], "outcome": bad[0]})
        for pid, l in mo.items():
            if "outcomes=" not in l:
                chk.broke("harness", "model driver", l[:300])
                continue
            f = dict(x.split("=", 1) for x in l.split()[1:5])
            states += int(f.get("states", 0))
            trans += int(f.get("trans", 0))
            outs = l.split("outcomes=", 1)[1]
            model_sets[pid] = (set(outs.split(";")), f.get("trunc") == "true")
            if int(f.get("deadlocks", "0")) > 0 and f.get("trunc") != "true":
                chk.violate("model-deadlock", "the model admits an execution in which stop() never returns: %s" % l[:300],
                            {"level": "model", "program": l.split()[0], "line": [m for m in mlines if m.split()[0] == pid]})
    validated = 0
    distinct = set()
    for cid, l in impl_out.items():
        pid, kind, params, bodies, ths, small, seed, strat = meta[cid]
        rep = {"kind": kind, "params": params, "bodies": bodies, "threads": ths, "seed": seed, "strategy": strat,
               "small": small, "impl_line": l}
        if pid.startswith("q"):
            rep["pad"] = 126
        if l.startswith("DSCHED-STUCK"):
            k = "deadlock" if "deadlock" in l.split()[1] else "livelock"
            chk.violate("stuck-" + k, "stop()/join() never returns or a submission never completes (%s): %s" % (k, l[:400]), rep)
            continue
        if l.startswith("CRASH"):
            chk.violate("crash", "implementation crashed under schedule: " + l[:300], rep)
            continue
        parts = l.split(" | ")
        if len(parts) != 3:
            chk.broke("harness", "unparsable driver line", l)
            continue
        mon = dict(x.split("=") for x in parts[2].split())
        for m in MON:
            if mon.get(m) != "1":
                chk.violate("mon-" + m, WHAT[m] + ": %s %s %s %s -> %s" % (kind, params, bodies, ths, parts[1]), rep)
        distinct.add((pid, parts[1]))
        if small and pid in model_sets:
            outs, trunc = model_sets[pid]
            if not trunc:
                validated += 1
                if parts[1] not in outs:
                    chk.broke("correspondence", "EXModel does not admit the run order of %s %s %s" % (params, bodies, ths),
                              "impl outcome: %s\nmodel outcomes: %s" % (parts[1], sorted(outs)[:20]))
    chk.cov["evaluations"] = len(lines)
    chk.cov["distinct_nontrivial"] = len(distinct)
    chk.cov["traces_validated_against_impl"] = validated
    chk.cov["states"] = states
    chk.cov["transitions"] = trans
    chk.cov["rule"] = ("case = (executor kind, configuration, task graph, external threads, schedule seed, strategy); pool "
                       "programs: class A = global capacity 1-2 (queue-full blocking of submitters), leaf children that fit "
                       "the local queue, stop()/destructor after the submitters; class B = random task graphs of depth <= 3, "
                       "class C = 3-4 workers with thread ids straddling a 128-id storage block (126 parked padding threads), "
                       "stealing on, several local children per task; three fixed programs whose tasks synchronously call "
                       "InplaceExecutor::instance() (nested RunnerScope) and must report is_running_in() afterwards; "
                       "local capacity 0-3, stop() racing with submitters and running tasks, wakeup_one_worker; workers 1-3, "
                       "stealing on/off, balance interval unset/1-3us; strategies uniform random, round-robin with random "
                       "pre-emptions, PCT, about a third of the non-PCT schedules with spurious futex_wait returns; distinct non-trivial = distinct (program, observed run order) pairs; small "
                       "programs (<= 4 tasks, <= 2 workers) are explored exhaustively in the extracted model and every "
                       "implementation run order must be in the model's outcome set (skipped when the exploration hits the "
                       "state bound)")
    for cid in list(impl_out)[:: max(1, len(impl_out) // 5)]:
        chk.sample({"case": lines[[x.split()[0] for x in lines].index(cid)], "impl": impl_out[cid]})
    chk.cov["trusted_base"] = chk.cov.get("trusted_base", []) + [
        "translator/gen.py", "ExtrOcamlBasic extraction + ocaml/explore.ml + ocaml/ex_driver.ml",
        "harness/shim (verif_atomic.h macro shim, dsched.cpp: futex/clock/usleep/pthread interposition)",
        "abstract queue: ticket FIFO with exactly-once delivery and blocking bounded push (property C01)",
        "modelled not verified: std::thread, MoveOnlyFunction, Future/Promise (property C08), EnumerableThreadLocal"]
    chk.assumptions = ["sequentially consistent interleavings at queue-operation granularity",
                       "one start()/stop() cycle, stop() called by one thread, at least one worker",
                       "task ids are submitted at most once (each closure is a distinct task)"]
    chk.finish("proof")
