"""C18 — hash set/map: contents, size, iteration match a reference set after any history."""
import json
import os
import vlib
from vlib import Check, sh, VERIF


META = {
    "engine": "E1+E2+E3+E5",
    "text": "Coq theorems over an executable model of ConcurrentFixedSwissTable (control bytes with the mirrored "
            "group, 7-bit checker, triangular group probing, insert-if-absent, clear, rehash, reserve) and of the "
            "ConcurrentTransientHashSet/Map chain (emplace with doubling growth, find, total_size, begin/++, "
            "merge-on-clear, rebuild on reserve/rehash/copy, move, swap), for every hash function, every initial "
            "bucket count and every operation sequence over two containers: each observation (emplace result and "
            "element at the returned iterator, find, size, iteration as a permutation) equals that of an "
            "insertion-ordered reference map.  All index/mask/threshold/size expressions are regenerated from "
            "transient_hash_table.hpp on every run; model and real classes are run on the same operation sequences "
            "(5 element types incl. string and move-only, 6 hash functions incl. constant and checker-colliding) "
            "and compared observation by observation; the property text is checked directly on the real classes "
            "against std::map after every mutating operation.",
    "note": "Trusted: Coq kernel, translator (size_t arithmetic as unbounded Z; pointer-valued expressions of begin() "
            "mapped to node positions), ExtrOcamlBasic extraction + OCaml driver, C++ harness.  Modelled not "
            "verified: SIMD group load = 16 consecutive control bytes, the allocator, element construction/"
            "destruction (a destroyed slot is 'None'), ConcurrentAdder as a plain counter (sequential view; the "
            "concurrent view is C03).  c18_refines_set covers every initial capacity including the "
            "default-constructed container (placeholder head); that case was refuted and reproduced on the real "
            "classes until fix commit bf7dad8 (size()+16, iteration stopping after the first chained table) and is "
            "now an ordinary capacity for proofs, correspondence and monitors (mutant revert_default_ctor_fix).",
}

TYPES = {0: "set<uint64>", 1: "map<uint64,uint64>", 2: "set<string>", 3: "map<uint64,unique_ptr>", 4: "map<string,string>"}
CTORS = ["d", "0", "1", "16", "17", "32", "33", "64", "100"]


class Gen:
    def __init__(self, rng):
        self.r = rng

    def val(self, ty):
        return 0 if ty in (0, 2) else self.r.below(1000)

    def keyset(self, hk, n, B=16):
        """n distinct keys aimed at the hash kind: identity -> consecutive and stride-B, k*128 -> bases near the
        end of the table (window wraps into the mirror group) ..."""
        r = self.r
        mode = r.below(4)
        if hk == 2:      # base = k mod B, checker always 0
            start = [0, B - 1, B - 2, B - 15, B - 16, 2 * B - 1][r.below(6)]
            step = [1, B, 16, 3][r.below(4)] if mode else 1
        elif hk == 0:    # checker = k mod 128, base = k / 128
            start = [0, 1, 127, 128 * (B - 1), 128 * (B - 1) + 5, 128 * 15][r.below(6)]
            step = [1, 128, 128 * B, 129][r.below(4)]
        else:
            start = r.below(50)
            step = [1, 3, 128, 7][r.below(4)]
        return [start + i * step for i in range(n)]

    def queries(self, keys, ty, k):
        out = []
        for _ in range(k):
            c = self.r.below(6)
            if c == 0:
                out.append("s")
            elif c == 1:
                out.append("i")
            elif c == 2 and keys:
                out.append("f%d" % self.r.choice(keys))
            elif c == 3 and keys:
                out.append("f%d" % (self.r.choice(keys) + 1))
            elif c == 4 and keys:
                out.append("e%d:%d" % (self.r.choice(keys), self.val(ty)))   # duplicate insert
            else:
                out.append("f%d" % self.r.below(4000))
        return out

    def transform(self, ty, n):
        r = self.r
        c = r.below(12)
        if c == 0:
            return ["c"]
        if c == 1:
            return ["r%d" % r.choice([0, 1, n - 1, n, n + 1, 2 * n, 16, 17, 200])]
        if c == 2:
            return ["h%d" % r.choice([0, 1, n - 1, n, n + 1, 2 * n, 16, 17, 200]).__abs__()]
        if c == 3 and ty != 3:
            return ["ab", "sw"]
        if c == 4 and ty != 3:
            return ["ab", "c", "ba"]
        if c == 5:
            return ["sw", "mv"]
        if c == 6:
            return ["sw", "sw"]
        if c == 7:
            return ["sw", "c", "mv"] if ty == 3 else ["ab", "mv"]
        if c == 8:
            return ["c", "c"]
        if c == 9:
            return ["h%d" % max(0, n // 2), "r%d" % (n + 3)]
        if c == 10:
            return ["c", "r%d" % r.choice([1, 20, 40])]
        return ["i", "s"]

    def grow_case(self, ty, hk, ca, cb):
        """fill across the capacity boundaries of the chain, transform, look, fill again, clear, re-use"""
        r = self.r
        B = 16 if ca in ("d", "0", "1", "16") else (32 if ca in ("17", "32") else (64 if ca in ("33", "64") else 128))
        bounds = [1, 2, B - 1, B, B + 1, 2 * B, 3 * B - 1, 3 * B, 3 * B + 1, 3 * B + 2, 7 * B, 7 * B + 1]
        bounds = [b for b in bounds if b <= (130 if ty in (2, 4) else 250)]
        n = r.choice(bounds)
        keys = self.keyset(hk, n, B)
        ops = []
        for i, k in enumerate(keys):
            ops.append("e%d:%d" % (k, self.val(ty)))
            if r.chance(1, 12):
                ops += self.queries(keys[:i + 1], ty, 1)
        ops += ["s", "i"] + self.queries(keys, ty, 3)
        for _ in range(1 + r.below(3)):
            ops += self.transform(ty, n)
            ops += ["s"] + self.queries(keys, ty, 2)
            if r.chance(1, 2):
                m = r.choice([1, 3, B, B + 1, 40])
                extra = self.keyset(hk, m, B)
                ops += ["e%d:%d" % (k + r.choice([0, 0, 1000]), self.val(ty)) for k in extra]
                ops += ["s", "i"]
        ops += ["c"] + ["f%d" % k for k in keys[:6]] + ["s", "i"]
        # re-use after clear: same probe positions, other keys (stale control bytes / mirror would show here)
        again = [k + (128 * 4096 if hk == 0 else (4096 if hk == 2 else 3 * 128 * 7)) for k in keys[:min(len(keys), 40)]]
        ops += ["e%d:%d" % (k, self.val(ty)) for k in again] + ["f%d" % k for k in keys[:6]] + ["s", "i"]
        return ops

    def random_case(self, ty, hk, length):
        r = self.r
        universe = self.keyset(hk, 8 + r.below(80), 16)
        ops = []
        for _ in range(length):
            c = r.below(100)
            if c < 55:
                ops.append("e%d:%d" % (r.choice(universe), self.val(ty)))
            elif c < 65:
                ops.append("f%d" % r.choice(universe))
            elif c < 70:
                ops.append("s")
            elif c < 74:
                ops.append("i")
            elif c < 77:
                ops.append("c")
            elif c < 81:
                ops.append("r%d" % r.below(150))
            elif c < 85:
                ops.append("h%d" % r.below(150))
            elif c < 89:
                ops.append("sw")
            elif c < 92:
                ops.append("mv")
            elif c < 96:
                ops.append("ab" if ty != 3 else "sw")
            else:
                ops.append("ba" if ty != 3 else "mv")
        return ops + ["s", "i", "sw", "s", "i"]


WITNESSES = [   # regression cases of the repaired default-constructed container (fix bf7dad8)
    "def-size 0 0 d d e1:0 s",
    "def-iter 0 0 d d " + " ".join("e%d:0" % k for k in range(0, 49)) + " s i ab sw s i r200 s i",
    "def-copy 4 5 d d " + " ".join("e%d:%d" % (k, k + 1) for k in range(0, 120)) + " s i ab sw s i h0 s i c s i e7:1 s i",
]


def make_cases(chk):
    g = Gen(chk.rng)
    thorough = chk.tier == "thorough"
    lines = list(WITNESSES)
    n_grow = 2400 if thorough else 600
    n_rand = 2000 if thorough else 400
    i = 0
    for j in range(n_grow):
        ty = j % 5
        hk = (j // 5) % 6
        ca = CTORS[(j // 30) % len(CTORS)] if j % 7 else "d"
        cb = chk.rng.choice(CTORS)
        lines.append("g%d %d %d %s %s %s" % (i, ty, hk, ca, cb, " ".join(g.grow_case(ty, hk, ca, cb))))
        i += 1
    for j in range(n_rand):
        ty = chk.rng.below(5)
        hk = chk.rng.below(6)
        ca = chk.rng.choice(CTORS)
        cb = chk.rng.choice(CTORS)
        lines.append("r%d %d %d %s %s %s" % (i, ty, hk, ca, cb,
                                             " ".join(g.random_case(ty, hk, 40 + chk.rng.below(160 if thorough else 90)))))
        i += 1
    return lines


MONS = [("mon_size", "size", "size() differs from the number of distinct keys inserted since the last clear"),
        ("mon_iter", "iter", "iteration does not visit each element exactly once"),
        ("mon_find", "find", "find fails for an inserted key"),
        ("mon_value", "value", "mapped value is not the first one inserted"),
        ("mon_absent", "absent", "find succeeds for a key that was not inserted since the last clear"),
        ("mon_emplace", "emplace", "emplace reports the wrong insertion result / element")]


def main(argv):
    chk = Check("C18", argv)
    chk.translate(["hash_table"])
    chk.coq("Properties_C18.v")
    model = chk.extract("hs", "Extract_hs.v", "hs_driver.ml")
    lib = chk.repolib_all()
    impl = chk.build_cpp("c18_hash_table", [os.path.join(VERIF, "harness/seq/c18_hash_table.cpp")], objs=[lib]) if lib else None
    if chk.replay:
        lines = [json.load(open(chk.replay))["replay"]["line"]]
    else:
        lines = make_cases(chk)
    chk.log("%d cases" % len(lines))
    by_id = {l.split()[0]: l for l in lines}
    impl_out = {}
    if impl:
        # canary: if the real container hangs/crashes on several of the first cases, do not grind through the rest
        canary = lines[:48]
        impl_out = chk.run_cases(impl, canary, timeout=120)
        dead = [c for c, l in impl_out.items() if l.startswith("CRASH") or " | " not in l]
        if len(dead) < 3:
            impl_out.update(chk.run_cases(impl, lines[48:], timeout=240))
        else:
            chk.log("real container crashes or hangs on %d of the first %d cases; remaining cases skipped" % (len(dead), len(canary)))
    model_out = chk.run_cases(model, lines, timeout=600) if model else {}
    validated = 0
    nontrivial = set()
    ncorr = 0
    ndefault = 0
    for cid, line in by_id.items():
        w = line.split()
        ty, hk, ca, cb = int(w[1]), int(w[2]), w[3], w[4]
        rep = {"line": line, "type": TYPES.get(ty), "hash_kind": hk}
        il = impl_out.get(cid)
        ml = model_out.get(cid)
        dummy_chain_at, maxchain, mobs = -1, 0, None
        if ml is not None and " # " in ml:
            mobs, info = ml.split(" # ")
            kv = dict(x.split("=") for x in info.split())
            dummy_chain_at, maxchain = int(kv["dummy_chain_at"]), int(kv["maxchain"])
            if dummy_chain_at >= 0:
                ndefault += 1
            if "DIVERGES" in mobs or "!=" in mobs:
                chk.violate("model-stuck", "the model (regenerated formulas) does not terminate / gets stuck on: %s"
                            % line[:200], dict(rep, level="model"))
        elif model:
            chk.broke("correspondence", "model driver on " + cid, str(ml)[:300])
        if il is None:
            continue
        if il.startswith("CRASH") or " | " not in il:
            chk.violate("impl-crash-or-hang", "the real container crashes or does not terminate (%s) on: %s"
                        % (il[:120], line[:160]), rep)
            continue
        obs, mon = il.split(" | ")
        same = mobs is not None and obs == mobs
        if mobs is not None:
            validated += 1
            if maxchain > 0:
                nontrivial.add((ty, hk, ca, maxchain, len(w)))
        bad = [m for m in MONS if (m[0] + "=1") not in mon]
        if bad:
            parts = mon.split(" ;; ")
            per = {}
            for x in parts[1:]:
                per[x.split("@")[0]] = x
            try:
                first_bad = int(parts[0].split("first_bad=")[1].split()[0])
            except (ValueError, IndexError):
                first_bad = -1
            for m in bad:
                sig = m[1] + "-mismatch"
                chk.violate(sig, "%s [%s, hash kind %d, A(%s) B(%s)]: %s" % (m[2], TYPES.get(ty), hk, ca, cb,
                                                                            per.get(m[1], "")[:200]),
                            dict(rep, first_bad_op=first_bad, monitors=mon))
        if mobs is not None and not same:
            ncorr += 1
            if ncorr <= 5:
                a, b = obs.split(), mobs.split()
                k = next((i for i in range(min(len(a), len(b))) if a[i] != b[i]), min(len(a), len(b)))
                chk.broke("correspondence", "HSModel.step vs ConcurrentTransientHash* case %s" % cid,
                          "first difference at op %d (%s): impl %s / model %s\ncase: %s" % (
                              k - 1, w[5 + k - 1] if 0 < k <= len(w) - 5 else "?", a[k] if k < len(a) else "-",
                              b[k] if k < len(b) else "-", line[:300]))
    chk.cov["evaluations"] = len(lines)
    chk.cov["distinct_nontrivial"] = len(nontrivial)
    chk.cov["traces_validated_against_impl"] = validated
    chk.notes["cases_chaining_behind_a_default_constructed_head"] = ndefault
    chk.cov["rule"] = ("case = (element type, hash function, bucket count of A and B or default, operation sequence over "
                       "emplace/find/size/iterate/clear/reserve/rehash/copy/move/swap); fills stop at every chain capacity "
                       "boundary (B-1, B, B+1, 3B-1 .. 7B+1), keys are aimed at the hash (bases at the end of the table so the "
                       "group load wraps into the mirror, equal checkers, equal bases, one constant hash), cleared tables are "
                       "re-used with other keys on the same probe positions; non-trivial = distinct (type, hash, ctor, chain "
                       "length, length) whose run chained at least one extra table")
    for cid in list(by_id)[:: max(1, len(by_id) // 5)]:
        chk.sample({"case": by_id[cid][:160], "impl": (impl_out.get(cid) or "")[-160:], "model": (model_out.get(cid) or "")[-80:]})
    chk.cov["trusted_base"] = chk.cov.get("trusted_base", []) + [
        "translator/gen.py (C expression subset -> Z; size_t arithmetic taken as unbounded Z; pointer-valued "
        "expressions of begin() mapped to node positions through the funcs table of targets/hash_table.json)",
        "extraction: ExtrOcamlBasic only; ocaml/hs_driver.ml (hash functions re-stated there and in the harness)",
        "harness/seq/c18_hash_table.cpp (std::map reference, audits after every mutating operation)",
        "modelled not verified: SIMD group load, allocator, element ctor/dtor, ConcurrentAdder as a counter",
    ]
    chk.assumptions = ["sequential use (quiescent points); the concurrent insert path is property C03",
                       "no size_t overflow of bucket counts"]
    chk.finish("proof")
