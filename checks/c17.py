"""C17 — page allocators / object pool: resources conserved, never shared, never lost."""
import json
import os
import subprocess
import threading
import vlib
from vlib import Check, VERIF, REPO, sh

META = {
    "engine": "E1+E2+E3+E4",
    "text": "Coq theorems over (A) an interleaving model of CachedPageAllocator::allocate/deallocate and of ObjectPool "
            "pop/push/try_pop in both modes on top of the ticket contract of ConcurrentBoundedQueue (cells indexed by "
            "ticket; pop_n/push_n with the compensating reverse callback modelled step by step: claim, per-cell "
            "readiness check, opposite-counter test, try_push_n/try_pop_n(reverse, 1) = load, check, CAS, callback), for "
            "every client program, every capacity, every number of threads and every schedule: every page obtained "
            "from upstream is at every moment in exactly one place (cached, held by one caller, in flight inside one "
            "call, or returned), no callback ever touches a cell it does not own, obtained - returned = held + cached "
            "at quiescence, the destructor returns the whole cache, a strict pool never creates objects and a blocked "
            "pop is enabled as soon as its cell is filled, the recycler runs once per push, overflow is destroyed not "
            "leaked; (B) a sequential model of Counting(Batch(upstream)) for every batch size and call sequence; (C) a model of "
            "handles (unique_ptr<T, Deleter>) and of the routing of push / Deleter::operator() between any number of pools "
            "in both modes, for every call sequence: push(handle) into pool j = push(unique_ptr<T>) into pool j whatever "
            "the handle is bound to, conservation over all pools and handles, loss only by an unbound handle dying, a "
            "pool's objects are in its free list or in handles bound to it.  The "
            "need/claim counts, the compensation test, the pool capacity test, the destructor count, the batch "
            "refill/offset formulas, the counting deltas and what the bodies of push(unique_ptr<T, Deleter>&&) and "
            "Deleter::operator() call are regenerated from the C++ on every run.  Tie: the real "
            "classes run under the deterministic scheduler (pre-emption at every atomic operation, no repo edits) "
            "with a recording upstream allocator; every outcome they produce on small programs must be one the "
            "exhaustively explored extracted model admits; monitors (harness-side ownership map page -> holder, "
            "double free, conservation at quiescence, destructor drains, recycler count, no creation in strict "
            "mode, hang detection) check the property text directly on every run.",
    "note": "26 theorems, all closed under the global context: c17_pool_move_transfers_everything (model: moving a pool = transfer of its free list; the real move constructor/assignment = ConcurrentBoundedQueue::swap is exercised by the harness ops X/Y with monitors moved/nofresh/leak and exact comparison), c17_push_handle_routes_into_this_pool, c17_push_handle_spec, c17_pools_conservation, c17_lost_only_by_unbound_handle_dying, c17_pool_owns_its_objects, c17_single_owner, c17_conservation(+_at_quiescence), "
            "c17_dtor_returns_cache, c17_cache_bounded (EVERY reachable state) and _at_quiescence, "
            "c17_callbacks_advance_cursor, c17_segments_partition_the_claim, c17_claims_fit_the_cache, "
            "c17_compensates_when_starved, c17_strict_never_creates, c17_strict_bound, c17_blocked_pop_resumes, "
            "c17_blocked_pop_means_empty, c17_strict_no_deadlock, c17_recycle_once, c17_overflow_destroyed, "
            "c17_batch_conservation, c17_counting_exact, c17_batch_dtor_returns_buffers.  The model invokes the "
            "allocator callbacks once per contiguous ring segment with the caller's page-array cursor (copy source / "
            "destination, cursor advance, tail loops, round split, fits test and both segment lengths all regenerated "
            "from page_allocator.cpp / bounded_queue.hpp), capacity = 2^k, k < 64.  PARTIAL: (1) queue abstraction - the "
            "slot/version/futex protocol of ConcurrentBoundedQueue is C01's subject; here a ring slot at version 2r / "
            "2r+1 is the ticket cell 'free' / 'full' and futex parking is 'not enabled'; (2) liveness is proved as "
            "enabledness / absence of stuck states (blocked pop enabled once its cell is full and blocked only when the "
            "pool is empty, no stuck state of a strict pool while outstanding < injected, a starved call selects the "
            "reverse callback) and checked by hang detection on the real code - termination under fairness is not "
            "mechanised; (3) c17_recycle_once holds in the model by construction (recycler = first step of push), the "
            "real recycler count is a monitor.  Found and fixed through this check: ObjectPool::Deleter::operator= "
            "without return (0439593), BatchPageAllocator default batch size unusable (a7cd600).  Trusted: Coq kernel; "
            "translator; extraction (ExtrOcamlBasic) + OCaml explorer; macro shim and dsched (sequentially consistent "
            "interleavings only); upstream allocator / creator freshness, EnumerableThreadLocal (one Slot per thread) "
            "and ConcurrentAdder are modelled, not verified.",
}

MON_C = ["owner", "known", "dblfree", "freeheld", "conserve", "dtor", "cachecap"]
MON_H = ["owner", "known", "count", "cachecap"]
MON_P = ["owner", "recycle", "leak", "overflow", "nocreate", "seqbound", "moved"]
MON_M = ["owner", "route", "recycle", "leak", "count", "twice", "nocreate", "moved", "nofresh"]
MON_B = ["owner", "known", "dblfree", "freeheld", "conserve", "dtor", "counting"]
WHAT = {
    "owner": "a page/object handed out by allocate/pop is simultaneously held by another caller, cached twice or already "
             "returned upstream/destroyed",
    "known": "allocate returned a pointer that never came from upstream (or null)",
    "dblfree": "a page was returned upstream twice / a foreign pointer was returned upstream",
    "freeheld": "a page was returned upstream while a caller still holds it",
    "conserve": "at quiescence pages obtained - returned != pages held by callers + pages cached",
    "dtor": "destroying the allocator did not return exactly its cache upstream",
    "cachecap": "more pages cached than the cache capacity",
    "count": "allocate_page_num() differs from the pages held at quiescence",
    "counting": "allocated_page_num() differs from the pages held by callers",
    "recycle": "the recycler did not run exactly once for a returned object",
    "leak": "an object is neither held, cached nor destroyed (or free_object_number() disagrees with the pool content)",
    "overflow": "more objects pooled than the queue can hold",
    "nocreate": "a strict pool handed out an object that was never injected",
    "route": "push(h) into pool j did not put the object into pool j: a pool handed out / holds an object that was last "
             "pushed into another pool (or was never given to it)",
    "twice": "an object was destroyed twice",
    "moved": "after moving a pool (move construction / assignment) the destination does not report the source's free "
             "objects (or the source still reports some)",
    "nofresh": "an auto-creating pool created a fresh object although it still caches objects",
    "seqbound": "single-threaded auto-create pool keeps more than capacity objects (overflow not destroyed)",
}


def bit_ceil(n):
    c = 1
    while c < n:
        c *= 2
    return c


def gen_cached(rng, small):
    cap = rng.choice([1, 2, 2, 4, 3] if not small else [1, 2, 2])
    nt = 2 if small else 2 + rng.below(2)
    threads = []
    for t in range(nt):
        nops = 1 + rng.below(2) if small else 2 + rng.below(4)
        ops = []
        held = 0
        for _ in range(nops):
            if held and rng.chance(1, 2):
                k = 1 + rng.below(held)
                if rng.chance(1, 3):
                    k = held
                ops.append("F%d" % k)
                held -= k
            else:
                hi = (min(cap, 2) + 1) if small else cap + 2
                n = 1 + rng.below(hi)
                if not small and rng.chance(1, 12):
                    n = 0
                ops.append("A%d" % n)
                held += n
        if small and held and rng.chance(2, 3):
            ops.append("F%d" % held)
        elif not small and held and rng.chance(1, 2):
            ops.append("F%d" % held)
        threads.append(ops)
    return cap, "|".join(",".join(t) for t in threads)


def gen_pool(rng, small):
    pcap = rng.choice([0, 1, 1, 2] if small else [0, 1, 2, 2, 4])
    nt = 2 if small else 1 + rng.below(3)
    threads = []
    for t in range(nt):
        nops = 2 + rng.below(2) if small else 3 + rng.below(5)
        ops = []
        held = 0
        for _ in range(nops):
            r = rng.below(10)
            if held and r < 5:
                ops.append(rng.choice(["U", "D"]))
                held -= 1
            elif r < 9 or not held:
                ops.append("O")
                held += 1
            else:
                ops.append("T")
                held += 1      # may fail; a later U/D on nothing is a no-op
        threads.append(ops)
    return pcap, "|".join(",".join(t) for t in threads)


def gen_strict(rng, small):
    pcap = rng.choice([1, 2] if small else [1, 2, 4])
    k = 1 + rng.below(min(pcap, 2 if small else 3))
    nt = 2 if small else 2 + rng.below(2)
    threads = []
    for t in range(nt):
        ops = []
        if t == 0:
            for _ in range(k):
                ops += ["N", "R"]
        rounds = (0 if (small and t == 0) else 1) + rng.below(2 if small else 3)
        for _ in range(rounds):
            if rng.chance(1, 4):
                ops += ["T", rng.choice(["R", "D"])]
            else:
                ops += ["G", rng.choice(["R", "D"])]
        if not ops:
            ops = ["T", "R"]
        threads.append(ops)
    return pcap, "|".join(",".join(t) for t in threads)


def gen_multi_seq(rng):
    """one thread, several pools: exact comparison with the model; no blocking pop on an empty strict pool, no handle
    bound to no pool is left to die, strict pools stay within their capacity"""
    k = 2 + rng.below(2)
    modes = [rng.choice([1, 1, 2]) for _ in range(k)]
    cap = 1 + rng.below(2)
    q = [[] for _ in range(k)]
    hands = []
    fresh = 0
    ops = []
    for _ in range(8 + rng.below(10)):
        r = rng.below(100)
        j = rng.below(k)
        if r >= 92 and len(ops) > 1:
            ops.append(rng.choice(["X%d", "Y%d"]) % j)           # move pool j: handles popped from it stay bound to the old object
            hands = [(o, b, True if b == j else st) for o, b, st in hands]
            continue
        if hands and r < 45:
            o, b, stale = hands[0]
            c = rng.below(10)
            if c < 5 or (c < 8 and b is None):
                if modes[j] == 1 and len(q[j]) >= cap:
                    continue
                ops.append(("H%d" if c < 3 or b is None else "U%d") % j)
                hands.pop(0)
                if not (modes[j] == 2 and cap <= len(q[j])):
                    q[j].append(o)
            elif c < 8:
                if stale or (modes[b] == 1 and len(q[b]) >= cap):
                    continue
                ops.append("D")
                hands.pop(0)
                if not (modes[b] == 2 and cap <= len(q[b])):
                    q[b].append(o)
            else:
                ops.append("V")
                hands.append(hands.pop(0))
        elif r < 60:
            ops.append("N")
            hands.append((fresh, None, False))
            fresh += 1
        elif r < 80:
            if q[j]:
                ops.append("O%d" % j)
                hands.append((q[j].pop(0), j, False))
            elif modes[j] == 2:
                ops.append("O%d" % j)
                hands.append((fresh, j, False))
                fresh += 1
        else:
            ops.append("T%d" % j)
            if q[j]:
                hands.append((q[j].pop(0), j, False))
    if not ops:
        ops = ["N"]
    return cap, int("".join(str(m) for m in modes)), ",".join(ops)


def gen_multi_conc(rng):
    """2-3 threads, several pools: strict pools are only try_popped (no client deadlock), handles bound to another pool
    or to no pool are pushed through both overloads"""
    k = 2 + rng.below(2)
    modes = [rng.choice([1, 2]) for _ in range(k)]
    cap = 2 + rng.below(3)
    threads = []
    for t in range(2 + rng.below(2)):
        ops = []
        for _ in range(2 + rng.below(3)):
            j, i = rng.below(k), rng.below(k)
            src = rng.choice(["N", "T%d" % j, "T%d" % j, ("O%d" % j) if modes[j] == 2 else "N"])
            ops.append(src)
            c = rng.below(10)
            ops.append(("H%d" % i) if c < 5 else ("U%d" % i) if c < 7 else "V")
            if ops[-1] == "V":
                ops.append("H%d" % i)
        threads.append(ops)
    # a push into a FULL strict pool blocks until somebody pops (bounded queue): a program that pushes more objects into
    # a strict pool than it can hold would block for good by its own doing, so such pools get room for every push
    npush = {}
    for ops in threads:
        for o in ops:
            if o[0] in "HU":
                npush[int(o[1:])] = npush.get(int(o[1:]), 0) + 1
    need = max([n for i, n in npush.items() if modes[i] == 1] + [0])
    if need >= cap:
        cap = need + 1
    return cap, int("".join(str(m) for m in modes)), "|".join(",".join(t) for t in threads)


def gen_batch(rng):
    batch = rng.choice([1, 2, 3, 5, 8])
    nt = 1 + rng.below(3)
    held = [0] * nt
    ops = []
    for _ in range(6 + rng.below(12)):
        t = rng.below(nt)
        r = rng.below(10)
        if held[t] and r < 2:
            ops.append("f%d" % t)
            held[t] -= 1
        elif held[t] and r < 4:
            k = 1 + rng.below(held[t])
            ops.append("m%d:%d" % (t, k))
            held[t] -= k
        elif r < 7:
            ops.append("a%d" % t)
            held[t] += 1
        else:
            k = rng.below(2 * batch + 2)
            ops.append("n%d:%d" % (t, k))
            held[t] += k
    return batch, nt, ",".join(ops)


FIXED = [
    # (kind, p1, program, small): boundary cases the property text names
    ("C", 1, "A1,F1|A1,F1", True),            # capacity 1: every other allocate compensates
    ("C", 1, "A2,F2|A1", True),               # batches larger than the cache on both sides
    ("C", 2, "A3,F3|A2", True),
    ("C", 2, "A2,F1,F1|A1,F1", True),
    ("C", 2, "A2,F2,A1|F0,A2", True),
    ("C", 4, "A6,F6,A5,F5|A4,F4,A1|A2,F2", False),
    ("C", 1, "A3,F3,A3,F3|A2,F2,A2,F2|A1,F1,A1", False),
    ("C", 3, "A4,F4,A3,F2,F1|A3,F3|A5,F5", False),
    ("P", 1, "O,U,O|O,D", True),
    ("P", 0, "O,U|O,D", True),
    ("P", 1, "O,O,U,U|T,D", True),
    ("P", 2, "O,O,O,U,U,U,O|O,D,O,D|T,U", False),
    ("P", 1, "O,O,O,O,U,U,U,U,O", False),     # single thread: overflow destroyed exactly
    ("S", 1, "N,R|G,R", True),
    ("S", 2, "N,R,N,R|G,R|G,D", True),
    ("S", 1, "N,R,G,D|G,R,G,R|G,D", False),
    ("S", 2, "N,R|G,R,T,R|T,D,G,R", False),
    ("P", 2, "O,O,U,U,X,O,O,O,U,U,U,X,T,T,O", False),      # single thread: the pool is moved while it caches objects
    ("S", 2, "N,R,N,R,X,G,G,T,R,R,X,T,R,X,G", False),
    ("S", 4, "N,R,X,N,R,N,R,X,G,G,G,T", False),
]
FIXED_M = [
    # (capacity, modes, program): handle / Deleter routing between pools (1 = strict, 2 = auto-create)
    (2, 11, "N,H0,O0,H1,T0,T1,D,T1,U0,T0,V,D"),           # donor -> target through the handle overload, sequential
    (1, 12, "N,H0,O0,H1,O1,H0,T0,D,N,H1,N,H1,T1,U0"),     # strict <-> auto, overflow of the auto pool
    (2, 21, "O0,H1,T1,V,H0,O0,U1,T1,D,T1"),
    (2, 11, "N,H0,O0,H1|O1,D"),                           # pop blocked on pool 1 resumes when a pool-0 handle is pushed into 1
    (1, 11, "N,H0|O0,H1,O1,D"),
    (2, 111, "N,H0,N,H0|O0,H1,O1,H2|O2,D,O0,H2"),
    (2, 12, "N,H1,O1,H0,O0,U1|T0,D,T1,H0"),
    # moving a whole pool while it holds 0 / 1 / k free objects and has outstanding handles, then using the destination
    (2, 11, "X0,N,H0,X0,T0,H0,N,H0,Y0,T0,T0,T0,U0,U0,X0,O0,O0,T0"),
    (2, 12, "O1,O1,H1,H1,X1,O1,O1,O1,U1,Y1,T1,H1,H1,X1,T1,T1"),
    (4, 21, "O0,O0,O0,U0,U0,Y0,O0,H0,X0,O0,O0,O0,O0,N,H1,N,H1,O0,X1,O1,H1,Y1,O1,O1,T1"),
    (1, 22, "O0,U0,X0,O0,U0,Y0,O0,D,O1,H0,X0,X1,O0,O1"),
]


def main(argv):
    chk = Check("C17", argv)
    thorough = chk.tier == "thorough"
    chk.translate(["page_allocator"])
    built = {}

    def build():
        # the four translation units (driver, scheduler, page_allocator.cpp, counter.cpp - all through the macro shim)
        # are cached as objects; an object is rebuilt when any file it was compiled from (.d) is newer, where paths
        # recorded under another REPO / VERIF root (bin/muttest copies build/) are mapped onto the current roots
        d = os.path.join(vlib.BUILD, "c17obj")
        os.makedirs(d, exist_ok=True)
        srcs = [os.path.join(VERIF, "harness/conc/c17_alloc.cpp"), os.path.join(VERIF, "harness/shim/dsched.cpp"),
                os.path.join(REPO, "src/babylon/reusable/page_allocator.cpp"),
                os.path.join(REPO, "src/babylon/concurrent/counter.cpp")]

        def stale(o, src):
            w = o + ".where"
            if not (os.path.exists(o) and os.path.exists(w) and os.path.exists(o[:-2] + ".d")):
                return True
            try:
                rec = json.load(open(w))
                mt = os.path.getmtime(o)
                txt = open(o[:-2] + ".d").read().replace("\\\n", " ")
                deps = [src] + (txt.split(":", 1)[1].split() if ":" in txt else [])
                for dp in deps:
                    for old, new in ((rec["repo"], REPO), (rec["verif"], VERIF)):
                        if dp.startswith(old + "/"):
                            dp = new + dp[len(old):]
                            break
                    if os.path.getmtime(dp) > mt:
                        return True
            except (OSError, ValueError, KeyError):
                return True
            return False

        objs, procs = [], []
        with vlib.Lock("c17obj"):
            for src in srcs:
                o = os.path.join(d, os.path.basename(src).replace(".cpp", ".o"))
                objs.append(o)
                if stale(o, src):
                    cmd = [vlib.CXX] + vlib.CXXFLAGS + ["-I" + os.path.join(VERIF, "harness"), "-fno-access-control",
                                                        "-include", "shim/prelude.h", "-MMD", "-c", src, "-o", o]
                    procs.append((src, o, subprocess.Popen(cmd, stdout=subprocess.PIPE, stderr=subprocess.PIPE, text=True)))
            for src, o, p in procs:
                out, err = p.communicate()
                if p.returncode != 0:
                    if os.path.exists(o):
                        os.remove(o)
                    chk.broke("harness", "compile " + os.path.basename(src), err[-3000:])
                    return
                json.dump({"repo": REPO, "verif": VERIF}, open(o + ".where", "w"))
        built["impl"] = chk.build_cpp("c17_alloc", [], objs=objs, ldflags=["-ldl"])

    bt = threading.Thread(target=build)
    bt.start()
    chk.coq("Properties_C17.v")
    model = chk.extract("pa", "Extract_pa.v", "pa_driver.ml", explorer=True)
    bt.join()
    impl = built.get("impl")
    rng = chk.rng

    progs = []   # (pid, kind, p1, p2, program, small)
    if chk.replay:
        r = json.load(open(chk.replay))["replay"]
        progs = [("r0", r["kind"], r["p1"], r.get("p2", 0), r["program"], r.get("small", False))]
        scheds = [(r["seed"], r["strategy"])]
    else:
        seen = set()
        for kind, p1, prog, small in FIXED:
            seen.add((kind, p1, prog))
            progs.append(("p%d" % len(progs), kind, p1, 0, prog, small))
        plan = [("C", gen_cached, 22, 40), ("P", gen_pool, 10, 22), ("S", gen_strict, 8, 14)]
        if thorough:
            plan = [(k, g, a * 5, b * 6) for k, g, a, b in plan]
        for kind, gen, n_small, n_big in plan:
            for small, n in ((True, n_small), (False, n_big)):
                have = tries = 0
                while have < n and tries < 60 * n:
                    tries += 1
                    p1, prog = gen(rng, small)
                    nops = prog.count(",") + prog.count("|") + 1
                    if (kind, p1, prog) in seen or (small and nops > (5 if kind == "C" else 6)):
                        continue
                    seen.add((kind, p1, prog))
                    progs.append(("p%d" % len(progs), kind, p1, 0, prog, small))
                    have += 1
        for i in range(4 if not thorough else 20):
            progs.append(("p%d" % len(progs), "H", rng.choice([1, 2, 4]), 0, gen_cached(rng, False)[1], False))
        for cap, modes, prog in FIXED_M:
            progs.append(("p%d" % len(progs), "M", cap, modes, prog, "|" not in prog))
        for i in range(16 if not thorough else 100):
            cap, modes, prog = gen_multi_seq(rng)
            progs.append(("p%d" % len(progs), "M", cap, modes, prog, True))
        for i in range(12 if not thorough else 80):
            cap, modes, prog = gen_multi_conc(rng)
            progs.append(("p%d" % len(progs), "M", cap, modes, prog, False))
        nsched = 14 if not thorough else 60
        scheds = [(rng.below(1 << 31), [0, 3, 3, 0][i % 4]) for i in range(nsched)]
    lines, meta = [], {}
    for pid, kind, p1, p2, prog, small in progs:
        for si, (seed, strat) in enumerate(scheds):
            cid = "%s.%d" % (pid, si)
            lines.append("%s %s %d %d %d %d %s" % (cid, kind, seed, strat, p1, p2, prog))
            meta[cid] = (pid, kind, p1, p2, prog, small, seed, strat)
    # batch / counting: deterministic call sequences, exact correspondence
    blines, bmeta, bmodel = [], {}, []
    if not chk.replay:
        for i in range(60 if not thorough else 400):
            batch, nt, ops = gen_batch(rng)
            cid = "b%d" % i
            seed = rng.below(1 << 31)
            blines.append("%s B %d %d %d %d %s" % (cid, seed, [0, 3][i % 2], batch, nt, ops))
            bmodel.append("%s B %d %d %s" % (cid, batch, nt, ops))
            bmeta[cid] = (batch, nt, ops, seed, [0, 3][i % 2])
    elif progs and progs[0][1] == "B":
        pid, kind, p1, p2, prog, small = progs[0]
        seed, strat = scheds[0]
        blines = ["b0 B %d %d %d %d %s" % (seed, strat, p1, p2, prog)]
        bmodel = ["b0 B %d %d %s" % (p1 or 16, p2, prog)]
        bmeta["b0"] = (p1, p2, prog, seed, strat)
        lines, meta = [], {}
    # regression cases of the two defects this check found (fixed in /repo by 0439593 and a7cd600): move-assignment of
    # a pooled handle (ObjectPool::Deleter::operator=) and a BatchPageAllocator used with its default batch size.
    # They run in a process of their own with a short timeout (the defects crash or spin), results are judged like
    # every other case.
    rlines = []
    if not chk.replay:
        for prog_kind, p1, prog in (("P", 2, "O,O,M,D,D"), ("P", 1, "O,M,U|O,D,O,M"), ("P", 0, "O,M,M,D"),
                                    ("S", 2, "N,R,N,R,G,M,D|G,R")):
            for si, (seed, strat) in enumerate(scheds[:3]):
                cid = "g%d.%d" % (len(rlines), si)
                rlines.append("%s %s %d %d %d %d %s" % (cid, prog_kind, seed, strat, p1, 0, prog))
                meta[cid] = (cid, prog_kind, p1, 0, prog, False, seed, strat)
        for i in range(6):
            _, nt, ops = gen_batch(rng)
            cid = "bd%d" % i
            seed = rng.below(1 << 31)
            rlines.append("%s B %d %d %d %d %s" % (cid, seed, [0, 3][i % 2], 0, nt, ops))
            bmodel.append("%s B %d %d %s" % (cid, 16, nt, ops))
            bmeta[cid] = (0, nt, ops, seed, [0, 3][i % 2])
    chk.log("%d programs x %d schedules, %d batch sequences, %d regression cases" % (len(progs), len(scheds), len(blines),
                                                                                      len(rlines)))
    impl_out = {}
    if impl:
        # canary first: the fixed boundary programs under 3 schedules + the regression cases.  If calls already hang or
        # crash there (each hang costs a full step budget of the scheduler) only a sample of the bulk is run.
        nfixed = len(FIXED)
        fm = set(FIXED_M)
        canary = [l for l in lines if int(l.split()[0].split(".")[1]) < 3 and
                  (int(l.split()[0][1:].split(".")[0]) < nfixed or
                   (meta[l.split()[0]][1] == "M" and tuple(meta[l.split()[0]][2:5]) in fm))] if not chk.replay else []
        cset = set(canary)
        rest = [l for l in lines if l not in cset]
        if canary:
            impl_out.update(chk.run_cases(impl, canary, timeout=300))
        if rlines:
            impl_out.update(chk.run_cases(impl, rlines, timeout=40, jobs=4))
        bad = sum(1 for l in impl_out.values() if l.startswith("DSCHED-STUCK") or l.startswith("CRASH"))
        if bad >= 3:
            chk.log("%d hangs/crashes among %d canary cases: running only a sample of the remaining cases" % (bad, len(impl_out)))
            rest = rest[::25]
        impl_out.update(chk.run_cases(impl, rest + blines, timeout=900))

    # model: outcome sets for the small programs, exact lines for the batch sequences
    model_sets, model_b, model_m = {}, {}, {}
    states = trans = 0
    if model:
        mlines = []
        for pid, kind, p1, p2, prog, small in progs:
            if small and kind == "M":
                mlines.append("%s M %d %d %s" % (pid, p2, p1, prog))
            if small and kind in "CPS":
                if kind == "C":
                    qcap, pcap = bit_ceil(p1), 0
                else:
                    qcap, pcap = bit_ceil(2 * p1), p1
                mlines.append("%s %s %d %d %s" % (pid, kind, qcap, pcap, prog))
        mo = chk.run_cases(model, mlines + bmodel, timeout=1500)
        for pid, l in mo.items():
            if pid in bmeta:
                model_b[pid] = l
                continue
            if "outcomes=" not in l:
                model_m[pid] = l.split(" ", 1)[1]
                continue
            f = dict(x.split("=", 1) for x in l.split()[1:7])
            states += int(f.get("states", 0))
            trans += int(f.get("trans", 0))
            outs = l.split("outcomes=", 1)[1] if "outcomes=" in l else ""
            model_sets[pid] = (set(outs.split("#")), f.get("trunc") == "true", int(f.get("stuck", "0")))
            if int(f.get("errs", "0")) > 0:
                chk.violate("model-err", "the model reaches a state where a callback touches a cell it does not own: " + l[:300],
                            {"level": "model", "line": l[:500]})
            if int(f.get("dtorbad", "0")) > 0:
                chk.violate("model-dtor", "the model's destructor does not return the whole cache: " + l[:300],
                            {"level": "model", "line": l[:500]})
    validated = 0
    distinct = set()
    for cid, l in impl_out.items():
        if cid in bmeta:
            batch, nt, ops, seed, strat = bmeta[cid]
            rep = {"kind": "B", "p1": batch, "p2": nt, "program": ops, "seed": seed, "strategy": strat, "impl_line": l}
            mons = MON_B
            small = True
            pid = cid
        else:
            pid, kind, p1, p2, prog, small, seed, strat = meta[cid]
            rep = {"kind": kind, "p1": p1, "p2": p2, "program": prog, "seed": seed, "strategy": strat, "small": small,
                   "impl_line": l}
            mons = {"C": MON_C, "H": MON_H, "P": MON_P, "S": MON_P, "M": MON_M}[kind]
        if l.startswith("DSCHED-STUCK"):
            k = "deadlock" if "deadlock" in l.split()[1] else "livelock"
            if cid in meta and meta[cid][1] == "S" and small and pid in model_sets and model_sets[pid][2] > 0:
                continue      # the client program itself can deadlock (the model admits it)
            chk.violate("stuck-" + k, "a call never returns (%s): allocate/deallocate/pop/push hangs: %s" % (k, l[:300]), rep)
            continue
        if l.startswith("CRASH"):
            chk.violate("crash", "implementation crashed: " + l[:300], rep)
            continue
        parts = l.split(" | ")
        if len(parts) != 3:
            chk.broke("harness", "unparsable driver line", l)
            continue
        mon = dict(x.split("=") for x in parts[2].split())
        for m in mons:
            if mon.get(m) != "1":
                chk.violate("mon-" + m, WHAT[m] + ": " + parts[1][:300], rep)
        distinct.add((pid, parts[1]))
        if cid in bmeta:
            ml = model_b.get(cid)
            if ml is not None:
                validated += 1
                mtxt = ml.split(" ", 1)[1]
                want = mtxt.split(" err=")[0]
                if "err=true" in mtxt:
                    chk.violate("model-batch-err", "batch model reads outside the prefetch buffer: " + ml[:300], rep)
                elif want != parts[1]:
                    chk.broke("correspondence", "PAModel(batch) differs on %s" % bmeta[cid][2],
                              "impl : %s\nmodel: %s" % (parts[1], want))
                else:
                    f = dict(x.split("=") for x in mtxt.split(" err=")[1].split()[1:])
                    if f.get("dtor_rest") != "0":
                        chk.violate("model-batch-dtor", "batch model destructor keeps prefetched pages: " + ml[:300], rep)
        elif small and pid in model_m:
            validated += 1
            if parts[1] != model_m[pid]:
                chk.broke("correspondence", "PAModel(pools/handles) differs on M %s %s" % (meta[cid][3], meta[cid][4]),
                          "impl : %s\nmodel: %s" % (parts[1], model_m[pid]))
        elif small and pid in model_sets:
            outs, trunc, _ = model_sets[pid]
            validated += 1
            if parts[1] not in outs and not trunc:
                chk.broke("correspondence", "PAModel does not admit outcome of %s %s" % (meta[cid][1], meta[cid][4]),
                          "impl outcome: %s\nmodel outcomes (%d): %s" % (parts[1], len(outs), sorted(outs)[:12]))
    chk.cov["evaluations"] = len(lines) + len(blines) + len(rlines)
    chk.cov["distinct_nontrivial"] = len(distinct)
    chk.cov["traces_validated_against_impl"] = validated
    chk.cov["states"] = states
    chk.cov["transitions"] = trans
    chk.cov["rule"] = ("case = (allocator kind, capacity, client program, schedule seed, strategy); programs: fixed boundary "
                       "programs (capacity 1, batches larger than the cache, empty batch, pool capacity 0/1) + seeded random "
                       "mixes of allocate(n)/deallocate(k) with n up to capacity+2 over 2-3 threads on capacities 1,2,3,4, "
                       "ObjectPool pop/push/Deleter/try_pop in auto-create mode (capacity 0,1,2,4) and strict mode "
                       "(1-3 injected objects), PageHeap; strategies: uniform random and round-robin with random "
                       "pre-emption rates 10%-82%; batch/counting: random call sequences over 1-3 threads, batch sizes "
                       "1,2,3,5,8, compared exactly with the model; several pools (kind M, strict/auto mixes, capacity 1-4): handles "
                       "popped from pool i or built around a new object with an unbound Deleter pushed into pool j through "
                       "both push overloads, dying, moved; single-thread sequences compared exactly with the model, 2-3 "
                       "threads with monitors (route: a pool only hands out / holds what was put into it; recycler of the "
                       "destination pool exactly once; leak; blocked pop resumes = no deadlock); distinct non-trivial = distinct (program, observed "
                       "outcome) pairs; small programs are explored exhaustively in the extracted model and every "
                       "implementation outcome must be in the model's outcome set")
    for cid in list(impl_out)[:: max(1, len(impl_out) // 5)]:
        src = [x for x in lines + blines + rlines if x.split()[0] == cid]
        chk.sample({"case": src[0] if src else cid, "impl": impl_out[cid][:400]})
    chk.cov["trusted_base"] = chk.cov.get("trusted_base", []) + [
        "translator/gen.py", "ExtrOcamlBasic extraction + ocaml/explore.ml + ocaml/pa_driver.ml",
        "harness/shim (verif_atomic.h macro shim, dsched.cpp)", "harness/conc/c17_alloc.cpp (recording upstream, ownership map)",
        "queue abstraction: ring slot versions <-> ticket cells (C01 proves the slot protocol)",
        "modelled not verified: upstream freshness, EnumerableThreadLocal, ConcurrentAdder, operator new"]
    chk.assumptions = ["sequentially consistent interleavings at atomic-operation granularity",
                       "queue capacity 2^k with k < 64 (bit_ceil), callers deallocate only pages they hold, a strict pool is not "
                       "injected beyond its capacity, BatchPageAllocator batch size >= 1",
                       "ticket counters and slot versions do not wrap (unbounded naturals)"]
    chk.finish("proof")
