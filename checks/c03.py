"""C03 — Concurrent hash set/map: linearizable insert-if-absent, one winner per key."""
import json
import os
import vlib
from vlib import Check, VERIF

META = {
    "engine": "E1+E2+E3+E4",
    "text": "Coq theorems over an interleaving model of ConcurrentFixedSwissTable::do_emplace/find and of "
            "ConcurrentTransientHashSet/Map::emplace/find (chain of tables, next load/CAS, loser deletes) in which every "
            "shared access is its own step (SIMD group load, acquire fence + key comparison per candidate, CAS EMPTY->BUSY, "
            "construction, the two release stores of the tag to the slot and to its mirror, size add), for every client "
            "program of emplace/insert/operator[]/find/contains, every number of threads, every schedule, every hash "
            "function (colliding hashes, equal 7-bit tags), every initial capacity incl. the default-constructed "
            "placeholder and any number of chained growth steps.  All proved at full strength: per key at most one "
            "insertion reports success and in a finished run exactly one does; all insertions and lookups of a key return "
            "the same slot and saw the same fully constructed element, built from the winner's arguments; a lookup whose "
            "begin stamp is after the end stamp of a returned insertion of its key returns that slot; a key lives in at "
            "most one slot of the whole chain (growth never duplicates); control bytes only move EMPTY -> BUSY -> tag, tags "
            "/ constructed elements never change and tables are only appended (growth never drops); a published tag "
            "(slot or mirror) implies a constructed element with that tag, no key comparison ever reads raw storage, no "
            "slot is constructed twice; chain/probe invariant (every table, group and byte a stored key's probe examines "
            "before its slot is the tag of a constructed element of another key); a failing insertion never took the "
            "construction step (argument not consumed) and found its whole probe sequence full.  Release/acquire "
            "publication on the explicit RA machine (coq/WM/RA.v) for all executions, with the orders computed from the "
            "regenerated site tables: tag and mirror-tag publication (release store vs. plain group load + acquire "
            "fence, new skeleton coq/HC/HCLitmus.v) and chained-table publication (next CAS vs. acquire loads of find and "
            "emplace, and the CAS loser); each weakened order has a refuting execution.  Index/mask/probe formulas, the "
            "CAS operands, the failed-CAS tests, the stored bytes, the statement order construct -> publish -> size and the "
            "memory orders are regenerated from transient_hash_table.hpp on every run.  Tie: the real classes run under "
            "the deterministic scheduler (every atomic operation of the table code is a scheduling point, extra points "
            "sit in the harness-supplied hash functor, key equality and element constructor, so a reader can be scheduled "
            "before a group load, between the group load and the slot read and between CAS and construction); every "
            "outcome of a small program must be one the extracted model admits (exhaustive exploration of all schedules "
            "of the model); monitors check the property text directly on every run (exactly one winner, same element, "
            "visibility by begin/end stamps, constructed once, argument not consumed, failure only when full, final "
            "iteration without drop/duplicate, size, destructors, table/node allocations balanced); an RA-machine "
            "witness search reports a bad execution when a publication order is weakened.",
    "note": "No partial theorems left.  Imported rather than re-proved: that the triangular probe sequence covers every "
            "bucket (so 'whole probe sequence full' means 'table completely full') is HSProofs.tri_surj (C18, same "
            "regenerated formulas).  The interleaving theorems are about sequentially consistent interleavings; the SIMD "
            "group load is a plain, possibly torn 16-byte load which the model takes as one step: torn loads are covered "
            "only by the byte-monotonicity theorem (c03_bytes_monotone), every invariant of the proof being per byte "
            "position; the weak-memory side is covered by the publication litmus theorems on the RA machine (two- and "
            "three-thread skeletons, not the whole table).  No PCT schedules: the BUSY spin-wait of do_emplace needs a "
            "fair scheduler.  Trusted: Coq kernel; translator; extraction + the explorer in ocaml/hc_driver.ml; macro shim "
            "+ dsched; the driver's operator new/delete replacement and private-member access (-fno-access-control).",
}

MON = ["phantom", "winner", "same", "visible", "ctor", "noconsume", "fullok", "nodrop", "nodup", "size", "dtor", "leak"]
WHAT = {"phantom": "a lookup returned an element of a key no insertion of which had begun (stale / foreign element)",
        "winner": "not exactly one insertion of a key reported success",
        "same": "operations on one key returned different / not fully constructed / foreign elements",
        "visible": "an operation that started after an insertion of the key had returned missed the key",
        "ctor": "a slot was constructed more than once, read before it was constructed, or is unreachable",
        "noconsume": "a failed / duplicate insertion consumed its arguments",
        "fullok": "an insertion failed although the table was not full (or the container grows)",
        "nodrop": "a key that was inserted is missing from the final iteration (growth dropped it)",
        "nodup": "a key appears twice (or a foreign key appears) in the final iteration",
        "size": "size() differs from the number of elements",
        "dtor": "an element was not destroyed exactly once with the container",
        "leak": "a table buffer or chained node was leaked (loser of the next CAS must delete its node exactly once)"}


def hval(tag, base):
    return tag + 128 * base


def gen_program(rng, small):
    mode = rng.choice(["X", "S", "S", "M", "M"])
    if mode == "X":
        cap = rng.choice(["16", "16", "32", "D"])
    else:
        cap = rng.choice(["16", "16", "32", "D", "D"])
    real = 32 if cap == "D" else int(cap)      # bucket count of the first table that can hold something
    nkeys = 1 + rng.below(3 if small else 6)
    keys = list(range(1, nkeys + 1))
    fam = rng.choice(["same", "sametag", "samebase", "rand", "same"])
    edge_bases = [0, 1, 2, 14, 15, real - 1, real - 2, real - 15, real - 16, 7]
    tag0 = rng.below(128)
    base0 = rng.choice(edge_bases) % real
    hashes = {}
    for k in keys:
        if fam == "same":
            hashes[k] = hval(tag0, base0)
        elif fam == "sametag":
            hashes[k] = hval(tag0, rng.choice(edge_bases) % real + real * rng.below(3))
        elif fam == "samebase":
            hashes[k] = hval(rng.below(128), base0 + real * rng.below(3))
        else:
            hashes[k] = hval(rng.below(128), rng.below(4 * real))
    # one more class of initial states: a container that was used and clear()ed (keys 200.. homed in the last buckets so
    # that their windows wrapped through the mirror bytes), over trivially destructible element types as well
    setup = []
    triv = rng.chance(1, 3)
    if rng.chance(1, 4) and not (mode == "X" and cap == "D"):
        nset = rng.choice([4, 9, real - 1, real - 3 if mode == "X" else real + 5])
        setup = list(range(200, 200 + nset))
        for k in setup:
            hashes[k] = hval((k * 11) % 128, real - 1 - (k % 5) + real * (k % 2))
        keys = keys + [200 + rng.below(nset), 200 + rng.below(nset)]
    # prefill: bring the first table(s) to the edge of full so that the client threads race for the last slots / growth
    choices = [0, 0, real - 2, real - 1, real - 1, real]
    if mode != "X" and cap != "D":
        choices += [3 * real - 1, 3 * real - 2]         # two tables full: chained growth step 2
    if cap == "D" and mode == "X":
        choices = [0]
    npre = rng.choice(choices)
    pre = list(range(100, 100 + npre))
    pfam = rng.choice(["default", "samebase", "sametag"])
    for k in pre:
        if pfam == "samebase":
            hashes[k] = hval(rng.below(128), base0)       # consecutive slots from base0, wrapping through the mirror
        elif pfam == "sametag":
            hashes[k] = hval(tag0, rng.below(4 * real))   # every slot is a tag candidate for the client keys
    nt = 2 + rng.below(2 if small else 4)
    if mode == "M":
        emp = ["E", "E", "I", "T", "B"]
    else:
        emp = ["E", "E", "I", "T"]
    threads = []
    budget = 4 if small else 100
    for t in range(nt):
        n = 1 + rng.below(2 if small else 5)
        ops = []
        for _ in range(n):
            if budget <= 0:
                break
            budget -= 1
            k = rng.choice(keys)
            if rng.chance(3, 5):
                ops.append(rng.choice(emp) + str(k))
            else:
                ops.append(rng.choice(["F", "F", "C"]) + str(k))
        if not ops:
            ops = ["F%d" % keys[0]]
        threads.append(ops)
    if not any(o[0] not in "FC" for th in threads for o in th):
        threads[0][0] = "E%d" % keys[0]
    return {"mode": mode.lower() if triv else mode, "cap": cap, "hashes": hashes, "prefill": pre, "threads": threads,
            "setup": setup}


DIRECTED = [
    # mirror window: group at base 15 of a 16-bucket table reads buckets 0..14 through the mirror bytes
    {"mode": "S", "cap": "16", "hashes": {1: hval(5, 15), 2: hval(5, 15), 100: hval(9, 15)}, "prefill": [100], "threads": [["E1", "F1"], ["E1", "F2"], ["F1", "E2"]]},
    {"mode": "X", "cap": "16", "hashes": {1: hval(5, 15), 2: hval(5, 0)}, "prefill": [], "threads": [["E1", "F2"], ["E2", "F1"], ["C1", "C2"]]},
    # one free slot in a fixed table, two keys: one insertion must fail cleanly
    {"mode": "X", "cap": "16", "hashes": {}, "prefill": list(range(100, 115)), "threads": [["E1", "F1"], ["E2", "F2"]]},
    {"mode": "X", "cap": "16", "hashes": {1: 3, 2: 3}, "prefill": list(range(100, 115)), "threads": [["E1", "C1"], ["T2", "C2"], ["I1"]]},
    # growth race on a default-constructed head and on a full head
    {"mode": "S", "cap": "D", "hashes": {1: 7, 2: 7}, "prefill": [], "threads": [["E1", "F2"], ["E2", "F1"], ["E1"]]},
    {"mode": "M", "cap": "16", "hashes": {}, "prefill": list(range(100, 116)), "threads": [["E1", "F1"], ["B1", "F1"], ["T2"]]},
    {"mode": "S", "cap": "16", "hashes": {1: 1, 2: 1}, "prefill": list(range(100, 147)), "threads": [["E1", "F2"], ["E2", "F1"], ["I2"]]},
    # equal tag everywhere: every occupied byte is a candidate, long comparison loops
    {"mode": "M", "cap": "16", "hashes": dict([(k, hval(1, k)) for k in range(100, 112)] + [(1, hval(1, 3)), (2, hval(1, 3))]),
     "prefill": list(range(100, 112)), "threads": [["E1", "F2"], ["E2", "F1"]]},
]


# slow element constructor (15 ms of virtual time between CAS EMPTY->BUSY and the tag store): every other inserter of a
# colliding key must keep waiting on the BUSY byte, however long (small programs: also explored in the model)
SLOW = [
    {"mode": "S", "cap": "32", "hashes": {1: hval(5, 1)}, "prefill": [], "threads": [["L1"], ["L1", "F1"]], "nsched": 6},
    {"mode": "X", "cap": "32", "hashes": {1: hval(5, 30)}, "prefill": [], "threads": [["L1"], ["L1"], ["C1"]], "nsched": 6},
    {"mode": "S", "cap": "16", "hashes": {1: hval(9, 15)}, "prefill": [], "threads": [["L1"], ["L1"]], "nsched": 6},
    {"mode": "M", "cap": "16", "hashes": {1: hval(7, 3), 2: hval(7, 3)}, "prefill": [], "threads": [["L1"], ["L2"], ["L1", "F2"]], "nsched": 6},
    {"mode": "S", "cap": "D", "hashes": {1: 7, 2: 7}, "prefill": [], "threads": [["L1", "F2"], ["L2"], ["E1"]], "nsched": 6},
]


def deep(mode, cap, base, npre, tagmode, threads, nsched):
    """npre keys (100..) and the client keys 1..3 all on home bucket `base` of a `cap`-bucket table: the 33rd key is
    displaced past two full groups into the third group of the TRIANGULAR probe sequence (base+48), the 49th into the
    fourth (base+96); lookups must walk the same sequence as insertions."""
    hs = {}
    for k in list(range(100, 100 + npre)) + [1, 2, 3]:
        tag = 9 if tagmode == "same" else (k * 7) % 128
        hs[k] = hval(tag, base + cap * (k % 3))
    return {"mode": mode, "cap": str(cap), "hashes": hs, "prefill": list(range(100, 100 + npre)), "threads": threads,
            "nsched": nsched}


# deep-probe programs: monitors on every one; the single-thread ones are also compared with the extracted model (one
# thread = one path of the explorer, i.e. a sequential differential run on 64 / 128 bucket tables)
DEEP_SEQ = [
    deep("X", 64, 5, 36, "mix", [["F132", "F135", "C100", "E1", "F1", "C135", "E2", "F2", "F133"]], 1),
    deep("S", 64, 63, 50, "same", [["F148", "F149", "F133", "E1", "F1", "C148", "F116"]], 1),
    deep("M", 128, 120, 40, "mix", [["F139", "B1", "F1", "C132", "T2", "F2", "F135"]], 1),
    deep("X", 128, 0, 52, "mix", [["F151", "F148", "F133", "E1", "C1", "F150"]], 1),
    deep("S", 64, 48, 33, "mix", [["F132", "E1", "F1", "E2", "F2", "E3", "F3", "F132"]], 1),
]
DEEP_CONC = [
    deep("X", 64, 5, 32, "mix", [["E1", "F1", "F2"], ["E2", "F2", "F1"], ["F1", "C2"]], 4),
    deep("S", 64, 63, 33, "same", [["E1", "F1", "F132"], ["E2", "F2"], ["F132", "C1", "F2"]], 4),
    deep("M", 64, 20, 40, "mix", [["B1", "F1", "F139"], ["T2", "F2", "C135"], ["F133", "F1"]], 4),
    deep("S", 128, 127, 36, "mix", [["E1", "F1", "E3", "F3"], ["E2", "F2", "F135"], ["C134", "F1", "F2"]], 4),
    deep("X", 128, 100, 49, "mix", [["E1", "F1", "F148"], ["I2", "F2", "C140"]], 4),
    deep("M", 128, 3, 48, "same", [["E1", "F1"], ["E2", "F2"], ["F147", "C133", "F1"]], 4),
    deep("S", 64, 16, 47, "mix", [["E1", "F1", "C146"], ["E2", "F2", "F1"], ["E3", "F3"]], 4),
]


def reuse(mode, cap, nset, threads, nsched=6):
    """a container that was used before: `nset` keys (200..) whose home buckets are the last buckets of the table (their
    probe windows wrap through the mirror bytes into slots 0..14) are emplaced and clear()ed before the program runs;
    the client keys include them.  Lower-case mode = trivially destructible element type."""
    real = 32 if cap == "D" else int(cap)
    hs = {}
    for k in list(range(200, 200 + nset)) + [1, 2]:
        hs[k] = hval((k * 11) % 128, real - 1 - (k % 5) + real * (k % 2))
    return {"mode": mode, "cap": str(cap), "hashes": hs, "prefill": [], "setup": list(range(200, 200 + nset)),
            "threads": threads, "nsched": nsched}


REUSE = [
    reuse("x", 16, 8, [["E201", "F201"], ["E201", "F203"]]),
    reuse("s", 16, 10, [["E204", "F204"], ["I204"], ["C207"]]),
    reuse("m", 16, 9, [["B202", "F202"], ["T202", "F206"]]),
    reuse("S", 16, 10, [["E204", "F204"], ["I204", "F1"]]),
    reuse("M", 32, 12, [["B202", "F202"], ["T202"], ["E206"]]),
    reuse("s", 32, 14, [["E209", "F209"], ["E1", "C211"]]),
    reuse("s", 16, 20, [["E204", "F204"], ["E205", "F1"]]),        # chained before clear(): rebuilt as one table
    reuse("m", "D", 5, [["E201", "F201"], ["B201", "F203"]]),
    reuse("x", 64, 40, [["E205", "F205"], ["E207", "F230"], ["C239"]]),
]


def model_cap(p):
    """capacity of the fresh table the model starts from (clear() of a chained set rebuilds it as one table)"""
    setup = p.get("setup") or []
    if not setup or p["mode"].upper() == "X":
        return p["cap"]
    n = len(set(setup))
    if p["cap"] == "D" or n > int(p["cap"]):
        b = 16
        while b < n:
            b *= 2
        return str(b)
    return p["cap"]


def fields(p, model=False):
    hs = ",".join("%d:%d" % (k, v) for k, v in sorted((int(k), v) for k, v in p["hashes"].items())) or "-"
    pre = ",".join(str(k) for k in p["prefill"]) or "-"
    prog = "|".join(",".join(th) for th in p["threads"])
    if model:
        return p["mode"].upper(), model_cap(p), hs, pre, prog
    return p["mode"], p["cap"], hs, pre, prog


def setup_field(p):
    return ",".join(str(k) for k in (p.get("setup") or [])) or "-"


def main(argv):
    chk = Check("C03", argv)
    thorough = chk.tier == "thorough"
    chk.translate(["hash_table", "hash_table_conc"])
    chk.coq("Properties_C03.v")
    # release/acquire publication obligations, orders from the regenerated site tables; when an order was weakened the
    # proof breaks AND the search prints a bad execution of the release/acquire view machine
    li = "Require Import Verif.HC.HCLitmus."
    chk.wm_litmus("tag-publication", li, "mp_store_fence_safe tag_store_order find_fence_order && "
                  "mp_store_fence_safe mirror_store_order emplace_fence_order",
                  "mp_store_fence (if has_release tag_store_order then mirror_store_order else tag_store_order) "
                  "(if has_acquire find_fence_order then emplace_fence_order else find_fence_order)", "mp_bad",
                  "the release store of the tag (slot or mirror) or the acquire fence after the group load was weakened: a "
                  "reader that sees the tag can read an element that is not constructed yet", machine="RA")
    chk.wm_litmus("next-publication", li, "mp_cas_safe next_cas_order next_load_find_head_order && "
                  "mp_cas_safe next_cas_order next_load_find_node_order && mp_cas_safe next_cas_order next_load_emplace_order",
                  "mp_cas_publish next_cas_order (if has_acquire next_load_find_head_order then "
                  "(if has_acquire next_load_find_node_order then next_load_emplace_order else next_load_find_node_order) "
                  "else next_load_find_head_order)", "mp_cas_bad",
                  "the next-pointer CAS lost its release or a next load its acquire: a thread can use a chained table "
                  "whose control bytes are not initialised yet", machine="RA")
    chk.wm_litmus("next-cas-loser", li, "has_acquire next_cas_fail_order && mp_cas_loser_safe next_cas_order",
                  "mp_cas_loser (if has_acquire next_cas_fail_order then next_cas_order else Release)", "mp_loser_bad",
                  "the failing next-pointer CAS does not acquire: the loser can use the winner's table before its "
                  "initialisation is visible", machine="RA")
    model = chk.extract("hc", "Extract_hc.v", "hc_driver.ml")
    impl = chk.build_cpp("c03_hash_table", [os.path.join(VERIF, "harness/conc/c03_hash_table.cpp"),
                                            os.path.join(VERIF, "harness/shim/dsched.cpp")],
                         flags=["-fno-access-control"], ldflags=["-ldl"])
    rng = chk.rng
    progs = []      # (pid, program dict, small)
    if chk.replay:
        r = json.load(open(chk.replay))["replay"]
        progs = [("r0", r["program"], r.get("small", False))]
        scheds = [(r["seed"], r["strategy"], r.get("choices", "-"))]
    else:
        for i, p in enumerate(DIRECTED):
            progs.append(("d%d" % i, p, True))
        for i, p in enumerate(SLOW):
            progs.append(("w%d" % i, p, True))
        for i, p in enumerate(REUSE):
            progs.append(("u%d" % i, p, True))
        for i, p in enumerate(DEEP_SEQ):
            progs.append(("q%d" % i, p, True))
        for i, p in enumerate(DEEP_CONC):
            progs.append(("p%d" % i, p, False))
        seen = set()
        n_small, n_big = (50, 60) if not thorough else (300, 400)
        for small, n in ((True, n_small), (False, n_big)):
            tries = 0
            cnt = 0
            while cnt < n and tries < 20 * n:
                tries += 1
                p = gen_program(rng, small)
                key = fields(p) + (setup_field(p),)
                if key in seen:
                    continue
                seen.add(key)
                progs.append(("%s%d" % ("s" if small else "b", cnt), p, small))
                cnt += 1
        nsched = 24 if not thorough else 150
        # no PCT: do_emplace busy-waits on a BUSY byte (sched_yield loop), which needs a fair scheduler
        scheds = [(rng.below(1 << 31), [0, 3][i % 2], "-") for i in range(nsched)]
    lines = []
    meta = {}
    for pid, p, small in progs:
        f = fields(p)
        for si, (seed, strat, choices) in enumerate(scheds[:p.get("nsched", len(scheds))]):
            cid = "%s.%d" % (pid, si)
            lines.append("%s %d %d %s %s %s %s %s %s %s" % ((cid, seed, strat) + f + (choices, setup_field(p))))
            meta[cid] = (pid, p, small, seed, strat, choices)
    chk.log("%d programs, %d cases" % (len(progs), len(lines)))
    # phase 1: three schedules of every program; the remaining schedules only run when phase 1 is clean (a broken
    # implementation that spins for ever would otherwise cost a livelock time-out per case)
    first = [l for l in lines if int(l.split()[0].rsplit(".", 1)[1]) < 3]
    rest = [l for l in lines if int(l.split()[0].rsplit(".", 1)[1]) >= 3]
    impl_out = chk.run_cases(impl, first, timeout=300) if impl else {}
    bad1 = [l for l in impl_out.values() if l.startswith("DSCHED-STUCK") or l.startswith("CRASH") or "=0" in l.split(" | ")[-1].split(" ! ")[0]]
    if impl and rest and not bad1:
        impl_out.update(chk.run_cases(impl, rest, timeout=900))
    elif bad1:
        chk.log("phase 1 found %d failing cases; remaining %d cases skipped" % (len(bad1), len(rest)))
        lines = first
    model_sets = {}
    states = trans = 0
    if model:
        mlines = ["%s %s %s %s %s %s" % ((pid,) + fields(p, model=True)) for pid, p, small in progs if small]
        mo = chk.run_cases(model, mlines, timeout=1800)
        for pid, l in mo.items():
            if "outcomes=" not in l:
                chk.broke("harness", "model driver", l[:300])
                continue
            f = dict(x.split("=", 1) for x in l.split()[1:5])
            states += int(f.get("states", 0))
            trans += int(f.get("trans", 0))
            outs = set(l.split("outcomes=", 1)[1].split(";"))
            model_sets[pid] = (outs, f.get("trunc") == "true")
            prog = [p for q, p, _ in progs if q == pid][0]
            if int(f.get("stuck", "0")) > 0:
                chk.violate("model-stuck", "model admits an execution that never finishes: %s" % l[:300],
                            {"level": "model", "program": prog})
            for o in outs:
                if "BADREAD" in o or "DBLCONS" in o or "NODELEAK" in o:
                    chk.violate("model-ghost-flag", "model execution reads an unconstructed slot / constructs twice / leaks "
                                "a node: %s" % o[:300], {"level": "model", "program": prog})
    validated = 0
    distinct = set()
    for cid, l in impl_out.items():
        pid, p, small, seed, strat, choices = meta[cid]
        rep = {"program": p, "seed": seed, "strategy": strat, "choices": choices, "small": small, "impl_line": l[:600]}
        if l.startswith("DSCHED-STUCK"):
            kind = "deadlock" if "deadlock" in l.split()[1] else "livelock"
            chk.violate("stuck-" + kind, "threads never finish (%s): %s" % (kind, l[:400]), rep)
            continue
        if l.startswith("CRASH"):
            chk.violate("crash", "implementation crashed under schedule: " + l[:300], rep)
            continue
        parts = l.split(" | ")
        if len(parts) != 3:
            chk.broke("harness", "unparsable driver line", l)
            continue
        monpart = parts[2].split(" ! ")[0]
        mon = dict(x.split("=") for x in monpart.split())
        for m in MON:
            if mon.get(m) != "1":
                chk.violate("mon-" + m, WHAT[m] + ": " + (parts[2].split(" ! ", 1)[1] if " ! " in parts[2] else "") +
                            " | " + parts[1][:300], rep)
        distinct.add((pid, parts[1]))
        if small and pid in model_sets:
            outs, trunc = model_sets[pid]
            validated += 1
            if parts[1] not in outs and not trunc:
                chk.broke("correspondence", "HCModel does not admit outcome of %s" % " ".join(fields(p)),
                          "impl outcome: %s\nmodel outcomes: %s" % (parts[1], sorted(outs)[:12]))
    chk.cov["evaluations"] = len(lines)
    chk.cov["distinct_nontrivial"] = len(distinct)
    chk.cov["traces_validated_against_impl"] = validated
    chk.cov["states"] = states
    chk.cov["transitions"] = trans
    chk.cov["rule"] = ("case = (container kind fixed/set/map, initial capacity 16/32/default, harness-chosen hash per key, "
                       "sequential prefill, client program, schedule seed, strategy); keys collide completely / share the "
                       "7-bit tag / share the base group / are random; base groups are aimed at the ends of the table "
                       "(wrap-around through the mirror bytes); prefill brings the table(s) to 0, full-2, full-1, full or "
                       "two-tables-full so that the threads race for the last slots, plus re-used containers (keys homed in the last buckets emplaced and clear()ed before the program, incl. "
                       "a chained set rebuilt by clear(), over non-trivial AND trivially destructible element types; the model "
                       "starts from a fresh table), plus deep-probe programs (64 / 128 buckets, 32-52 keys on one home bucket incl. the table end: keys "
                       "displaced into the 3rd / 4th group of the triangular probe sequence, looked up during and after; the "
                       "single-thread ones are also run through the extracted model), plus slow-constructor programs (the winner blocks for "
                       "15 ms of virtual time between its CAS and its tag store while others insert the same / colliding keys), fail on a full fixed table or race on "
                       "the next-pointer CAS (default-constructed head included); strategies: uniform random, round-robin "
                       "with random pre-emptions (no PCT: the BUSY spin-wait needs a fair scheduler); distinct non-trivial = distinct (program, observed outcome) "
                       "pairs; small programs are explored exhaustively in the extracted model and every implementation "
                       "outcome must be in the model's outcome set")
    ids = list(impl_out)
    for cid in ids[:: max(1, len(ids) // 5)]:
        chk.sample({"case": [x for x in lines if x.split()[0] == cid][0][:400], "impl": impl_out[cid][:400]})
    chk.cov["trusted_base"] = chk.cov.get("trusted_base", []) + [
        "translator/gen.py", "ExtrOcamlBasic extraction + explorer in ocaml/hc_driver.ml",
        "harness/shim (verif_atomic.h macro shim, dsched.cpp)",
        "harness/conc/c03_hash_table.cpp: operator new/delete replacement, -fno-access-control, K_USER points in "
        "hash functor / key equality / element constructor"]
    chk.assumptions = ["sequentially consistent interleavings (one shared access per step); weak-memory effects are covered "
                       "only by the memory-order obligations on the regenerated site tables",
                       "a torn SIMD group load is a byte-wise mix of states; justified by per-position invariants and "
                       "byte monotonicity (c03_bytes_monotone), not executed",
                       "the hash functor is a function of the key; key equality is decidable and agrees with the hash"]
    chk.finish("proof")
