"""C15 — transient topic: each subscriber sees every item once, in order, then the end."""
import json
import os
import vlib
from vlib import Check, VERIF

META = {
    "engine": "E1+E2+E3+E4",
    "text": "The end marker's slot is accessible for every number of published items incl. 128*k, where it is the first "
            "slot of an untouched block (c15_close_marker_slot_accessible; close()'s accessor is regenerated; programs "
            "closing at block boundaries before any consumer asks are executed).  "
            "Coq theorems over an interleaving model of ConcurrentTransientTopic (publish/publish_n, close, "
            "Consumer::consume single and batch, subscribe, clear) at atomic-operation granularity, for every client "
            "program, every number of publisher and consumer threads and every schedule: a consumer has received "
            "exactly the first `cursor` items of the publication-index order (each once, in order, with the value "
            "the publisher wrote), returns short / the end marker only at the CLOSED slot after everything before "
            "it was delivered, in-flight publishers own disjoint index ranges, a parked consumer sits on a slot that "
            "is still INITIAL or has a wake-up in flight (no lost wake-up), non-parked threads can always step, "
            "clear() re-establishes the initial shared state.  Status constants, the waiter-bit tests, the wait word, "
            "the index arithmetic and all memory orders are regenerated from transient_topic.{h,hpp} on every run.  "
            "Tie: the real class (over the real ConcurrentVector) runs under a deterministic scheduler that pre-empts "
            "at every atomic operation / futex call (no repo edits); for small programs every outcome it produces "
            "must be one the extracted model admits (exhaustive exploration); monitors check the property text "
            "directly on every run (sequence per consumer, slot addresses, half-written items, blocking, end marker, "
            "termination).",
    "note": "Trusted: Coq kernel; translator; extraction (ExtrOcamlBasic only) + OCaml explorer; macro shim and dsched "
            "(serialises threads: sequentially consistent executions only - the release/acquire/seq_cst obligations "
            "are checked against the regenerated site table, not executed; whole-algorithm weak-memory composition "
            "is not mechanised); kernel futex semantics modelled (compare-and-park atomically, wake_all wakes every "
            "parked thread, no spurious wake-ups); ConcurrentVector abstracted to an unbounded array in the model "
            "(C04 covers it) - the per-block repetition of fill/fence/store/wake inside one publish_n is therefore "
            "one chunk in the model, while the implementation runs the real 128-slot blocks.  Usage rules are a ghost "
            "`misuse` flag (publish after close, consume(0), consumer kept across clear(), clear() while another "
            "thread is inside an operation); clear() is one model step because its rule demands quiescence.  "
            "Liveness is stated as 'no reachable trap': parked => slot INITIAL or wake in flight, and every "
            "non-parked unfinished thread is enabled; fair-scheduler termination is the standard step from there.",
}

MON = ["val", "once", "order", "rt", "slot", "fill", "size", "block", "end", "sticky"]
WHAT = {
    "val": "a consumer received a value nobody published in this epoch (half-written, stale or foreign item)",
    "once": "a consumer received the same item twice",
    "order": "consumers disagree on the item order / a batch is not delivered consecutively in batch order",
    "rt": "an item published after another publish had returned was delivered before it",
    "slot": "two publishers were handed the same slot, or a consumer read a different slot than the publisher wrote",
    "fill": "a publisher's slot was overwritten while it was filling it",
    "size": "consume(k) returned more than k items / publish_n handed out a wrong number of slots",
    "block": "consume(k) returned fewer than k items although close() had not been called",
    "end": "a consumer received the end marker before every published item was delivered",
    "sticky": "a consumer received items after the end marker",
}

# programs aimed at the windows the property names (see harness/conc/c15_topic.cpp for the syntax)
AIMED_SMALL = [
    "P,X|L1", "P,X|L2", "N2,X|L1", "N2,X|L3", "P,P,X|L1", "P,X|L1|L1", "N2,X|L1|L2", "P,X|c,c,c",
    "P,B,X|P,B|B,L2", "P,B,X|P,B|C1,B,L1", "N0,P,X|L1", "P,X|C2,C1|L1", "X|L1|C2", "P,X,L1|L1",
    "P,X,B,B,P,X|L1,B,B,S,L1|B,Z,B", "P,X,B,B,X|c,B,B,S,L1|B,Z,B", "N2,X|C1,C1,C1|L2",
    "P,X,B,B,N3,X|L1,B,B,S,L2|B,Z,B", "P,X,B,B,P,P,X|L1,B,B,S,L1|B,Z,B", "N2,X,B,B,P,X|B,B,S,L2|B,Z,B",
]
AIMED_BIG = [
    "N127,P,P,X|L2|L128|L129|L3", "N130,X|L129|L64|L1", "N126,B,X|N5,B|P,B|C64,B,L127|B,L200",
    "N3,P,B,X|N2,N2,B|P,N3,B|C4,B,L3|B,L2|C1,C1,B,L64",
    "N3,X,B,B,N2,P,X,B,B,P,X|L2,B,B,S,L2,B,B,S,L1|B,Z,B,S,L5,B,Z,B,S,L1|C1,B,B,S,C2,L1,B,B,S,c,c",
    "N129,X,B,B,N3,X|L128,B,B,S,L2|B,Z,B,S,L130|L7,B,B,S,L1",
    "P,P,P,P,P,P,X|L1|L2|L3|c,c,c,c,c,c,c",
    # close() when exactly 128*k items were published and no consumer has asked for the marker's slot yet: the marker
    # is the first slot of an untouched block
    "N128,X,B|B,L5", "N127,P,X,B|B,L64|B,L129", "N128,N128,X,B|B,L300|B,L7",
    "N128,X,B,B,B,N128,X,B|B,L128,B,B,S,B,L3|B,B,Z,B,S,B,L130",
]


def gen_program(rng, small):
    """-> program text; well-formed by construction (usage rules kept, no self-deadlock)."""
    if small:
        npub, ncons = rng.choice([(1, 1), (1, 2), (2, 1), (1, 1), (1, 2)])
        maxitems, nepoch = 3, (2 if rng.chance(1, 6) else 1)
    else:
        npub, ncons = 1 + rng.below(3), 1 + rng.below(4)
        maxitems, nepoch = rng.choice([6, 12, 40, 140]), rng.choice([1, 1, 2, 3])
    nt = npub + ncons + (1 if nepoch > 1 else 0)          # last thread: the one that calls clear()
    threads = [[] for _ in range(nt)]
    for ep in range(nepoch):
        use_bar = npub > 1 or nepoch > 1 or rng.chance(1, 3)
        total = 0
        budget = maxitems
        for p in range(npub):
            nops = 1 + rng.below(1 if small else 3)
            for _ in range(nops):
                if budget <= 0:
                    break
                if rng.chance(1, 2):
                    threads[p].append("P")
                    total += 1
                    budget -= 1
                else:
                    k = rng.choice([0, 1, 2, 2, 3] if small else [0, 1, 2, 3, 5, 17, 64, 126, 127, 128, 129, 131])
                    k = min(k, budget)
                    threads[p].append("N%d" % k)
                    total += k
                    budget -= k
        sizes = [1, 2, 3] if small else [1, 2, 3, 7, 63, 64, 127, 128, 129, 200]
        for c in range(npub, npub + ncons):
            if ep > 0:
                threads[c].append("S")
            demand = 0
            if use_bar:
                for _ in range(rng.below(3)):            # bounded consumes that the publishes alone satisfy
                    k = rng.choice(sizes)
                    if demand + k <= total:
                        threads[c].append("c" if k == 1 and rng.chance(1, 2) else "C%d" % k)
                        demand += k
                threads[c].append("B")
            for _ in range(rng.below(2 if small else 3)):
                k = rng.choice(sizes)
                threads[c].append("c" if k == 1 and rng.chance(1, 2) else "C%d" % k)
            if rng.chance(5, 6):
                threads[c].append("L%d" % rng.choice(sizes))
        if use_bar:
            for p in range(npub):
                threads[p].append("B")
            if nepoch > 1:
                threads[nt - 1].append("B")
        threads[rng.below(npub)].append("X")
        if rng.chance(1, 5):
            threads[rng.below(npub)].append("X")         # closing twice is harmless
        if ep + 1 < nepoch:
            for t in range(nt):
                threads[t].append("B")
            threads[nt - 1].append("Z")
            for t in range(nt):
                threads[t].append("B")
    return "|".join(",".join(t) for t in threads if t)


def bars_ok(prog):
    n = [t.split(",").count("B") for t in prog.split("|")]
    return len(set(n)) == 1


def main(argv):
    chk = Check("C15", argv)
    thorough = chk.tier == "thorough"
    chk.translate(["topic"])
    chk.coq("Properties_C15.v")
    # store-buffer half: the publish/close skeleton with the fences as regenerated from the source; when a fence
    # was weakened the search prints the lost-wake-up execution of the store-buffer machine
    defs = ("Require Import Verif.Gen.Gen_topic.\n"
            "Definition pf : bool := match sites_publish_n with [_; _; _; _; (KFence, o, _)] => is_seq_cst o | _ => false end.\n"
            "Definition cf : bool := match sites_close with [_; (KFence, o, _)] => is_seq_cst o | _ => false end.")
    chk.wm_litmus("publish-fence", defs, "batch_wake_safe pf", "[waker pf; waiter]", "lost_wakeup",
                  "publish_n's fence before wakeup_waiters is not seq_cst: a consumer can park while the publisher "
                  "misses its waiter bit")
    chk.wm_litmus("publication", "Require Import Verif.Gen.Gen_topic.\n"
                  "Definition pf : morder := match sites_publish_n with [_; _; _; (KFence, o, _); _] => o | _ => Relaxed end.\n"
                  "Definition cf : morder := match sites_consume with [(KFence, o, _)] => o | _ => Relaxed end.",
                  "mp_fence_orders_safe pf cf", "mp_fence_orders pf cf", "mp_bad",
                  "publish_n's release fence or consume's acquire fence was weakened: a consumer can read an item "
                  "before the publisher's writes are visible", machine="RA")
    chk.wm_litmus("close-fence", defs, "batch_wake_safe cf", "[waker cf; waiter]", "lost_wakeup",
                  "close()'s fence before wakeup_waiters is not seq_cst: a consumer can park and never see the end")
    model = chk.extract("tt", "Extract_tt.v", "tt_driver.ml", explorer=True)
    impl = chk.build_cpp("c15_topic", [os.path.join(VERIF, "harness/conc/c15_topic.cpp"),
                                       os.path.join(VERIF, "harness/shim/dsched.cpp")], ldflags=["-ldl"])
    rng = chk.rng
    progs = []    # (pid, text, small)
    if chk.replay:
        r = json.load(open(chk.replay))["replay"]
        progs = [("r0", r["program"], r.get("small", False))]
        scheds = [(r["seed"], r["strategy"])]
    else:
        seen = set()
        for p in AIMED_SMALL:
            progs.append(("s%d" % len(progs), p, True))
            seen.add(p)
        for p in AIMED_BIG:
            progs.append(("b%d" % len(progs), p, False))
            seen.add(p)
        n_small, n_big = (25, 45) if not thorough else (120, 400)
        for small, n in ((True, n_small), (False, n_big)):
            got = tries = 0
            while got < n and tries < 50 * n:
                tries += 1
                p = gen_program(rng, small)
                nops = sum(len(t.split(",")) for t in p.split("|"))
                if p in seen or not bars_ok(p) or (small and nops > 8):
                    continue
                seen.add(p)
                progs.append(("%s%d" % ("s" if small else "b", len(progs)), p, small))
                got += 1
        nsched = 24 if not thorough else 150
        scheds = [(rng.below(1 << 31), [0, 3, 1, 0, 3][i % 5]) for i in range(nsched)]
    lines = []
    meta = {}
    for pid, p, small in progs:
        for si, (seed, strat) in enumerate(scheds):
            cid = "%s.%d" % (pid, si)
            lines.append("%s %d %d %s" % (cid, seed, strat, p))
            meta[cid] = (pid, p, small, seed, strat)
    chk.log("%d programs x %d schedules" % (len(progs), len(scheds)))
    impl_out = chk.run_cases(impl, lines, timeout=900) if impl else {}
    model_sets = {}
    states = trans = 0
    if model:
        mlines = ["%s %s" % (pid, p) for pid, p, small in progs if small]
        mo = chk.run_cases(model, mlines, timeout=900)
        for pid, l in mo.items():
            if "outcomes=" not in l:
                chk.broke("harness", "model driver", l[:300])
                continue
            f = dict(x.split("=", 1) for x in l.split()[1:6])
            states += int(f.get("states", 0))
            trans += int(f.get("trans", 0))
            outs = l.split("outcomes=", 1)[1]
            model_sets[pid] = (set(outs.split(";")), f.get("trunc") == "true")
            if int(f.get("deadlocks", "0")) > 0 and f.get("trunc") != "true":
                chk.violate("model-deadlock", "model admits an execution in which a consumer is never woken: %s" % l[:300],
                            {"level": "model", "program": [p for q, p, _ in progs if q == pid][0]})
            if int(f.get("misuse", "0")) > 0:
                chk.broke("harness", "generator produced a program that breaks a usage rule", l[:200])
    validated = 0
    distinct = set()
    for cid, l in impl_out.items():
        pid, p, small, seed, strat = meta[cid]
        rep = {"program": p, "seed": seed, "strategy": strat, "small": small, "impl_line": l[:600]}
        if l.startswith("DSCHED-STUCK"):
            kind = "deadlock" if "deadlock" in l.split()[1] else "livelock"
            chk.violate("stuck-" + kind, "a consumer is never woken / threads never finish (%s) on %s: %s" % (kind, p[:80], l[:300]), rep)
            continue
        if l.startswith("CRASH"):
            chk.violate("crash", "implementation crashed under schedule on %s: %s" % (p[:80], l[:300]), rep)
            continue
        parts = l.split(" | ")
        if len(parts) != 3:
            chk.broke("harness", "unparsable driver line", l[:300])
            continue
        mon = dict(x.split("=") for x in parts[2].split())
        for m in MON:
            if mon.get(m) != "1":
                chk.violate("mon-" + m, WHAT[m] + ": program %s -> %s" % (p[:120], parts[1][:300]), rep)
        distinct.add((pid, parts[1]))
        if small and pid in model_sets:
            outs, trunc = model_sets[pid]
            if trunc:
                continue
            validated += 1
            if parts[1] not in outs:
                chk.broke("correspondence", "TTModel does not admit outcome of %s" % p,
                          "impl outcome: %s\nmodel outcomes: %s" % (parts[1], sorted(outs)[:20]))
    chk.cov["evaluations"] = len(lines)
    chk.cov["distinct_nontrivial"] = len(distinct)
    chk.cov["traces_validated_against_impl"] = validated
    chk.cov["states"] = states
    chk.cov["transitions"] = trans
    chk.cov["rule"] = ("case = (client program, schedule seed, strategy); programs = fixed list aimed at the named windows "
                       "(close racing with the last publish's wake-up, waiter registration vs. status store, batches and "
                       "consume sizes 127/128/129/200 around the 128-slot block, empty publish_n, double close, "
                       "publish/close/clear cycles) + seeded random mixes of 1-3 publishers (publish, publish_n 0..131) and "
                       "1-4 consumers (consume(), consume(k), drain loops), 1-3 epochs separated by clear(); strategies: "
                       "uniform random, round-robin with random pre-emptions, PCT depth 3; distinct non-trivial = distinct "
                       "(program, observed per-operation results) pairs; small programs are explored exhaustively in the "
                       "extracted model and every implementation outcome must be in the model's outcome set")
    ids = list(impl_out)
    for cid in ids[:: max(1, len(ids) // 5)]:
        chk.sample({"case": "%s %d %d %s" % ((cid,) + (meta[cid][3], meta[cid][4], meta[cid][1][:200])), "impl": impl_out[cid][:400]})
    chk.cov["trusted_base"] = chk.cov.get("trusted_base", []) + [
        "translator/gen.py", "ExtrOcamlBasic extraction + ocaml/explore.ml + ocaml/tt_driver.ml",
        "harness/shim (verif_atomic.h macro shim, dsched.cpp: futex/usleep interposition)",
        "modelled not verified: kernel futex, ConcurrentVector (C04), operator new"]
    chk.assumptions = ["sequentially consistent interleavings at atomic-operation granularity (weak-memory effects are "
                       "covered only by the memory-order obligations on the regenerated site table)",
                       "documented usage: close() after every publish began (misuse flag otherwise), clear() only while no "
                       "other thread is inside an operation, consumers re-subscribe after clear(), consume(k) with k >= 1",
                       "no index overflow of size_t"]
    chk.finish("proof")
