"""C19 — counters / thread-locals: aggregates exact across thread and instance churn."""
import json
import os
import vlib
from vlib import Check, VERIF

META = {
    "engine": "E1+E2+E3+E5",
    "text": "stub",
    "note": "stub",
}

KINDS_MODEL = ["A", "S", "X", "N", "C"]
INT64_MIN = -(1 << 63)
INT64_MAX = (1 << 63) - 1


def gen_history(rng, kind, size, aim):
    """one history; aim selects what the generator steers at."""
    movable = kind in ("A", "C", "E")
    has_reset = kind in ("A", "X", "N")
    can_enum = kind in ("C", "E")
    ops = []
    live_t = []
    live_c = []
    free_t = list(range(0, 12))
    nh = 6 if aim != "manyinst" else 40
    free_c = list(range(0, nh))
    used_c = set()

    def spawn():
        t = free_t.pop(rng.below(len(free_t)))
        live_t.append(t)
        ops.append("sp%d" % t)
        return t

    def any_t():
        return rng.choice(live_t)

    spawn()
    if rng.chance(1, 2):
        spawn()
    if aim == "manyinst":
        # more instances than one cache line holds -> second storage; C has 16 per line
        n0 = 17 + rng.below(6)
        for _ in range(n0):
            c = free_c.pop(0)
            live_c.append(c)
            ops.append("n%d@%d" % (c, any_t()))
    if aim == "manythreads":
        for _ in range(4):
            if free_t:
                spawn()
    vals = [0, 1, 2, 3, 5, 7, -1, -4, 100, 1 << 40, -(1 << 40)]
    if kind in ("X", "N"):
        vals += [INT64_MAX - 1, INT64_MIN + 1]
        if aim == "extreme":
            vals += [INT64_MIN, INT64_MAX] * 3
    for _ in range(size):
        r = rng.below(100)
        if not live_c or (r < 8 and free_c):
            # prefer re-creating at a handle used before (storage recycling)
            c = free_c.pop(rng.below(len(free_c)))
            live_c.append(c)
            if movable and live_c[:-1] and rng.chance(1, 4):
                d = rng.choice(live_c[:-1])
                ops.append("mc%d,%d@%d" % (c, d, any_t()))
            else:
                ops.append("n%d@%d" % (c, any_t()))
            if rng.chance(2, 3):
                ops.append("r%d@%d" % (c, any_t()))
            continue
        if r < 16 and len(live_c) > 0:
            c = live_c.pop(rng.below(len(live_c)))
            free_c.insert(0, c)
            ops.append("d%d@%d" % (c, any_t()))
            continue
        if r < 24 and free_t:
            spawn()
            continue
        if r < 32 and len(live_t) > 1:
            t = live_t.pop(rng.below(len(live_t)))
            free_t.append(t)
            ops.append("ex%d" % t)
            continue
        if r < 36 and movable and len(live_c) > 1:
            c = rng.choice(live_c)
            d = rng.choice(live_c)
            ops.append("mv%d,%d@%d" % (c, d, any_t()))
            continue
        if r < 40 and has_reset:
            ops.append("z%d@%d" % (rng.choice(live_c), any_t()))
            continue
        if r < 58:
            ops.append("r%d@%d" % (rng.choice(live_c), any_t()))
            continue
        if r < 70 and can_enum:
            ops.append("%s%d@%d" % (rng.choice(["fe", "fa", "fc", "fc"] if aim != "alive" else ["fa", "fc", "fe"]),
                                    rng.choice(live_c), any_t()))
            continue
        ops.append("a%d,%d@%d" % (rng.choice(live_c), rng.choice(vals), any_t()))
    for c in live_c:
        ops.append("r%d@%d" % (c, any_t()))
        if can_enum:
            ops.append("fe%d@%d" % (c, any_t()))
            ops.append("fc%d@%d" % (c, any_t()))
    return ops


def main(argv):
    chk = Check("C19", argv)
    thorough = chk.tier == "thorough"
    chk.translate(["counter"])
    chk.coq("Properties_C19.v")
    model = chk.extract("ct", "Extract_ct.v", "ct_driver.ml")
    lib = chk.repolib_all()
    impl = chk.build_cpp("c19_counter", [os.path.join(VERIF, "harness/seq/c19_counter.cpp")], objs=[lib],
                         flags=["-fno-access-control"]) if lib else None
    rng = chk.rng
    cases = []   # (cid, kind, ops)
    if chk.replay:
        r = json.load(open(chk.replay))["replay"]
        cases = [("r0", r["kind"], r["ops"])]
    else:
        n = 40 if not thorough else 400
        for kind in ["A", "S", "X", "N", "C", "E"]:
            aims = ["plain", "plain", "manythreads"]
            if kind in ("X", "N"):
                aims.append("extreme")
            if kind in ("C",):
                aims += ["manyinst", "alive"]
            if kind in ("E",):
                aims += ["alive"]
            for i in range(n):
                aim = aims[i % len(aims)]
                cases.append(("%s%d" % (kind.lower(), i), kind, gen_history(rng, kind, 20 + rng.below(60), aim)))
    lines = ["%s %s %s" % (cid, kind, " ".join(ops)) for cid, kind, ops in cases]
    chk.log("%d histories" % len(lines))
    impl_out = chk.run_cases(impl, lines, timeout=600) if impl else {}
    model_out = chk.run_cases(model, [l for l, c in zip(lines, cases) if c[1] in KINDS_MODEL], timeout=600, jobs=4) if model else {}
    validated = 0
    for cid, kind, ops in cases:
        rep = {"kind": kind, "ops": ops}
        l = impl_out.get(cid)
        if l is None:
            continue
        if " CRASH" in l[:len(cid) + 8]:
            chk.violate("crash", "driver crashed on history: %s" % l[:200], rep)
            continue
        obs, mon = l.split(" | ")
        for m in mon.split():
            if m.endswith("=0"):
                chk.violate("mon-" + m[:-2], "monitor %s failed: %s" % (m[:-2], mon[:300]), rep)
        ml = model_out.get(cid)
        if ml is not None:
            validated += 1
            if ml.strip() != obs.strip():
                chk.broke("correspondence", "CTModel vs implementation on %s" % cid, "impl : %s\nmodel: %s\nops: %s" % (obs, ml, " ".join(ops)))
                if len([b for b in chk.broken if b[0] == "correspondence"]) > 3:
                    break
    chk.cov["evaluations"] = len(lines)
    chk.cov["traces_validated_against_impl"] = validated
    chk.finish("proof")
