"""C19 — counters / thread-locals: aggregates exact across thread and instance churn."""
import json
import os
import vlib
from vlib import Check, VERIF

META = {
    "engine": "E1+E2+E3+E5",
    "text": "Coq theorems over an executable model of ThreadId recycling, EnumerableThreadLocal (one-entry cache keyed "
            "by the never reused _id, storage indexed by thread id, block-wise growth), CompactEnumerableThreadLocal "
            "(instance id -> (storage, cache-line offset), destructor zeroing, id recycling, move = swap) and the "
            "adder/summer/maxer/miner cells, for EVERY history of thread spawn/exit and counter construct/destroy/"
            "move/add/reset: value() of an adder/summer at a quiescent point is exactly the sum (and count) of what was "
            "added to that counter through every public mutator (adder <<, summer << value and << Summary{sum,num} with "
            "either half zero or negative, reset), a new counter reads zero whatever it recycles, local() is private to a live thread "
            "and stable until it exits, for_each covers every line ever used, the const for_each_alive stays in "
            "bounds.  The slot formulas (id %% N, id / N), the cache test, for_each/for_each_alive bounds and clamps, "
            "the zeroing index, the comparer and version tests, the absence of any condition in the summer's reader loop are regenerated from thread_local.h / counter.h on every "
            "run, so an edited expression re-opens a proof.  Tie: the extracted model and the real classes (real "
            "threads in strict hand-off, thread exit = join, forked process per history) replay the same histories and "
            "must print the same instance ids, slot indexes, read values and visited lists; monitors check the "
            "property text directly against harness-side totals, plus a concurrent reader-bounds stress run.  "
            "Construction racing with destruction: an interleaving machine (destructor sweep one store per step, then "
            "release of the id, in the statement ORDER regenerated from the source; another thread pops the allocator and "
            "counts) is proved exact for every schedule, and the real classes run that race under the deterministic "
            "scheduler (all single/double pre-emption schedules of destructor vs constructor+count, pre-emption points "
            "inside the sweep through a hooked element type) and as a real-thread stress.",
    "note": "Also proved: maxer/miner value() = extreme of the current period for every sample value (sentinels "
            "included), both for_each_alive overloads stay in bounds and visit exactly the lines of live threads the "
            "storage has room for, reader bounds for every schedule of an interleaving machine (on the real classes: "
            "concurrent stress monitor, non-deterministic).  Two earlier refutations (non-const for_each_alive out of "
            "bounds; sentinel sample reported as empty period) were reproduced on the real code and fixed in /repo "
            "(31db6ff, 37f7c2a); the clamps and the `!has_result ||` disjunct are regenerated targets, so reverting a "
            "fix re-opens a proof, and the former witnesses are fixed histories of every run.  Assumptions: "
            "threads_small (< 65408 thread ids ever allocated; for_each casts size() to uint16_t: 65536 lines wrap to "
            "0; not replayed), histories shorter than SIZE_MAX operations (period version vs Slot sentinel).  Trusted: "
            "Coq kernel, translator (regex/cond targets; `_comparer(a,b)` printed as a-b inside read_accept and fed "
            "(outcome,0)), ExtrOcamlBasic extraction + ocaml/ct_driver.ml, harness/seq/c19_counter.cpp "
            "(-fno-access-control to read ids), ghost fields g_sum/g_cnt/g_per/g_used of the model as the meaning of "
            "'everything added'.",
}


KINDS_MODEL = ["A", "S", "X", "N", "C"]
INT64_MIN = -(1 << 63)
INT64_MAX = (1 << 63) - 1


def gen_history(rng, kind, size, aim):
    """one history; aim selects what the generator steers at."""
    movable = kind in ("A", "C", "E")
    has_reset = kind in ("A", "X", "N")
    can_enum = kind in ("C", "E")
    ops = []
    live_t = []
    live_c = []
    free_t = list(range(0, 12))
    nh = 6 if aim != "manyinst" else 40
    free_c = list(range(0, nh))
    used_c = set()

    def spawn():
        t = free_t.pop(rng.below(len(free_t)))
        live_t.append(t)
        ops.append("sp%d" % t)
        return t

    def any_t():
        return rng.choice(live_t)

    spawn()
    if rng.chance(1, 2):
        spawn()
    if aim == "manyinst":
        # more instances than one cache line holds -> second storage; C has 16 per line
        n0 = 17 + rng.below(6)
        for _ in range(n0):
            c = free_c.pop(0)
            live_c.append(c)
            ops.append("n%d@%d" % (c, any_t()))
    if aim == "manythreads":
        for _ in range(4):
            if free_t:
                spawn()
    vals = [0, 1, 2, 3, 5, 7, -1, -4, 100, 1 << 40, -(1 << 40)]
    if kind in ("X", "N"):
        vals += [INT64_MAX - 1, INT64_MIN + 1]
        if aim == "extreme":
            vals += [INT64_MIN, INT64_MAX] * 3
    for _ in range(size):
        r = rng.below(100)
        if not live_c or (r < 8 and free_c):
            # prefer re-creating at a handle used before (storage recycling)
            c = free_c.pop(rng.below(len(free_c)))
            live_c.append(c)
            if movable and live_c[:-1] and rng.chance(1, 4):
                d = rng.choice(live_c[:-1])
                ops.append("mc%d,%d@%d" % (c, d, any_t()))
            else:
                ops.append("n%d@%d" % (c, any_t()))
            if rng.chance(2, 3):
                ops.append("r%d@%d" % (c, any_t()))
            continue
        if r < 16 and len(live_c) > 0:
            c = live_c.pop(rng.below(len(live_c)))
            free_c.insert(0, c)
            ops.append("d%d@%d" % (c, any_t()))
            continue
        if r < 24 and free_t:
            spawn()
            continue
        if r < 32 and len(live_t) > 1:
            t = live_t.pop(rng.below(len(live_t)))
            free_t.append(t)
            ops.append("ex%d" % t)
            continue
        if r < 36 and movable and len(live_c) > 1:
            c = rng.choice(live_c)
            d = rng.choice(live_c)
            ops.append("mv%d,%d@%d" % (c, d, any_t()))
            continue
        if r < 40 and has_reset:
            ops.append("z%d@%d" % (rng.choice(live_c), any_t()))
            continue
        if r < 58:
            ops.append("r%d@%d" % (rng.choice(live_c), any_t()))
            continue
        if r < 70 and can_enum:
            ops.append("%s%d@%d" % (rng.choice(["fe", "fa", "fc", "fc"] if aim != "alive" else ["fa", "fc", "fe"]),
                                    rng.choice(live_c), any_t()))
            continue
        if kind == "S" and rng.chance(1, 2):
            # ConcurrentSummer << Summary{sum, num}: each half zero separately (sum-only / num-only), both, neither, negative
            sm, nm = rng.choice([(42, 0), (-5, 0), (1 << 40, 0), (0, 1), (0, 3), (0, 0), (7, 2), (-9, 1), (3, -1), (-(1 << 40), 5)])
            ops.append("b%d,%d,%d@%d" % (rng.choice(live_c), sm, nm, any_t()))
            continue
        ops.append("a%d,%d@%d" % (rng.choice(live_c), rng.choice(vals), any_t()))
    for c in live_c:
        ops.append("r%d@%d" % (c, any_t()))
        if can_enum:
            ops.append("fe%d@%d" % (c, any_t()))
            ops.append("fc%d@%d" % (c, any_t()))
    return ops


def targeted(kind):
    """deterministic boundary histories (the windows the property names)"""
    out = []
    if kind in ("C",):
        # former out-of-bounds witness (fixed 31db6ff): 17th instance lives in an untouched second storage
        out.append(["sp0"] + ["n%d@0" % i for i in range(17)] + ["a0,5@0", "fc16@0", "fe16@0", "fa16@0", "r16@0", "a16,3@0", "fa16@0", "r16@0"])
        # a full cache line of instances, destroyed and recreated in another order: every offset recycled
        h = ["sp0", "sp1"] + ["n%d@0" % i for i in range(16)]
        h += ["a%d,%d@%d" % (i, i + 1, i % 2) for i in range(16)]
        h += ["d%d@1" % i for i in (3, 0, 15, 7, 8)] + ["n%d@1" % i for i in (20, 21, 22, 23, 24)]
        h += ["r%d@0" % i for i in (20, 21, 22, 23, 24, 1, 2, 14)]
        out.append(h)
    if kind in ("C", "A", "S", "E"):
        # more live threads than one block of the storage vector (128): second block, ids beyond the first
        nt = 140
        h = ["sp%d" % t for t in range(nt)] + ["n0@0", "n1@0"]
        h += ["a0,%d@%d" % (t + 1, t) for t in range(nt)] + ["r0@5"]
        h += ["ex%d" % t for t in range(100, 140)] + ["r0@5"]
        h += ["sp%d" % t for t in range(200, 220)] + ["a0,1000@%d" % t for t in range(200, 220)] + ["r0@3", "a1,9@139", "r1@0"]
        if kind in ("C", "E"):
            h += ["fc0@0", "fe0@0", "fc1@0", "fe1@0", "fa0@0"]
        h += ["d0@0", "n2@0", "r2@0"]
        out.append(h)
    if kind in ("X", "N"):
        ext = INT64_MIN if kind == "X" else INT64_MAX
        out.append(["sp0", "n0@0", "a0,%d@0" % ext, "r0@0"])                       # former sentinel witness (fixed 37f7c2a)
        out.append(["sp0", "sp1", "n0@0", "r0@0", "a0,5@0", "a0,-7@1", "r0@0", "z0@0", "r0@1", "a0,-9@1", "r0@0", "ex1", "r0@0",
                    "sp2", "a0,-20@2", "r0@2", "z0@2", "a0,-3@2", "r0@0", "d0@0", "n1@2", "r1@2", "a1,2@2", "r1@0"])
    if kind == "S":
        # every shape of the Summary overload on live threads, exited threads and recycled slots / instances
        out.append(["sp0", "n0@0", "b0,42,0@0", "r0@0"])                                   # lone sum-only contribution
        out.append(["sp0", "sp1", "n0@0", "a0,10@0", "b0,-5,0@1", "r0@0", "ex1", "r0@0",   # sum-only from another thread, which exits
                    "sp2", "r0@2", "b0,0,4@2", "r0@0", "a0,1@2", "r0@2", "ex2", "r0@0"])     # its slot reused: num-only, then a sample
        out.append(["sp0", "sp1", "sp2", "n0@0", "n1@0", "b0,7,0@1", "b1,0,3@2", "b0,0,0@0", "r0@0", "r1@0", "ex1", "ex2", "r0@0", "r1@0",
                    "d0@0", "n2@0", "r2@0", "b2,-3,0@0", "r2@0", "sp3", "b2,3,0@3", "r2@3", "b2,5,-1@3", "b2,0,1@0", "r2@0",
                    "d1@0", "d2@0", "n3@3", "r3@3", "b3,1099511627776,0@3", "ex3", "r3@0"])
    if kind == "E":
        # address reuse: destroyed and re-created at the same address, threads keep a cache entry for the old one
        out.append(["sp0", "sp1", "n0@0", "a0,5@0", "a0,7@1", "d0@0", "n0@0", "r0@0", "a0,1@1", "a0,2@0", "r0@1", "fe0@0",
                    "n1@0", "fc1@0", "fa1@0", "mv0,1@1", "r0@0", "r1@0", "a1,4@0", "r1@1", "d1@1", "mc1,0@0", "r1@1", "a1,1@1", "r1@0"])
    return out


def sig_of(kind, mon, info):
    return "mon-" + mon


WHAT = {
    "exact": "value() at a quiescent point differs from what was added",
    "fresh": "a newly constructed counter does not read zero",
    "private": "two live threads were given the same local() slot",
    "stable": "a live thread's local() slot changed",
    "allused": "for_each misses a slot that local() returned",
    "alive": "for_each_alive does not visit exactly the slots of live threads",
    "oob": "for_each_alive visits memory outside the instance's storage",
}


def main(argv):
    chk = Check("C19", argv)
    thorough = chk.tier == "thorough"
    chk.translate(["counter"])
    chk.coq("Properties_C19.v")
    model = chk.extract("ct", "Extract_ct.v", "ct_driver.ml")
    lib = chk.repolib_all()
    impl = chk.build_cpp("c19_counter", [os.path.join(VERIF, "harness/seq/c19_counter.cpp")], objs=[lib],
                         flags=["-fno-access-control"]) if lib else None
    rec = chk.build_cpp("c19_recycle", [os.path.join(VERIF, "harness/conc/c19_recycle.cpp"),
                                        os.path.join(VERIF, "harness/shim/dsched.cpp")], flags=["-fno-access-control"],
                        ldflags=["-ldl"])
    rng = chk.rng
    cases = []   # (cid, kind, ops)
    rcases = []  # destructor-vs-constructor cases for the scheduler driver: (cid, fields)
    if chk.replay:
        r = json.load(open(chk.replay))["replay"]
        if r.get("driver") == "recycle":
            rcases = [("r0", r["fields"])]
        else:
            cases = [("r0", r["kind"], r["ops"])]
    else:
        # destructor of X racing with construction of / counting into another instance Y (dsched):
        #  directed: B runs j points, A k points, then B to completion (every pre-emption point of the destructor);
        #  plus seeded random / pre-emptive schedules with a third thread counting into a neighbour
        jmax, kmax = (8, 36) if not thorough else (16, 48)
        for kind in "HAX":
            for xadds in (1,):
                for j in range(jmax):
                    for k in range(kmax):
                        ch = [1] + [0] * j + [1] + [0] * k + [1]
                        rcases.append(("%s.d%d.%d" % (kind, j, k), [kind, 1, 2, 2, 0, xadds, 1, 0, "5,6", "-", ",".join(map(str, ch))]))
                for k in range(kmax):
                    ch = [0] + [0] * k + [1]
                    rcases.append(("%s.a%d" % (kind, k), [kind, 1, 2, 1, 2, xadds, 0, 0, "9", "-", ",".join(map(str, ch))]))
            for i in range(60 if not thorough else 600):
                rcases.append(("%s.s%d" % (kind, i), [kind, rng.below(1 << 31), [0, 3, 1][i % 3], rng.below(4), rng.below(3), rng.below(2),
                                                      rng.below(2), rng.below(2), "5,6,%d" % (1 + rng.below(9)), "1,2,3", "-"]))
        for i in range(3 if not thorough else 12):
            cases.append(("pr%d" % i, "PR", ["100", "200", "400" if not thorough else "1500"]))
        n = 40 if not thorough else 500
        for kind in ["A", "S", "X", "N", "C", "E"]:
            for j, h in enumerate(targeted(kind)):
                cases.append(("%st%d" % (kind.lower(), j), kind, h))
            aims = ["plain", "plain", "manythreads"]
            if kind in ("X", "N"):
                aims.append("extreme")
            if kind in ("C",):
                aims += ["manyinst", "alive"]
            if kind in ("E",):
                aims += ["alive"]
            for i in range(n):
                aim = aims[i % len(aims)]
                cases.append(("%s%d" % (kind.lower(), i), kind, gen_history(rng, kind, 20 + rng.below(60 if not thorough else 200), aim)))
        reps = 3 if not thorough else 20
        for kind in ["PA", "PS", "PX", "PN"]:
            for i in range(reps):
                for churn in (0, 1):
                    cases.append(("%s%d_%d" % (kind.lower(), i, churn), kind,
                                  [str(2 + rng.below(5)), str(20000 if not thorough else 200000), "3000", str(churn)]))
    lines = ["%s %s %s" % (cid, kind, " ".join(ops)) for cid, kind, ops in cases]
    chk.log("%d histories" % len(lines))
    seq_lines = [l for l, c in zip(lines, cases) if c[1][0] != "P"]
    par_lines = [l for l, c in zip(lines, cases) if c[1][0] == "P"]
    impl_out = chk.run_cases(impl, seq_lines, timeout=900) if impl else {}
    if impl and par_lines:
        impl_out.update(chk.run_cases(impl, par_lines, timeout=900, jobs=2))
    rlines = ["%s %s" % (cid, " ".join(str(f) for f in fields)) for cid, fields in rcases]
    rec_out = chk.run_cases(rec, rlines, timeout=900) if rec and rlines else {}
    recycled = 0
    for cid, fields in rcases:
        l = rec_out.get(cid)
        rep = {"driver": "recycle", "fields": fields}
        if l is None:
            continue
        if l.startswith("DSCHED-STUCK") or "CRASH" in l.split()[1:2]:
            chk.violate("recycle-crash", "destructor/constructor race driver stuck or crashed: %s" % l[:300], rep)
            continue
        if " | " not in l:
            chk.broke("harness", "unparsable recycle driver line", l[:300])
            continue
        obs, mon = l.split(" | ")[1:3]
        if "recycled=1" in obs:
            recycled += 1
        for m in mon.split():
            if m.endswith("=0"):
                chk.violate("recycle-" + m[:-2], "a counter constructed while another instance was being destroyed does not read "
                            "exactly what was counted into it / a neighbour or a later counter is wrong (%s): %s" % (m[:-2], obs),
                            dict(rep, impl_line=l))
    model_out = chk.run_cases(model, [l for l, c in zip(lines, cases) if c[1] in KINDS_MODEL], timeout=900) if model else {}
    validated = 0
    nontrivial = set()
    ncorr = 0
    for cid, kind, ops in cases:
        rep = {"kind": kind, "ops": ops}
        l = impl_out.get(cid)
        if l is None:
            continue
        if l.split()[1:2] == ["CRASH"] or l.startswith("CRASH"):
            chk.violate("crash", "the real classes crashed on this history: %s" % l[:200], rep)
            continue
        if " | " not in l:
            chk.broke("harness", "unparsable driver line", l[:300])
            continue
        obs, mon = l.split(" | ", 1)
        if kind[0] == "P":
            for m in mon.split(" fail=")[0].split():
                if m.endswith("=0"):
                    what = ("a counter constructed while another one was being destroyed lost a contribution (real threads)"
                            if kind == "PR" else "concurrent readers: a read was outside [completed before, started before] or "
                            "the final value is wrong")
                    chk.violate("par-" + m[:-2], "%s (%s): %s" % (what, m[:-2], mon[:300]), dict(rep, impl_line=l))
            nontrivial.add((kind, " ".join(ops)))
            continue
        fails = mon.split(" fail=")[1:]
        flagged = set()
        for f in fails:
            name, _, rest = f.partition("@")
            opi, _, info = rest.partition(":")
            sig = sig_of(kind, name, info)
            flagged.add(name)
            chk.violate(sig, "%s (kind %s, op #%s %s): %s" % (WHAT.get(name, name), kind, opi,
                                                               ops[int(opi)] if opi.isdigit() and int(opi) < len(ops) else "", info),
                        dict(rep, impl_line=l[:2000]))
        for m in mon.split(" fail=")[0].split():
            if m.endswith("=0") and m[:-2] not in flagged:
                chk.violate("mon-" + m[:-2], WHAT.get(m[:-2], m[:-2]), dict(rep, impl_line=l[:2000]))
        # measured non-triviality: an instance id handed out twice and a slot index used by two different threads
        toks = obs.split()[1:]
        iids = [t.split("=")[1] for t in toks if t.startswith("n=") or t.startswith("mc=")]
        slot_threads = {}
        for o, t in zip(ops, toks):
            if t.startswith("a=") and "@" in o:
                slot_threads.setdefault(t[2:], set()).add(o.split("@")[1])
        if len(iids) != len(set(iids)) and any(len(v) > 1 for v in slot_threads.values()):
            nontrivial.add((kind, " ".join(ops)))
        ml = model_out.get(cid)
        if ml is not None:
            validated += 1
            if ml.strip() != obs.strip():
                ncorr += 1
                if ncorr <= 3:
                    mt, it = ml.split(), obs.split()
                    k = next((i for i in range(min(len(mt), len(it))) if mt[i] != it[i]), min(len(mt), len(it)))
                    chk.broke("correspondence", "CTModel vs implementation, kind %s" % kind,
                              "first difference at op #%d (%s): impl %s model %s\nops: %s" %
                              (k - 1, ops[k - 1] if 0 < k <= len(ops) else "?", it[k] if k < len(it) else "-",
                               mt[k] if k < len(mt) else "-", " ".join(ops)[:1500]))
        elif kind in KINDS_MODEL and model:
            chk.broke("correspondence", "model driver gave no line for %s" % cid, "")
    chk.cov["evaluations"] = len(lines) + len(rlines)
    chk.cov["recycle_schedules"] = len(rlines)
    chk.cov["recycle_schedules_in_which_the_new_instance_got_the_dying_id"] = recycled
    chk.cov["distinct_nontrivial"] = len(nontrivial) + recycled
    chk.cov["traces_validated_against_impl"] = validated
    chk.cov["rule"] = ("case = (kind, history); kinds: ConcurrentAdder, ConcurrentSummer, ConcurrentMaxer, ConcurrentMiner, "
                       "CompactEnumerableThreadLocal<int64,1> (16 per line), EnumerableThreadLocal (monitors only), plus "
                       "concurrent reader-bounds stress runs; histories are seeded random mixes of thread spawn/exit, "
                       "construct/destroy/move-assign/move-construct (handles re-used so ids and addresses recycle), add "
                       "(boundary values incl. INT64_MIN/MAX for maxer/miner), read, reset, for_each, for_each_alive (both "
                       "overloads), steered at many instances (second storage), many threads, and enumeration; plus fixed "
                       "boundary histories: the two former refutation witnesses, 140 live threads (second vector block) with exit "
                       "and re-spawn, a full cache line of instances recycled, address reuse of a destroyed "
                       "EnumerableThreadLocal; and, under the deterministic scheduler (every atomic of the id allocators / vector and "
                       "every element assignment of the zeroing sweep is a pre-emption point), the destructor of one instance "
                       "racing with construction of and counting into another: all (j,k) single/double pre-emption schedules "
                       "plus seeded random ones, for a hooked element type, ConcurrentAdder and ConcurrentMaxer; plus a "
                       "real-thread construct-while-destroy stress.  distinct non-trivial = histories in which an instance id was handed out "
                       "twice AND a slot index was used by two different threads (measured from the implementation's "
                       "output), plus the stress runs, plus the race schedules in which the new instance recycled the dying id")
    for cid, kind, ops in cases[:: max(1, len(cases) // 5)]:
        chk.sample({"case": "%s %s %s" % (cid, kind, " ".join(ops)[:300]), "impl": (impl_out.get(cid) or "")[:300],
                    "model": (model_out.get(cid) or "")[:300]})
    chk.cov["trusted_base"] = chk.cov.get("trusted_base", []) + [
        "translator/gen.py (regex/cond/ret targets of thread_local.h and counter.h -> Z terms)",
        "extraction: ExtrOcamlBasic only; ocaml/ct_driver.ml",
        "harness/seq/c19_counter.cpp (hand-off threads, fork per history, -fno-access-control to read _instance_id/_storage)",
        "harness/conc/c19_recycle.cpp + harness/shim (dsched; Hooked element type adds pre-emption points inside the sweep)",
        "modelled not verified: IdAllocator as a sequential LIFO free list (C14), ConcurrentVector growth in blocks (C04), "
        "operator new memory (zero/constructed blocks), 128-bit SSE add of the summer as two independent 64-bit adds"]
    chk.assumptions = ["fewer than 65408 thread ids ever allocated per cell type (uint16 cast of size() in for_each)",
                       "no integer overflow of the sums (model integers are unbounded)",
                       "fewer than 2^64-1 resets of one maxer/miner (version never reaches the SIZE_MAX sentinel)",
                       "quiescent reads; concurrent reads are covered by the stress monitor only (x86-64 TSO)"]
    chk.finish("proof")
