"""C09 — Epoch: nothing becomes reclaimable while a reader that may see it is in a region."""
import json
import os
import vlib
from vlib import Check, VERIF

META = {
    "engine": "E1+E2+E3+E4",
    "text": "Coq theorems over an interleaving model of babylon::Epoch (slots = version|IDLE + lock_times, global "
            "version, id allocator, slot vector size) at atomic-operation granularity together with the client "
            "protocol (pointer cell, unlink = exchange + tick, collect = low_water_mark scan + free), for every "
            "client program, every number of threads/accessors and every schedule, thread-local and Accessor "
            "style, nested locks, Accessor objects handed between threads, accessors created/released during "
            "the scan.  The regenerated pieces (IDLE value, lock_times tests, tick offset, scan bounds and min "
            "update, memory orders) come from epoch.h / id_allocator.hpp / vector.hpp on every run.  Tie: the real "
            "Epoch runs under a deterministic scheduler that pre-empts at every atomic operation (no repo edits); "
            "every outcome (tick values, low-water marks, objects freed, objects read) must be one the extracted "
            "model admits (exhaustive exploration per small program); monitors check the property text itself "
            "on every run: no use of a freed object, a region entered before an unlink holds the mark below "
            "that unlink's tick, nothing but live regions holds the mark back.",
    "note": "",   # filled in below (NOTE)
}

NOTE = ("PROVED for all programs / schedules / thread and accessor counts, thread-local and Accessor style, nesting, "
        "Accessor hand-over, create/release during a scan (sequentially consistent interleavings, fewer than 2^64-1 "
        "ticks): c09_safety_sc (no reader dereferences a reclaimed object), c09_held_not_freed, c09_reader_holds_mark "
        "(slot published with a version below every tick taken after the unlink of what the reader holds; every "
        "running scan has a minimum below that tick or still has the slot ahead inside its bound; no finished scan "
        "allows the reclaim), c09_open_region_published (nesting + move), c09_unlocked_slot_idle, c09_slots_exclusive, "
        "c09_released_never_blocks (a slot whose accessor is unlocked, released - also while locked, since fix "
        "053c9bd - or never bound has lock_times = 0 and is idle), c09_reused_slot_clean, c09_lock_times_is_depth, "
        "memory-order / constant obligations.  PARTIAL (store-buffer half of the "
        "quantifier): c09_litmus_all_executions (generic machine WM/TSO.v, lifted by TSOProofs.outcomes_sound) and "
        "c09_tso_entry_fence_skeleton (EP/EPTsoModel.v, also carries the version values) prove, on an explicit store-buffer machine, for ALL schedules incl. "
        "buffer flushes, that reader(load version; store slot; fence; load cell) vs writer(store cell; RMW tick; load "
        "slot) never both miss each other when the regenerated site table has the seq_cst entry fence after the slot "
        "store and the x86 tick is a seq_cst RMW; c09_tso_without_fence_refuted / c09_litmus_no_entry_fence_refuted / "
        "c09_litmus_tick_relaxed_refuted exhibit the miss otherwise; this is the ONE-slot, one-reader "
        "skeleton on the x86 tick branch only - its composition with the full algorithm and the non-x86 branch (relaxed "
        "RMW + seq_cst fence) are covered only by the order obligations on the site table, not mechanised.  The dsched "
        "scheduler produces sequentially consistent executions of the real code only.  IdAllocator::allocate/deallocate "
        "and ConcurrentVector::ensure/snapshot are single model steps at their linearisation points (their own "
        "correctness is C14/C04); thread exit (ThreadId release) is not modelled inside a run (any allocator history is "
        "allowed initially).  Trusted: Coq kernel; translator; extraction (ExtrOcamlBasic only) + OCaml explorer; macro "
        "shim and dsched; -fno-access-control in the harness (monitors read Epoch::_version without a scheduling point).")
META["note"] = NOTE


# ------------------------------------------------------------------------------------------------ programs
def fmt(threads):
    return "|".join(",".join(t) for t in threads)


def gen_small(rng, tl):
    """2-3 threads, a reader-ish, a writer-ish, possibly a third; few ops: explorable in the model."""
    nt = 2 + (1 if rng.chance(1, 3) else 0)
    threads = []
    owners = []
    if tl:
        reader_shapes = [["L0", "R0", "D0", "U0"], ["L0", "R0", "U0", "D0"], ["L0", "L0", "U0", "R0", "D0", "U0"],
                         ["L0", "R0", "D0"], ["L0", "U0", "L0", "R0", "D0", "U0"], ["R0", "L0", "R0", "D0", "U0"]]
    else:
        reader_shapes = [["C0", "L0", "R0", "D0", "U0"], ["C0", "L0", "R0", "D0", "U0", "X0"],
                         ["C0", "L0", "L0", "U0", "R0", "D0", "U0"], ["C0", "L0", "R0", "G0:1"],
                         ["C0", "X0", "C0", "L0", "R0", "D0"], ["C0", "L0", "R0", "U0", "D0"],
                         ["L0", "C0", "L0", "R0", "D0", "U0"], ["C0", "L0", "R0", "X0", "C0", "L0", "R0", "D0"]]
    writer_shapes = [["K", "Z"], ["K", "Z", "Z"], ["K", "K", "Z"], ["Z", "K", "Z"], ["K"], ["K", "Z", "K", "Z"]]
    rs = list(rng.choice(reader_shapes))
    threads.append(rs)
    ws = list(rng.choice(writer_shapes))
    if (not tl) and any(o.startswith("G0:1") for o in rs):
        # the receiving thread finishes the region
        ws = rng.choice([["D0", "U0", "K", "Z"], ["K", "D0", "Z", "U0"], ["K", "Z", "D0", "U0", "Z"], ["D0", "K", "Z", "D0"]])
    threads.append(ws)
    if nt == 3:
        if tl:
            third = rng.choice([["L0", "R0", "D0", "U0"], ["K", "Z"], ["L0", "U0"], ["Z"]])
        else:
            third = rng.choice([["C1", "L1", "R1", "D1", "U1"], ["K", "Z"], ["C1", "X1"], ["C1", "L1", "U1", "X1"], ["Z"]])
        threads.append(list(third))
    if not tl:
        owners = [0, 2 if nt == 3 else 0]
    return threads, owners


def gen_big(rng, tl):
    nt = 2 + rng.below(3)
    nh = 1 + rng.below(3)
    owners = [rng.below(nt) for _ in range(nh)]
    threads = []
    for t in range(nt):
        ops = []
        depth = {}
        bound = set()
        n = 3 + rng.below(8)
        role = rng.below(3)   # 0 reader, 1 writer, 2 mixed
        for _ in range(n):
            r = rng.below(100)
            if role != 0 and r < (45 if role == 1 else 25):
                ops.append(rng.choice(["K", "Z", "K", "Z", "Z"]))
                continue
            if tl:
                h = 0
                d = depth.get(h, 0)
                c = rng.below(10)
                if d == 0 or c < 2:
                    ops.append("L0"); depth[h] = d + 1
                elif c < 5:
                    ops.append("R0")
                elif c < 8:
                    ops.append("D0")
                else:
                    ops.append("U0"); depth[h] = d - 1
            else:
                mine = [h for h in range(nh) if owners[h] == t]
                if not mine:
                    ops.append(rng.choice(["K", "Z", "L0", "R0"]))
                    continue
                h = rng.choice(mine)
                d = depth.get(h, 0)
                if h not in bound:
                    ops.append("C%d" % h); bound.add(h); depth[h] = 0
                    continue
                c = rng.below(15)
                if d == 0:
                    if c < 9:
                        ops.append("L%d" % h); depth[h] = 1
                    elif c < 11:
                        ops.append("X%d" % h); bound.discard(h)
                    elif c < 12:
                        ops.append("R%d" % h)
                    else:
                        ops.append("B%d" % (1 + rng.below(3)))
                else:
                    if c < 2:
                        ops.append("L%d" % h); depth[h] = d + 1
                    elif c < 6:
                        ops.append("R%d" % h)
                    elif c < 10:
                        ops.append("D%d" % h)
                    elif c < 13:
                        ops.append("U%d" % h); depth[h] = d - 1
                    elif c == 14:
                        ops.append("X%d" % h); bound.discard(h); depth[h] = 0   # release while locked
                    else:
                        to = rng.below(nt)
                        ops.append("G%d:%d" % (h, to))
                        if to != t:
                            owners = list(owners)   # static view only; the receiver's ops are guarded at run time
                            bound.discard(h)
        threads.append(ops)
    # receivers of a given handle try to finish the region
    for t in range(nt):
        for ops in list(threads):
            for o in ops:
                if o[0] == "G" and int(o.split(":")[1]) == t and ops is not threads[t]:
                    h = o[1:].split(":")[0]
                    k = rng.below(len(threads[t]) + 1)
                    threads[t][k:k] = ["D" + h, "U" + h]
    return threads, ([] if tl else owners)


TARGETED = [
    # (mode, owners, program): the windows the property names
    ("acc", [0], "C0,L0,R0,D0,D0,U0|K,Z,Z"),
    ("acc", [0], "C0,L0,L0,U0,R0,D0,U0,Z|K,Z,K,Z"),
    ("acc", [0, 1], "C0,L0,R0,D0,U0,X0|C1,L1,R1,D1,U1|K,Z,K,Z"),
    ("acc", [0], "C0,L0,R0,G0:1,K,Z|D0,D0,U0,D0|K,Z,Z"),
    ("acc", [0, 1, 2], "C0,X0,C0,L0,R0,D0,U0|C1,C2,X1,L2,R2,D2,U2,X2|K,Z,K,Z"),
    ("acc", [0, 1], "B2,C0,L0,R0,D0,U0|K,Z,C1,L1,R1,Z,D1,U1|K,Z"),
    ("tl", [], "L0,R0,D0,D0,U0|K,Z,Z"),
    ("tl", [], "L0,L0,U0,R0,D0,U0,L0,R0,D0,U0|K,Z,K,Z|L0,R0,D0,U0,K,Z"),
    ("tl", [], "L0,R0,U0,L0,R0,D0,U0|K,Z|K,Z|L0,R0,D0,U0"),
    ("acc", [0, 1, 2, 3], "C0,L0,R0,D0,U0,Z|C1,L1,R1,D1,U1,K|C2,L2,R2,D2,U2,Z|C3,K,Z,L3,R3,D3,U3|K,Z,Z"),
    # slot index beyond the first block of the slot vector (block = 1024)
    ("acc1023", [0, 1], "C0,C1,L1,R1,D1,D1,U1|K,Z,Z|L0,R0,K,D0,Z,U0"),
    ("acc1024", [0, 1], "C0,B3,L0,R0,Z,Z,Z,D0,U0|Z,K,Z,C1,L1,R1,D1,U1,Z|Z,K,Z"),
]

# release() of an Accessor whose region is still open (was the finding release-while-locked-holds-mark, fixed in 053c9bd:
# the slot must become idle and a reused slot must start with lock_times = 0)
RWL = [
    ("acc", [0], "C0,L0,X0|K,Z"),
    ("acc", [0, 0], "C0,L0,R0,X0,C1,L1,U1|K,Z,Z"),
    ("acc", [0, 0], "C0,L0,L0,X0,C1,L1,R1,D1,U1,Z|K,Z,K,Z"),
    ("acc", [0, 1], "C0,L0,R0,X0,Z|C1,L1,R1,D1,U1,X1|K,Z,Z"),
]


def main(argv):
    chk = Check("C09", argv)
    thorough = chk.tier == "thorough"
    chk.translate(["epoch"])
    chk.coq("Properties_C09.v")
    # store-buffer half: when the entry fence / the seq_cst tick were weakened in the source, search the
    # store-buffer machine for the execution in which reader and writer miss each other (model-level replay)
    defs = ("Require Import Verif.Gen.Gen_epoch.\n"
            "Definition ef : bool := match sites_lock with [(KLoad, _, _); (KStore, _, _); (KFence, o, _)] => is_seq_cst o | _ => false end.\n"
            "Definition tf : bool := match sites_tick with (KFadd, o, _) :: _ => is_seq_cst o | _ => false end.")
    chk.wm_litmus("epoch-entry", defs, "epoch_safe ef tf", "[epoch_reader ef; epoch_writer tf]", "epoch_bad",
                  "Epoch::lock's entry fence or tick()'s read-modify-write is not seq_cst (or the slot store moved "
                  "behind the fence): a reader inside its region still sees the old object while the writer's scan "
                  "misses the reader's slot")
    model = chk.extract("ep", "Extract_ep.v", "ep_driver.ml", explorer=True)
    impl = chk.build_cpp("c09_epoch", [os.path.join(VERIF, "harness/conc/c09_epoch.cpp"),
                                       os.path.join(VERIF, "harness/shim/dsched.cpp")],
                         flags=["-fno-access-control"], ldflags=["-ldl"])
    rng = chk.rng
    progs = []   # (pid, mode, owners, threads-string, family)
    if chk.replay:
        r = json.load(open(chk.replay))["replay"]
        progs = [("r0", r["mode"], r["owners"], r["program"], r.get("family", "big"))]
        scheds = {"r0": [(r["seed"], r["strategy"])]}
    else:
        seen = set()
        n_small, n_big = (44, 50) if not thorough else (160, 400)
        for fam, n in (("small", n_small), ("big", n_big)):
            tries = 0
            cnt = 0
            while cnt < n and tries < 30 * n:
                tries += 1
                tl = rng.chance(2, 5)
                th, owners = gen_small(rng, tl) if fam == "small" else gen_big(rng, tl)
                key = ("tl" if tl else "acc", tuple(owners), fmt(th))
                if key in seen or (fam == "small" and sum(len(t) for t in th) > 13):
                    continue
                seen.add(key)
                progs.append(("%s%d" % (fam[0], len(progs)), key[0], owners, fmt(th), fam))
                cnt += 1
        for i, (mode, owners, p) in enumerate(TARGETED):
            progs.append(("t%d" % i, mode, owners, p, "targeted"))
        for i, (mode, owners, p) in enumerate(RWL):
            progs.append(("w%d" % i, mode, owners, p, "rwl"))
        nsched = 24 if not thorough else 100
        base = [(rng.below(1 << 31), [0, 3, 1, 3][i % 4]) for i in range(nsched)]
        more = [(rng.below(1 << 31), [3, 0, 1][i % 3]) for i in range(3 * nsched)]
        scheds = {}
        for pid, mode, owners, p, fam in progs:
            scheds[pid] = base + (more if fam in ("targeted",) else [])
    lines = []
    meta = {}
    for pid, mode, owners, p, fam in progs:
        for si, (seed, strat) in enumerate(scheds[pid]):
            cid = "%s.%d" % (pid, si)
            lines.append("%s %d %d %s %s %s" % (cid, seed, strat, mode, ",".join(map(str, owners)) or "-", p))
            meta[cid] = (pid, mode, owners, p, fam, seed, strat)
    chk.log("%d programs, %d runs" % (len(progs), len(lines)))
    impl_out = chk.run_cases(impl, lines, timeout=900) if impl else {}
    model_sets = {}
    states = trans = 0
    if model:
        mlines = []
        for pid, mode, owners, p, fam in progs:
            if fam in ("small", "rwl") or (fam == "targeted" and mode in ("acc", "tl") and "B" not in p and len(p) < 34):
                mlines.append("%s %s %s %s" % (pid, mode, ",".join(map(str, owners)) or "-", p))
        mo = chk.run_cases(model, mlines, timeout=1500)
        for pid, l in mo.items():
            if "outcomes=" not in l:
                chk.broke("harness", "model driver", l[:300])
                continue
            f = dict(x.split("=", 1) for x in l.split()[1:5])
            states += int(f.get("states", 0))
            trans += int(f.get("trans", 0))
            outs = set(l.split("outcomes=", 1)[1].split(";"))
            model_sets[pid] = (outs, "trunc=true" in l)
            fam = [x for x in progs if x[0] == pid][0][4]
            if any(o.endswith("uaf=1") for o in outs):
                chk.violate("model-uaf", "the model admits a schedule in which a reader uses a reclaimed object: %s"
                            % l[:300], {"level": "model", "program": [x for x in progs if x[0] == pid][0][3]})
    MON = ["uaf", "holdback", "stale", "tick"]
    WHAT = {"uaf": "a reader inside its region dereferenced an object that had been reclaimed",
            "holdback": "low_water_mark() reached the tick of an unlink that happened after a still open region was entered",
            "stale": "low_water_mark() is held back although no region that overlaps the call justifies it "
                     "(an unlocked/released accessor holds the mark back)",
            "tick": "tick() returned a duplicate / out of range value"}
    SIG = {}
    validated = 0
    distinct = set()
    for cid, l in impl_out.items():
        pid, mode, owners, p, fam, seed, strat = meta[cid]
        rep = {"mode": mode, "owners": owners, "program": p, "seed": seed, "strategy": strat, "family": fam, "impl_line": l}
        if l.startswith("DSCHED-STUCK"):
            chk.violate("stuck", "threads never finish under the scheduler: " + l[:400], rep)
            continue
        if l.startswith("CRASH"):
            chk.violate("crash", "implementation crashed under schedule: " + l[:300], rep)
            continue
        parts = l.split(" | ")
        if len(parts) != 3:
            chk.broke("harness", "unparsable driver line", l)
            continue
        mon = dict(x.split("=") for x in parts[2].split())
        for m in MON:
            if mon.get(m) != "1":
                chk.violate(SIG.get(m, "mon-" + m), WHAT[m] + ": " + p + " -> " + parts[1], rep)
        distinct.add((pid, parts[1]))
        if pid in model_sets:
            outs, trunc = model_sets[pid]
            validated += 1
            if parts[1] not in outs and not trunc:
                chk.broke("correspondence", "EPModel does not admit outcome of %s %s" % (mode, p),
                          "impl outcome: %s\nmodel outcomes (%d): %s" % (parts[1], len(outs), sorted(outs)[:12]))
    chk.cov["evaluations"] = len(lines)
    chk.cov["distinct_nontrivial"] = len(distinct)
    chk.cov["traces_validated_against_impl"] = validated
    chk.cov["states"] = states
    chk.cov["transitions"] = trans
    chk.cov["rule"] = ("case = (client program, schedule seed, strategy); programs: seeded random reader/writer mixes over "
                       "2-4 threads (create/lock/nested lock/unlock/release/give accessor/read/deref, unlink+tick, "
                       "collect), thread-local and Accessor style, plus hand-written programs aimed at the windows the "
                       "property names (unlink between entry and read, nested unlock, accessor handed to another "
                       "thread, create/release during the scan, slot index beyond the first 1024-slot block) with 4x "
                       "the schedules; strategies: uniform random, round-robin with random pre-emptions, PCT depth 3; "
                       "distinct non-trivial = distinct (program, observed outcome) pairs; small programs are explored "
                       "exhaustively in the extracted model and every implementation outcome must be in the model's set")
    for cid in list(impl_out)[:: max(1, len(impl_out) // 5)]:
        chk.sample({"case": lines[[x.split()[0] for x in lines].index(cid)], "impl": impl_out[cid]})
    chk.cov["trusted_base"] = chk.cov.get("trusted_base", []) + [
        "translator/gen.py", "ExtrOcamlBasic extraction + ocaml/explore.ml + ocaml/ep_driver.ml",
        "harness/shim (verif_atomic.h macro shim, dsched.cpp), -fno-access-control in harness/conc/c09_epoch.cpp",
        "modelled not verified: IdAllocator / ConcurrentVector internals (single steps at linearisation points), operator new"]
    chk.assumptions = ["sequentially consistent interleavings at atomic-operation granularity; store-buffer delays only "
                       "through the memory-order obligations and the one-slot TSO skeleton (see note)",
                       "fewer than 2^64-1 ticks (the global version never reaches the IDLE sentinel)",
                       "usage rules: an Accessor object is used by one thread at a time (owner hand-over), lock/unlock "
                       "balanced, thread-local and Accessor style not mixed on one Epoch"]
    chk.finish("proof")
