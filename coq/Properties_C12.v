From Coq Require Import ZArith List.
Require Import Verif.Gen.Gen_reusable_vector Verif.RV.RVModel Verif.RV.RVProofs.
Import ListNotations.

Theorem c12_stub : size empty_vec = 0.
Proof. exact rv_stub. Qed.
Print Assumptions c12_stub.
