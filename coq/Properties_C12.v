(* C12 - reusable containers: match std behaviour; clearing keeps capacity for reuse.
   Only statements here; every proof is `exact <lemma of RV/RVProofs.v>`.

   Model (RV/RVModel.v): ReusableVector = (size, constructed_size, capacity, cells) with per-cell ghost state
   Raw / Con v; [err] is raised by a construct over a live element, by an assign / move / destroy of raw storage
   and by any access beyond the capacity; nctor / ndtor count element constructor / destructor calls and nalloc
   the element slots taken from the monotonic resource.  mva / mvc / smv say what a move leaves in its source
   (move-assign, move-construct, self-move-assign): all theorems hold for every choice of them.
   Specification: std::vector as a list (spec_step), two vectors for swap / copy / move (spec_step2).

   Hypotheses: [wf s] is the invariant (Example c12_wf_empty: the empty vector satisfies it; rv_inv shows it is
   kept); [valid] are the preconditions of the std operations (positions within the vector, pop on non-empty);
   arguments never alias the vector's own elements (values are passed by value in the model) - on the real class an
   aliasing argument is read after the elements were moved and the result differs from std::vector (monitored by
   checks/c12.py, finding aliased-argument); the theorems say nothing about that case.

   No side condition on the element type any more: since fix 5fb90d9 prepare_for_insert returns early for
   count == 0 (regenerated as pfi_zero_cond / pfi_zero_ret; the bridge lemmas b_pfi_zero_cond / b_pfi_zero_ret and
   the translator target re-open if the early return is removed), so an insert of zero elements moves nothing and
   in particular never self-move-assigns an element.  The refinement holds for every mva / mvc / smv, including a
   destructive self-move (libstdc++ std::basic_string): Example c12_zero_insert_noop is the former counterexample.

   Not covered by theorems (monitored on the real classes only): SwissString against std::string, the string /
   nested element capacities inside a rebuilt vector, protobuf messages (a rebuilt message equals a fresh one:
   has-bits, ByteSizeLong, serialisation - regular monitor since fix 6344245), space_allocated of the real resource.
   c12_manager_cycle states what the code guarantees for a rebuild: capacity >= every constructed slot; capacity
   that was reserved but never constructed is NOT kept by a rebuild (metadata.capacity = max(_constructed_size, .)). *)
From Coq Require Import ZArith List Bool.
Require Import Verif.Gen.Gen_reusable_vector Verif.RV.RVModel Verif.RV.RVLoops Verif.RV.RVOps Verif.RV.RVProofs.
Import ListNotations.

(* 1. same observable contents as std::vector, for every operation sequence on one vector ... *)
Theorem c12_refines_list : forall (mva : Z -> Z -> Z) (mvc smv : Z -> Z) ops s,
  wf s -> valid (abs s) ops = true ->
  abs (run mva mvc smv s ops) = fold_left spec_step ops (abs s).
Proof. exact rv_refines_list. Qed.
Print Assumptions c12_refines_list.

(* ... and on two vectors with every whole-object operation, both objects staying in use afterwards: swap (member, ADL,
   std::swap), copy / move assignment with equal and different allocators, plain and allocator-extended copy / move
   construction (the destination name is re-used for the new object).  What the plain move constructor, the
   allocator-extended one, move assignment and swap do is regenerated (move_ctor_swaps, move_xctor_assigns,
   move_assign_swaps, swap_exchanges_all): a hand-written member-wise move or a swap that forgets a member re-opens
   step2_post (hence c12_refines_list2 / c12_inv2) or breaks the translator.  A moved-from source is the empty, usable
   vector std::vector leaves (spec_step2: []), without any clear() after the plain / same-allocator move construction. *)
Theorem c12_refines_list2 : forall (mva : Z -> Z -> Z) (mvc smv : Z -> Z) ops a b,
  wf a -> wf b -> valid2 (abs a, abs b) ops = true ->
  (abs (fst (run2 mva mvc smv (a, b) ops)), abs (snd (run2 mva mvc smv (a, b) ops))) =
  fold_left spec_step2 ops (abs a, abs b).
Proof. exact rv_refines_list2. Qed.
Print Assumptions c12_refines_list2.

(* 2. size <= constructed <= capacity; cells below constructed hold live elements, all others are raw; no
      construct-over-constructed / assign-over-raw ever happened (err); constructor and destructor calls differ by
      exactly the constructed elements *)
Theorem c12_inv : forall (mva : Z -> Z -> Z) (mvc smv : Z -> Z) ops s,
  wf s -> valid (abs s) ops = true ->
  let s' := run mva mvc smv s ops in
  size s' <= csize s' /\ csize s' <= cap s' /\ err s' = false /\
  (forall j, j < csize s' -> exists v, cells s' j = Con v) /\ (forall j, csize s' <= j -> cells s' j = Raw) /\
  nctor s' = ndtor s' + csize s'.
Proof. exact rv_inv. Qed.
Print Assumptions c12_inv.

Theorem c12_inv2 : forall (mva : Z -> Z -> Z) (mvc smv : Z -> Z) ops a b,
  wf a -> wf b -> valid2 (abs a, abs b) ops = true ->
  wf (fst (run2 mva mvc smv (a, b) ops)) /\ wf (snd (run2 mva mvc smv (a, b) ops)).
Proof. exact rv_inv2. Qed.
Print Assumptions c12_inv2.

(* 3. logical clear: equal to a freshly constructed (empty) vector, capacity, constructed elements and every cell kept,
      nothing constructed, destroyed or allocated *)
Theorem c12_clear_keeps_capacity : forall s, wf s ->
  wf (clear s) /\ abs (clear s) = [] /\ size (clear s) = 0 /\ cap (clear s) = cap s /\ csize (clear s) = csize s /\
  nalloc (clear s) = nalloc s /\ nctor (clear s) = nctor s /\ ndtor (clear s) = ndtor s /\
  forall j, cells (clear s) j = cells s j.
Proof. exact clear_keeps. Qed.
Print Assumptions c12_clear_keeps_capacity.

(* no operation sequence ever shrinks the capacity or the number of constructed elements *)
Theorem c12_capacity_never_shrinks : forall (mva : Z -> Z -> Z) (mvc smv : Z -> Z) ops s,
  wf s -> valid (abs s) ops = true ->
  cap s <= cap (run mva mvc smv s ops) /\ csize s <= csize (run mva mvc smv s ops).
Proof. exact rv_capacity_never_shrinks. Qed.
Print Assumptions c12_capacity_never_shrinks.

(* 4. destroying the vector after any history balances constructors and destructors and leaves only raw storage *)
Theorem c12_ctor_dtor_balance : forall (mva : Z -> Z -> Z) (mvc smv : Z -> Z) ops s,
  wf s -> valid (abs s) ops = true ->
  let d := destroy_all (run mva mvc smv s ops) in err d = false /\ nctor d = ndtor d /\ forall j, cells d j = Raw.
Proof. exact rv_ctor_dtor_balance. Qed.
Print Assumptions c12_ctor_dtor_balance.

(* 5. one manager cycle (workload, then ReusableManager::clear) for every workload and every cadence: the instance is
      empty and well formed again; either it was logically cleared (before the interval: same cells, capacity and
      nothing allocated) or rebuilt from the metadata (at the interval: capacity = constructed = max of everything
      constructed so far) *)
Theorem c12_manager_cycle : forall (mva : Z -> Z -> Z) (mvc smv : Z -> Z) g ops,
  wf (inst g) -> valid (abs (inst g)) ops = true ->
  let w := run mva mvc smv (inst g) ops in let g' := mcycle mva mvc smv g ops in
  wf (inst g') /\ abs (inst g') = [] /\ csize w <= csize (inst g') /\ csize w <= cap (inst g') /\
  meta g <= meta g' /\ interval g' = interval g /\
  ((S (times g) < interval g /\ recreated g' = recreated g /\ times g' = S (times g) /\ meta g' = meta g /\
    cap (inst g') = cap w /\ csize (inst g') = csize w /\ nalloc (inst g') = nalloc w /\
    (forall j, cells (inst g') j = cells w j))
   \/
   (interval g <= S (times g) /\ recreated g' = S (recreated g) /\ times g' = 0 /\
    meta g' = Nat.max (csize w) (meta g) /\ cap (inst g') = meta g' /\ csize (inst g') = meta g')).
Proof. exact mcycle_post. Qed.
Print Assumptions c12_manager_cycle.

(* 6. a workload whose demand fits the capacity takes nothing from the resource, and every workload fits the capacity it
      leaves behind *)
Theorem c12_fits_no_alloc : forall (mva : Z -> Z -> Z) (mvc smv : Z -> Z) ops s,
  wf s -> valid (abs s) ops = true ->
  peak (abs s) ops <= cap s -> nalloc (run mva mvc smv s ops) = nalloc s /\ cap (run mva mvc smv s ops) = cap s.
Proof. exact rv_fits_no_alloc. Qed.
Print Assumptions c12_fits_no_alloc.

Theorem c12_peak_le_capacity : forall (mva : Z -> Z -> Z) (mvc smv : Z -> Z) ops s,
  wf s -> valid (abs s) ops = true ->
  peak (abs s) ops <= cap (run mva mvc smv s ops).
Proof. exact rv_peak_le_cap. Qed.
Print Assumptions c12_peak_le_capacity.

(* converged: after the workload has run once under the manager, repeating it allocates nothing - after a logical clear
   for every workload, after a rebuild for every workload that does not reserve beyond what it constructs *)
Theorem c12_converged_no_growth : forall (mva : Z -> Z -> Z) (mvc smv : Z -> Z) g ops,
  wf (inst g) -> abs (inst g) = [] -> valid [] ops = true ->
  let g1 := mcycle mva mvc smv g ops in
  (recreated g1 = recreated g \/ reserve_free ops = true) ->
  nalloc (run mva mvc smv (inst g1) ops) = nalloc (inst g1) /\ cap (run mva mvc smv (inst g1) ops) = cap (inst g1).
Proof. exact converged_no_growth. Qed.
Print Assumptions c12_converged_no_growth.

(* 7. protobuf messages: MessageAllocationMetadata::reserve - the single function through which BOTH rebuild paths go
      (typed create_object<T>() and base-registered create_object<google::protobuf::Message>(creator)) - ends with
      message.Clear() (regenerated as msg_reserve_clears), so a rebuilt message shows no singular sub-message as present,
      whatever was used before.  Moving the Clear() into a caller re-opens b_msg_reserve_clears / breaks the translator. *)
Theorem c12_message_recreate_fresh : forall used, msg_recreate used = repeat false (length used).
Proof. exact msg_recreate_fresh. Qed.
Print Assumptions c12_message_recreate_fresh.

(* 8. reusable strings: assigning a std::string (foreign allocator) into an already constructed reusable string - which
      is what recycling a SwissVector<SwissString> slot does - keeps every byte, embedded NULs included: the operator passes
      other.size() to assign (regenerated: foreign_assign_len; dropping the argument breaks the translator / this proof). *)
Theorem c12_string_assign_exact : forall bs, str_assign_foreign bs = bs.
Proof. exact str_assign_foreign_exact. Qed.
Print Assumptions c12_string_assign_exact.

(* non-vacuity: the empty vector is well formed; a concrete run exercises the reuse window (constructed > size),
   shifts by move-assignment and reconstructs in place *)
Example c12_wf_empty : wf empty_vec.
Proof. exact wf_empty. Qed.
Example c12_window :
  let s := run (fun s _ => s) (fun v => v) (fun v => v) empty_vec
               [AssignRange [1;2;3;4;5]%Z; Erase 2 5; InsertN 1 2 9%Z] in
  (size s, csize s, cap s, abs s, stale s, err s) = (4, 5, 5, [1; 9; 9; 2]%Z, [3]%Z, false).
Proof. exact window_example. Qed.
Example c12_valid_example : valid [] [AssignRange [1;2;3;4;5]%Z; Erase 2 5; InsertN 1 2 9%Z; Reserve 20; Clear; PushBack 3%Z] = true.
Proof. reflexivity. Qed.
Example c12_zero_insert_noop :
  abs (run (fun _ _ => 0%Z) (fun _ => 0%Z) (fun _ => 0%Z) empty_vec [AssignRange [1; 2; 3]%Z; InsertN 1 0 9%Z; InsertRange 0 []])
  = [1; 2; 3]%Z.
Proof. exact zero_insert_example. Qed.
