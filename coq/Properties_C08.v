Require Import Verif.FU.FUModel.
From Coq Require Import ZArith.
Theorem placeholder : (1 = 1)%Z. Proof. reflexivity. Qed.
Print Assumptions placeholder.
