(* C08 - Future/Promise/latch: value reaches every waiter and callback exactly once.
   Only statements; proofs are `exact <lemma of FU/FUProofs.v>`.  Reach latch progs s = "s is reachable from
   the initial state of client programs `progs` under SOME schedule" - so every theorem below is quantified
   over all schedules (incl. clock ticks), all programs and all thread counts. *)
From Coq Require Import ZArith List Bool.
Require Import Verif.Gen.Gen_future Verif.Conc.Machine Verif.FU.FUModel Verif.FU.FUProofs.
Import ListNotations.
Local Open Scope Z_scope.

(* a callback never runs twice *)
Theorem c08_callback_at_most_once : forall latch progs s, wf latch progs -> Reach latch progs s -> NoDup (ran s).
Proof. exact fu_ran_nodup. Qed.
Print Assumptions c08_callback_at_most_once.

(* a callback never runs before the value is constructed *)
Theorem c08_callback_after_value : forall latch progs s, wf latch progs -> Reach latch progs s -> early s = false.
Proof. exact fu_not_early. Qed.
Print Assumptions c08_callback_after_value.

(* once set_value (or the final count_down) has returned, every on_finish call that has returned had its
   callback run - whether it registered before, after or concurrently with set_value *)
Theorem c08_callback_exactly_once : forall latch progs s, wf latch progs -> Reach latch progs s ->
  hd s = HSealed -> (forall th, In th (threads s) -> setting th = false) ->
  forall t th i, nth_error (threads s) t = Some th -> nth_error (prog th) i = Some OFin -> (i < opi th)%nat ->
  In (t, i) (ran s).
Proof. exact fu_finished_callbacks_ran. Qed.
Print Assumptions c08_callback_exactly_once.

(* get() returns, and wait_for returns true, only when the value has been constructed *)
Theorem c08_get_sees_value : forall latch progs s th b, wf latch progs -> Reach latch progs s ->
  In th (threads s) -> In (RGet b) (results th) -> b = true.
Proof. exact fu_get_sees_value. Qed.
Print Assumptions c08_get_sees_value.

Theorem c08_wait_true_only_if_set : forall latch progs s th tmo a b rdy, wf latch progs -> Reach latch progs s ->
  In th (threads s) -> In (RWait true tmo a b rdy) (results th) -> rdy = true.
Proof. exact fu_wait_true_ready. Qed.
Print Assumptions c08_wait_true_only_if_set.

(* wait_for returns false only if at least the (clamped) timeout elapsed on the clock *)
Theorem c08_wait_false_only_if_elapsed : forall latch progs s th tmo a b rdy, wf latch progs -> Reach latch progs s ->
  In th (threads s) -> In (RWait false tmo a b rdy) (results th) -> tmo <= b - a.
Proof. exact fu_wait_false_elapsed. Qed.
Print Assumptions c08_wait_false_only_if_elapsed.

(* after set_value, ready() is true and get/wait_for take the fast path: the READY bit and SEALED head are
   never undone *)
Theorem c08_ready_is_stable : forall latch progs s sch, wf latch progs -> Reach latch progs s ->
  fready s = true -> fready (run st step s sch) = true /\ hd (run st step s sch) = HSealed.
Proof. exact fu_ready_stable. Qed.
Print Assumptions c08_ready_is_stable.

(* no lost wakeup: once the READY word is published and no wake is pending, nobody is parked - and
   nobody can park afterwards *)
Theorem c08_no_lost_wakeup : forall latch progs s, wf latch progs -> Reach latch progs s ->
  fready s = true -> (forall th, In th (threads s) -> wake_pending th = false) ->
  forall th, In th (threads s) -> parked th = false.
Proof. exact fu_no_lost_wakeup. Qed.
Print Assumptions c08_no_lost_wakeup.

(* every unfinished thread that is not parked in the kernel can take a step (no other way to block) *)
Theorem c08_unparked_threads_enabled : forall latch progs s t th, wf latch progs -> Reach latch progs s ->
  nth_error (threads s) t = Some th -> thread_done th = false -> parked th = false -> step s t <> None.
Proof. exact fu_unparked_enabled. Qed.
Print Assumptions c08_unparked_threads_enabled.

(* a parked timed waiter is released by the clock alone *)
Theorem c08_timed_wait_released_by_clock : forall latch progs s t th u d, wf latch progs -> Reach latch progs s ->
  nth_error (threads s) t = Some th -> tpc th = WaitBlocked u d -> d <= clock s -> step s t <> None.
Proof. exact fu_timed_released. Qed.
Print Assumptions c08_timed_wait_released_by_clock.

(* latch: the future is ready exactly when the count has reached zero *)
Theorem c08_latch_ready_iff_zero : forall latch progs s, wf latch progs -> 0 < latch -> Reach latch progs s ->
  (vset s = true <-> count s = 0).
Proof. exact fu_latch_iff. Qed.
Print Assumptions c08_latch_ready_iff_zero.

(* the memory orders the argument relies on are the ones in the source (regenerated site tables) *)
Theorem c08_memory_order_obligations : orders_ok = true.
Proof. exact fu_orders_ok. Qed.
Print Assumptions c08_memory_order_obligations.

(* the READY bit is above any realistic waiter count *)
Theorem c08_ready_mask_is_bit31 : READY_MASK = 2 ^ 31.
Proof. exact fu_ready_mask. Qed.
Print Assumptions c08_ready_mask_is_bit31.

(* non-vacuity: a well-formed program, a reachable state with a parked waiter and a pending wake *)
Example c08_wf_example : wf 0 [[OSet]; [OGet; OFin]; [OWait 2]].
Proof. exact fu_wf_example. Qed.
Example c08_reach_example :
  exists s, Reach 0 [[OSet]; [OGet; OFin]; [OWait 2]] s /\
            existsb parked (threads s) = true /\ existsb wake_pending (threads s) = true.
Proof. exact fu_reach_example. Qed.

(* ---- publication ("callbacks and get() observe the value"): the release/acquire half on the explicit view
   machine of coq/WM/RA.v, with the memory orders regenerated from future.hpp.  Producer = set_value:
   construct the value (plain writes), then publish with an exchange (futex word / list head).  Consumer = get()
   / wait_slow / on_finish: acquire load (or acquire RMW), then read the value.  For EVERY execution of the view
   machine (any schedule, any message a relaxed/acquire load may legally read): a consumer that saw the
   published word reads the constructed value and there is no data race on it. *)
Require Import Verif.Base.Atomics Verif.WM.RA Verif.WM.RAProofs Verif.WM.RALitmus Verif.WM.RALitmusProofs.
Definition order_of (tbl : list (akind * morder * morder)) (n : nat) : morder :=
  match nth_error tbl n with Some (_, o, _) => o | None => Relaxed end.

(* futex word: exchange(READY_MASK) in set_value  vs  the acquire load of get() *)
Theorem c08_publication_get : forall sch,
  RA.final (RA.run (RA.init (mp_xchg (order_of sites_set_value 0) (order_of sites_get 0))) sch) = true ->
  mp_bad (RA.result (RA.run (RA.init (mp_xchg (order_of sites_set_value 0) (order_of sites_get 0))) sch)) = false.
Proof. apply mp_xchg_all_executions. vm_compute. reflexivity. Qed.
Print Assumptions c08_publication_get.

(* futex word vs wait_slow / wait_for_slow: fetch_add(acquire) and the acquire reload *)
Theorem c08_publication_wait : forall sch,
  RA.final (RA.run (RA.init (mp_xchg (order_of sites_set_value 0) (order_of sites_wait_slow 1))) sch) = true ->
  mp_bad (RA.result (RA.run (RA.init (mp_xchg (order_of sites_set_value 0) (order_of sites_wait_slow 1))) sch)) = false.
Proof. apply mp_xchg_all_executions. vm_compute. reflexivity. Qed.
Print Assumptions c08_publication_wait.

(* list head: seal() exchange (acq_rel)  vs  on_finish's acquire load that finds SEALED and runs the callback inline *)
Theorem c08_publication_on_finish : forall sch,
  RA.final (RA.run (RA.init (mp_xchg (order_of sites_seal 0) (order_of sites_on_finish 0))) sch) = true ->
  mp_bad (RA.result (RA.run (RA.init (mp_xchg (order_of sites_seal 0) (order_of sites_on_finish 0))) sch)) = false.
Proof. apply mp_xchg_all_executions. vm_compute. reflexivity. Qed.
Print Assumptions c08_publication_on_finish.

(* callback node: on_finish's CAS (release part) publishes the node the setter detaches with its acquiring seal() *)
Theorem c08_publication_callback_node : forall sch,
  RA.final (RA.run (RA.init (mp_cas_publish (order_of sites_on_finish 1) (order_of sites_seal 0))) sch) = true ->
  mp_cas_bad (RA.result (RA.run (RA.init (mp_cas_publish (order_of sites_on_finish 1) (order_of sites_seal 0))) sch)) = false.
Proof. apply mp_cas_publish_all_executions. vm_compute. reflexivity. Qed.
Print Assumptions c08_publication_callback_node.

(* what goes wrong when the release is dropped (the execution is printed by the check's search) *)
Theorem c08_publication_relaxed_refuted : mp_xchg_safe Relaxed Acquire = false /\ mp_xchg_safe Release Relaxed = false.
Proof. split; vm_compute; reflexivity. Qed.
Print Assumptions c08_publication_relaxed_refuted.

(* lifetime: Promise::set_value works on its own reference to the shared context, so callbacks / woken waiters that
   drop the Promise and every Future while the callback list is still being walked cannot destroy the value under
   the remaining callbacks (regenerated fact; the scheduler run of harness/conc/c08_lifetime.cpp exercises it) *)
Theorem c08_set_value_keeps_context_alive : set_value_pins_context = true.
Proof. reflexivity. Qed.
Print Assumptions c08_set_value_keeps_context_alive.

(* clock: every time reading of wait_for_slow is taken from a monotonic clock (regenerated: number of
   clock_gettime calls = number of those with a CLOCK_MONOTONIC* / CLOCK_BOOTTIME id), so the `clock` of the
   model - elapsed time - is what the code measures the timeout with; a calendar clock could be stepped under a
   waiter (the scheduler runs step the calendar clocks forwards and backwards while timed waits are pending) *)
Theorem c08_wait_clock_is_monotonic :
  wait_clock_monotonic_reads = wait_clock_reads /\ (1 <= wait_clock_reads)%Z.
Proof. split; [reflexivity | vm_compute; intro H; discriminate H]. Qed.
Print Assumptions c08_wait_clock_is_monotonic.
