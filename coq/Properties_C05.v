(* C05 - anyflow: a run equals sequential evaluation; each vertex runs at most once.
   Only statements; proofs are `exact <lemma of AF/AFProofs.v>`.

   How the property text maps to theorems (models in AF/AFModel.v):
   * "each vertex processor runs at most once per run and only after all of its dependencies are ready
     (condition evaluated, and target ready if the condition holds)":
       c05_dep_protocol (one GraphDependency at atomic-operation granularity; every interleaving of activator x
       condition-releaser x target-releaser; increments, switch labels and terminal tests regenerated from
       dependency.cpp; closed by reflection over the reachable set) + c05_vertex_once / c05_vertex_only_after_deps /
       c05_vertex_invoked_when_all (GraphVertex count-down for ANY number of dependencies, induction).
   * "terminates with the closure finished ... wait() returns only after every started vertex has finished":
       c05_closure_counters (ClosureContext counters, every event sequence).
   * "on success every target holds the value a sequential demand-driven evaluation would produce", "vertices not
     needed by the targets do not run", "each data is published once": c05_value_eq_sequential, c05_inputs_eq_sequential,
     c05_only_needed, c05_data_once over the event-level engine ENG, for every graph in topological order, every
     processor function f, every preset, every target set and every event schedule.
   * "After reset()": c05_dep_reset (the per-run state of a dependency is its initial state again); the
     run/reset/run cycles themselves are exercised on the implementation by the check.
   Gap (stated, not proved): ENG takes "a vertex is invoked once, after its dependencies are resolved" and "finish(0)
   when the last requested target is sealed" as its step guards; these are exactly what the A/B/C theorems establish
   for the atomic-level machines, but the refinement ENG <- (A x B x C composed over a whole graph) is argued, not
   machine-checked, and is tied to the code by the correspondence run instead.

   KNOWN FINDING (sig run-races-external-release, listed in KNOWN_FINDINGS.txt; the quantifier's "externally injected
   data arriving concurrently with activation"): input = any graph whose input d is emitted by another thread, with
   Graph::run() starting after d is sealed but before that emit()/release() has returned (check cases with exec suffix
   'x'; directed case x.dir: seed 921473905, PCT, 3 workers, d0 injected after 7 yields, targets d8,d7).  Observed: fire()
   brings _waiting_vertex_num to 0 while the release is still notifying successors, the closure finishes with -1 ("all
   vertex finish but data not ready") although the sequential evaluation succeeds, wait() returns, and the late release
   then invokes vertices on the flushed / destroyed ClosureContext (SIGSEGV in depend_vertex_sub or Promise set twice).
   In the model this is exactly the guard of CVAdd in machine C (a GraphVertexClosure is created only before fire() or
   from inside a live vertex): c05_closure_counters is proved under it and an external release violates it.  No small
   fix: the closure counts only GraphVertexClosure objects and an external release holds none; a dependency cannot tell
   "target sealed, notification still coming" from "never coming"; a repair needs the releasing thread to register with
   the closures of activated successors, i.e. a change of the protocol, not of one expression. *)
From Coq Require Import ZArith List Bool.
Require Import Verif.Gen.Gen_anyflow Verif.Conc.Machine Verif.AF.AFModel Verif.AF.AFProofs.
Import ListNotations.
Local Open Scope Z_scope.

(* ---- A. dependency protocol, all interleavings ---- *)
Theorem c05_dep_protocol : forall c s, DReach c s -> dep_ok c s = true.
Proof. exact af_dep_protocol. Qed.
Print Assumptions c05_dep_protocol.

(* the vertex is told at most once; never before the dependency is really ready and never with a wrong _ready flag
   (bad = false); when all three parties are through it has been told exactly once and _ready = "condition holds";
   _waiting_num stays in [-3, 2] *)
Theorem c05_dep_exactly_once : forall c s, DReach c s ->
  (notified s <= 1)%nat /\ bad s = false /\ (ddone c s = true -> notified s = 1%nat /\ drdy s = est_true c) /\ -3 <= wn s <= 2.
Proof. exact af_dep_exactly_once. Qed.
Print Assumptions c05_dep_exactly_once.

Theorem c05_dep_notify_needs_ready : forall c s r, really_ready c s = false -> bad (notify c s r) = true.
Proof. exact notify_bad. Qed.
Print Assumptions c05_dep_notify_needs_ready.

Theorem c05_dep_reset : forall s, dreset s = dinit.
Proof. exact af_dep_reset. Qed.
Print Assumptions c05_dep_reset.

Theorem c05_memory_order_obligations : orders_ok = true.
Proof. exact af_orders_ok. Qed.
Print Assumptions c05_memory_order_obligations.

Example c05_dep_reach_example :
  exists s, DReach {| has_cond := true; holds := false |} s /\ ddone {| has_cond := true; holds := false |} s = true /\ wn s = -1.
Proof. exact af_dep_reach_example. Qed.

(* ---- B. vertex count-down, any number n of dependencies, any order of notifications ---- *)
Theorem c05_vertex_once : forall n l, (1 <= n)%nat -> Z.of_nat n < 2 ^ 64 ->
  (vinvoked (vrun n (vinit (Z.of_nat n)) l) <= 1)%nat.
Proof. exact af_vertex_once. Qed.
Print Assumptions c05_vertex_once.

Theorem c05_vertex_only_after_deps : forall n l, (1 <= n)%nat -> Z.of_nat n < 2 ^ 64 ->
  let s := vrun n (vinit (Z.of_nat n)) l in
  vinvoked s = 1%nat -> forall i, (i < n)%nat -> In i (vnot s).
Proof. exact af_vertex_only_after_deps. Qed.
Print Assumptions c05_vertex_only_after_deps.

Theorem c05_vertex_invoked_when_all : forall n l, (1 <= n)%nat -> Z.of_nat n < 2 ^ 64 ->
  let s := vrun n (vinit (Z.of_nat n)) l in
  vended s = true -> (forall i, (i < n)%nat -> In i (vnot s)) -> vinvoked s = 1%nat.
Proof. exact af_vertex_invoked_when_all. Qed.
Print Assumptions c05_vertex_invoked_when_all.

Example c05_vertex_example :
  vinvoked (vrun 3 (vinit 3) [VActRet 0%nat; VReady 2%nat; VActRet 1%nat; VActEnd]) = 1%nat.
Proof. exact af_vertex_example. Qed.

(* ---- C. closure counters ---- *)
Theorem c05_closure_counters : forall l, let s := crun cinit l in
  (cflush s <= 1)%nat /\
  (cflush s = 1%nat <-> cfired s = true /\ clive s = 0) /\
  (cflush s = 1%nat -> cfin s <> None) /\
  (cfin s = Some 0 -> cfired s = true /\ cbound s = 0) /\
  (cfired s = true -> cbound s = 0 -> cfin s <> None).
Proof. exact af_closure_counters. Qed.
Print Assumptions c05_closure_counters.

Example c05_closure_example : cflush (crun cinit [CBind false; CVAdd; CFire; CDataRel; CVSub]) = 1%nat /\
                              cfin (crun cinit [CBind false; CVAdd; CFire; CDataRel; CVSub]) = Some 0.
Proof. exact af_closure_example. Qed.

(* ---- D. a whole run vs. the sequential evaluation: every processor function f, every graph g presented in a
   topological order with single producers (wf), every preset of the inputs, every target set, every schedule l
   of engine events (disabled events are skipped) ---- *)

(* on success every requested target is sealed with the value of the sequential evaluation *)
Theorem c05_value_eq_sequential : forall f g pre targets, wf g pre -> forall l,
  let s := erun f g pre targets einit l in
  fin s = Some 0 -> forall t, In t targets -> exists x, dv s t = Some x /\ R f g pre t = Some x.
Proof. exact af_value_eq_sequential. Qed.
Print Assumptions c05_value_eq_sequential.

(* a processor that ran saw exactly the inputs (and emitted exactly the outputs) of the sequential evaluation -
   in particular each of its dependencies was resolved: condition sealed, and target sealed if the condition holds *)
Theorem c05_inputs_eq_sequential : forall f g pre targets, wf g pre -> forall l v ins outs,
  let s := erun f g pre targets einit l in
  ran s v = Some (VRun ins outs) -> exists vx, nth_error g v = Some vx /\ vertex_res f v vx (R f g pre) = VRun ins outs.
Proof. exact af_inputs_eq_sequential. Qed.
Print Assumptions c05_inputs_eq_sequential.

(* a vertex whose processor runs (or whose essential dependency fails while the closure is open) is needed by the
   targets: Needed is the least demand-closed set over the sequential values *)
Theorem c05_only_needed : forall f g pre targets, wf g pre -> forall l v r,
  let s := erun f g pre targets einit l in
  ran s v = Some r -> r <> VLate -> Needed f g pre targets v.
Proof. exact af_only_needed. Qed.
Print Assumptions c05_only_needed.

(* each data is sealed at most once and keeps its value *)
Theorem c05_data_once : forall f g pre targets, wf g pre -> forall l d,
  let s := erun f g pre targets einit l in
  (nrel s d <= 1)%nat /\ (forall x l', dv s d = Some x -> dv (erun f g pre targets s l') d = Some x).
Proof. exact af_data_once. Qed.
Print Assumptions c05_data_once.

Example c05_wf_example : wf ex_g ex_pre.
Proof. exact af_wf_example. Qed.
Example c05_run_example :
  let s := erun (proc_fn ex_flags) ex_g ex_pre [2%nat] (einit) ex_sched in
  fin s = Some 0 /\ dv s 2%nat = Some None /\ ran s 0%nat = Some (VRun [] [Some 1]) /\
  sref (proc_fn ex_flags) ex_g ex_pre 2%nat = Some None.
Proof. exact af_run_example. Qed.
