(* C05 - anyflow: a run equals sequential evaluation; each vertex runs at most once.
   Only statements; proofs are `exact <lemma of AF/AFProofs.v>`.

   How the property text maps to theorems (models in AF/AFModel.v):
   * "each vertex processor runs at most once per run and only after all of its dependencies are ready
     (condition evaluated, and target ready if the condition holds)":
       c05_dep_protocol (one GraphDependency at atomic-operation granularity; every interleaving of activator x
       condition-releaser x target-releaser; increments, switch labels and terminal tests regenerated from
       dependency.cpp; closed by reflection over the reachable set) + c05_vertex_once / c05_vertex_only_after_deps /
       c05_vertex_invoked_when_all (GraphVertex count-down for ANY number of dependencies, induction).
   * "terminates with the closure finished ... wait() returns only after every started vertex has finished":
       c05_closure_counters (ClosureContext counters, every event sequence); c05_bind_finish (machine H: the two steps of
       GraphData::bind per requested target against concurrent releasers of the targets, any number of targets, every
       schedule: finished with success only when run() has fired and every requested target is sealed).
   * "on success every target holds the value a sequential demand-driven evaluation would produce", "vertices not
     needed by the targets do not run", "each data is published once": c05_value_eq_sequential, c05_inputs_eq_sequential,
     c05_only_needed, c05_data_once over the event-level engine ENG, for every graph in topological order, every
     processor function f, every preset, every target set and every event schedule.
   * "each data is published once" at the level of the public wrapper: c05_publish_once / c05_move_transfers (machine G,
     Committer<T>: publication exactly once, at release()/destruction of the unique valid committer, never at a move).
   * "After reset()": c05_dep_reset (the per-run state of a dependency is its initial state again); the
     run/reset/run cycles themselves are exercised on the implementation by the check.
   Link between the levels (machine-checked as far as stated here): machine E composes, for ONE vertex with n
   dependencies, the DEP protocol of every dependency (activator / condition releaser / target releaser as arbitrary
   interleaved threads) with the VTX count-down.  c05_vx_invoke_once / c05_vx_only_resolved / c05_vx_invoked_when_done:
   the vertex is invoked at most once, only when every dependency is resolved (condition sealed; target sealed if the
   condition holds), and exactly once when all parties are through - for every n, every configuration, every schedule
   (the finite DEP result is used per dependency, the count-down invariant by induction over the schedule).
   c05_vx_refines: every step of E projects to a step of the abstract vertex ENG works with (stutter | seal one data |
   invoke with guard "all resolved"); c05_eng_guard_is_resolved: that guard IS ENG's EInvoke guard (vertex_res <>
   VBlocked).  c05_clo_refines: the closure counters mark finish(0) only when every bound target is sealed and flush
   only when finished with no vertex live - the guards of EFinish0 / TFlush.  c05_terminates_finished (machine F = ENG
   + wait()): every step decreases a measure, no unflushed state is stuck, a flushed state is finished with no vertex
   running; so every maximal run ends flushed after at most `measure tinit` steps (no fairness needed).
   Remaining gap (stated, not proved): the composition of E over ALL vertices of a graph with the activation stacks
   (which thread runs recursive_activate / invoke, GraphVertex::activate's CAS) into one atomic-level machine that
   refines ENG as a whole; ENG's EAct / EDepTrig / ERel are tied to the code by the correspondence run.

   KNOWN FINDING (sig run-races-external-release, listed in KNOWN_FINDINGS.txt; the quantifier's "externally injected
   data arriving concurrently with activation"): input = any graph whose input d is emitted by another thread, with
   Graph::run() starting after d is sealed but before that emit()/release() has returned (check cases with exec suffix
   'x'; directed case x.dir: seed 921473905, PCT, 3 workers, d0 injected after 7 yields, targets d8,d7).  Observed: fire()
   brings _waiting_vertex_num to 0 while the release is still notifying successors, the closure finishes with -1 ("all
   vertex finish but data not ready") although the sequential evaluation succeeds, wait() returns, and the late release
   then invokes vertices on the flushed / destroyed ClosureContext (SIGSEGV in depend_vertex_sub or Promise set twice).
   In the model this is exactly the guard of CVAdd in machine C (a GraphVertexClosure is created only before fire() or
   from inside a live vertex): c05_closure_counters is proved under it and an external release violates it.  No small
   fix: the closure counts only GraphVertexClosure objects and an external release holds none; a dependency cannot tell
   "target sealed, notification still coming" from "never coming"; a repair needs the releasing thread to register with
   the closures of activated successors, i.e. a change of the protocol, not of one expression. *)
From Coq Require Import ZArith List Bool.
Require Import Verif.Gen.Gen_anyflow Verif.Conc.Machine Verif.AF.AFModel Verif.AF.AFProofs.
Import ListNotations.
Local Open Scope Z_scope.

(* ---- A. dependency protocol, all interleavings ---- *)
Theorem c05_dep_protocol : forall c s, DReach c s -> dep_ok c s = true.
Proof. exact af_dep_protocol. Qed.
Print Assumptions c05_dep_protocol.

(* the vertex is told at most once; never before the dependency is really ready and never with a wrong _ready flag
   (bad = false); when all three parties are through it has been told exactly once and _ready = "condition holds";
   _waiting_num stays in [-3, 2] *)
Theorem c05_dep_exactly_once : forall c s, DReach c s ->
  (notified s <= 1)%nat /\ bad s = false /\ (ddone c s = true -> notified s = 1%nat /\ drdy s = est_true c) /\ -3 <= wn s <= 2 /\
  (notified s = 1%nat -> really_ready c s = true).
Proof. exact af_dep_exactly_once. Qed.
Print Assumptions c05_dep_exactly_once.

(* every protocol step tells the vertex at most once more, or seals exactly one data and tells nobody *)
Theorem c05_dep_steps : forall c s t s', DReach c s -> dstep c s t = Some s' -> dstep_ok s s' = true.
Proof. exact af_dep_steps. Qed.
Print Assumptions c05_dep_steps.

Theorem c05_dep_notify_needs_ready : forall c s r, really_ready c s = false -> bad (notify c s r) = true.
Proof. exact notify_bad. Qed.
Print Assumptions c05_dep_notify_needs_ready.

Theorem c05_dep_reset : forall s, dreset s = dinit.
Proof. exact af_dep_reset. Qed.
Print Assumptions c05_dep_reset.

Theorem c05_memory_order_obligations : orders_ok = true.
Proof. exact af_orders_ok. Qed.
Print Assumptions c05_memory_order_obligations.

Example c05_dep_reach_example :
  exists s, DReach {| has_cond := true; holds := false |} s /\ ddone {| has_cond := true; holds := false |} s = true /\ wn s = -1.
Proof. exact af_dep_reach_example. Qed.

(* ---- B. vertex count-down, any number n of dependencies, any order of notifications ---- *)
Theorem c05_vertex_once : forall n l, (1 <= n)%nat -> Z.of_nat n < 2 ^ 64 ->
  (vinvoked (vrun n (vinit (Z.of_nat n)) l) <= 1)%nat.
Proof. exact af_vertex_once. Qed.
Print Assumptions c05_vertex_once.

Theorem c05_vertex_only_after_deps : forall n l, (1 <= n)%nat -> Z.of_nat n < 2 ^ 64 ->
  let s := vrun n (vinit (Z.of_nat n)) l in
  vinvoked s = 1%nat -> forall i, (i < n)%nat -> In i (vnot s).
Proof. exact af_vertex_only_after_deps. Qed.
Print Assumptions c05_vertex_only_after_deps.

Theorem c05_vertex_invoked_when_all : forall n l, (1 <= n)%nat -> Z.of_nat n < 2 ^ 64 ->
  let s := vrun n (vinit (Z.of_nat n)) l in
  vended s = true -> (forall i, (i < n)%nat -> In i (vnot s)) -> vinvoked s = 1%nat.
Proof. exact af_vertex_invoked_when_all. Qed.
Print Assumptions c05_vertex_invoked_when_all.

Example c05_vertex_example :
  vinvoked (vrun 3 (vinit 3) [VActRet 0%nat; VReady 2%nat; VActRet 1%nat; VActEnd]) = 1%nat.
Proof. exact af_vertex_example. Qed.

(* ---- E. DEP x VTX composed: one vertex, n dependencies with arbitrary configurations cs, every schedule of the
   2n+1 threads.  This is the guard ENG's EInvoke assumes. ---- *)
Theorem c05_vx_invoke_once : forall cs s, (1 <= length cs)%nat -> Z.of_nat (length cs) < 2 ^ 64 -> XReach cs s ->
  (vinvoked (xv s) <= 1)%nat.
Proof. exact af_vx_invoke_once. Qed.
Print Assumptions c05_vx_invoke_once.

Theorem c05_vx_only_resolved : forall cs s, (1 <= length cs)%nat -> Z.of_nat (length cs) < 2 ^ 64 -> XReach cs s ->
  vinvoked (xv s) = 1%nat ->
  forall i c d, nth_error cs i = Some c -> nth_error (xdeps s) i = Some d -> notified d = 1%nat /\ really_ready c d = true.
Proof. exact af_vx_only_resolved. Qed.
Print Assumptions c05_vx_only_resolved.

Theorem c05_vx_invoked_when_done : forall cs s, (1 <= length cs)%nat -> Z.of_nat (length cs) < 2 ^ 64 -> XReach cs s ->
  vended (xv s) = true ->
  (forall i c d, nth_error cs i = Some c -> nth_error (xdeps s) i = Some d -> ddone c d = true) ->
  vinvoked (xv s) = 1%nat.
Proof. exact af_vx_invoked_when_done. Qed.
Print Assumptions c05_vx_invoked_when_done.

(* refinement: what ENG sees of the vertex (which data are sealed, invoked or not) moves only by ENG's moves *)
Theorem c05_vx_refines : forall cs s t s', (1 <= length cs)%nat -> Z.of_nat (length cs) < 2 ^ 64 -> XReach cs s ->
  xstep cs s t = Some s' -> xabs_step cs (xproj s) (xproj s').
Proof. exact af_vx_refines. Qed.
Print Assumptions c05_vx_refines.

(* ENG's EInvoke guard is exactly "every dependency resolved" *)
Theorem c05_eng_guard_is_resolved : forall f v vx e E, (forall d x, e d = Some x -> E d = Some x) ->
  (vertex_res f v vx e <> VBlocked <->
   forallb (fun dp => resolved (dep_cfg E dp) (dep_flags e dp)) (deps vx) = true).
Proof. exact af_eng_guard_is_resolved. Qed.
Print Assumptions c05_eng_guard_is_resolved.

Example c05_vx_example :
  let cs := [ {| has_cond := true; holds := false |}; {| has_cond := false; holds := false |} ] in
  let s := run xst (xstep cs) (xinit 2) [1;1;0;2;2;2;0;1;1; 4;4;4; 0;0; 0]%nat in
  XReach cs s /\ vinvoked (xv s) = 1%nat /\ vended (xv s) = true.
Proof. exact af_vx_example. Qed.

(* ---- C. closure counters ---- *)
Theorem c05_closure_counters : forall l, let s := crun cinit l in
  (cflush s <= 1)%nat /\
  (cflush s = 1%nat <-> cfired s = true /\ clive s = 0) /\
  (cflush s = 1%nat -> cfin s <> None) /\
  (cfin s = Some 0 -> cfired s = true /\ cbound s = 0) /\
  (cfired s = true -> cbound s = 0 -> cfin s <> None).
Proof. exact af_closure_counters. Qed.
Print Assumptions c05_closure_counters.

Theorem c05_clo_refines : forall l e, let s := crun cinit l in let s' := crun cinit (l ++ [e]) in
  (cfin s = None -> cfin s' = Some 0 -> cfired s' = true /\ cbound s' = 0) /\
  (cflush s' = S (cflush s) -> cfin s' <> None /\ cfired s' = true /\ clive s' = 0).
Proof. exact af_clo_refines. Qed.
Print Assumptions c05_clo_refines.

Example c05_closure_example : cflush (crun cinit [CBind false; CVAdd; CFire; CDataRel; CVSub]) = 1%nat /\
                              cfin (crun cinit [CBind false; CVAdd; CFire; CDataRel; CVSub]) = Some 0.
Proof. exact af_closure_example. Qed.

(* ---- D. a whole run vs. the sequential evaluation: every processor function f, every graph g presented in a
   topological order with single producers (wf), every preset of the inputs, every target set, every schedule l
   of engine events (disabled events are skipped) ---- *)

(* on success every requested target is sealed with the value of the sequential evaluation *)
Theorem c05_value_eq_sequential : forall f g pre targets, wf g pre -> forall l,
  let s := erun f g pre targets einit l in
  fin s = Some 0 -> forall t, In t targets -> exists x, dv s t = Some x /\ R f g pre t = Some x.
Proof. exact af_value_eq_sequential. Qed.
Print Assumptions c05_value_eq_sequential.

(* a processor that ran saw exactly the inputs (and emitted exactly the outputs) of the sequential evaluation -
   in particular each of its dependencies was resolved: condition sealed, and target sealed if the condition holds *)
Theorem c05_inputs_eq_sequential : forall f g pre targets, wf g pre -> forall l v ins outs,
  let s := erun f g pre targets einit l in
  ran s v = Some (VRun ins outs) -> exists vx, nth_error g v = Some vx /\ vertex_res f v vx (R f g pre) = VRun ins outs.
Proof. exact af_inputs_eq_sequential. Qed.
Print Assumptions c05_inputs_eq_sequential.

(* a vertex whose processor runs (or whose essential dependency fails while the closure is open) is needed by the
   targets: Needed is the least demand-closed set over the sequential values *)
Theorem c05_only_needed : forall f g pre targets, wf g pre -> forall l v r,
  let s := erun f g pre targets einit l in
  ran s v = Some r -> r <> VLate -> Needed f g pre targets v.
Proof. exact af_only_needed. Qed.
Print Assumptions c05_only_needed.

(* each data is sealed at most once and keeps its value *)
Theorem c05_data_once : forall f g pre targets, wf g pre -> forall l d,
  let s := erun f g pre targets einit l in
  (nrel s d <= 1)%nat /\ (forall x l', dv s d = Some x -> dv (erun f g pre targets s l') d = Some x).
Proof. exact af_data_once. Qed.
Print Assumptions c05_data_once.

Example c05_wf_example : wf ex_g ex_pre.
Proof. exact af_wf_example. Qed.
Example c05_run_example :
  let s := erun (proc_fn ex_flags) ex_g ex_pre [2%nat] (einit) ex_sched in
  fin s = Some 0 /\ dv s 2%nat = Some None /\ ran s 0%nat = Some (VRun [] [Some 1]) /\
  sref (proc_fn ex_flags) ex_g ex_pre 2%nat = Some None.
Proof. exact af_run_example. Qed.

(* ---- F. termination (ENG + wait()): for every f, graph, preset, target set and schedule l ---- *)
Theorem c05_terminates_finished : forall f g pre targets l, let s := trun f g pre targets tinit l in
  (forall e s', tstep f g pre targets s e = Some s' -> (measure g pre targets s' < measure g pre targets s)%nat) /\
  (flushed s = false -> exists e s', tstep f g pre targets s e = Some s') /\
  (flushed s = true -> fin (base s) <> None /\ forall v, running g (base s) v = false) /\
  (tsteps f g pre targets tinit l + measure g pre targets s <= measure g pre targets tinit)%nat.
Proof. exact af_terminates_finished. Qed.
Print Assumptions c05_terminates_finished.

(* the base of such a run is an ENG run, so the theorems of part D apply to it *)
Theorem c05_term_base_is_eng : forall f g pre targets l s, exists l0,
  base (trun f g pre targets s l) = erun f g pre targets (base s) l0.
Proof. exact trun_base. Qed.
Print Assumptions c05_term_base_is_eng.

(* reset: the per-run state is the initial state again, so every theorem above holds for the next run *)
Theorem c05_reset_idempotent : forall f g pre targets s l,
  ereset s = einit /\ erun f g pre targets (ereset s) l = erun f g pre targets einit l.
Proof. exact af_reset_idempotent. Qed.
Print Assumptions c05_reset_idempotent.

Example c05_term_example :
  let s := trun (proc_fn ex_flags) ex_g ex_pre [2%nat] tinit (map TBase ex_sched ++ [TFlush]) in
  flushed s = true /\ fin (base s) = Some 0 /\ tsteps (proc_fn ex_flags) ex_g ex_pre [2%nat] tinit (map TBase ex_sched ++ [TFlush]) = 11%nat.
Proof. exact af_term_example. Qed.

(* ---- G. the publication wrapper Committer<T>: for every program of committer operations (construct, move-construct,
   move-assign, write, clear, release, destroy, cancel) a data is published at most once, never by a move construction,
   its content never changes after publication, there is at most one valid committer per data, and once the committers
   of an acquired data are gone (none cancelled) it has been published exactly once.  What the move constructor / move
   assignment / destructor / release() / cancel() / get() do is regenerated from data.hpp (cm_ targets). ---- *)
Theorem c05_publish_once : forall l d, let s := prun pinit l in
  (dpub (cells s d) <= 1)%nat /\ pmove s = false /\ dlate (cells s d) = false /\
  ((1 <= dpub (cells s d))%nat -> dpubval (cells s d) = dval (cells s d)) /\
  (nvalid d (cms s) <= 1)%nat /\
  (dacq (cells s d) = true -> nvalid d (cms s) = 0%nat -> dcan (cells s d) = 0%nat -> dpub (cells s d) = 1%nat).
Proof. exact af_publish_once. Qed.
Print Assumptions c05_publish_once.

(* move construction = transfer without publication: the data cells are untouched, the source becomes (nullptr, false),
   the new committer has the source's former fields *)
Theorem c05_move_transfers : forall s i c s', nth_error (cms s) i = Some c -> pstep s (PMove i) = Some s' ->
  cells s' = cells s /\ nth_error (cms s') i = Some {| cmd := None; cmv := false |} /\ nth_error (cms s') (length (cms s)) = Some c.
Proof. exact af_move_transfers. Qed.
Print Assumptions c05_move_transfers.

Example c05_publish_example :
  let s := prun pinit [PNew 0; PMove 0; PWrite 1 5; PNew 1; PAssign 2 1; PWrite 2 7; PDtor 0; PDtor 1; PDtor 2]%nat in
  dpub (cells s 0%nat) = 1%nat /\ dpubval (cells s 0%nat) = Some 7 /\ dpub (cells s 1%nat) = 1%nat /\ dpubval (cells s 1%nat) = None.
Proof. exact af_publish_example. Qed.

(* ---- H. Graph::run binding n requested targets (the two steps of GraphData::bind in the order regenerated from the
   source, then fire()) against n independent releasers of those targets (producers or external injectors), every
   schedule: the closure is never marked finished early, and when it is finished with success run() has fired and every
   requested target is sealed.  Depends on count-before-attach (bind_counts_before_attach = 1). ---- *)
Theorem c05_bind_finish : forall n s, BReach n s ->
  bearly s = false /\ (forall c, bfin s = Some c -> c = 0 /\ bfired s = true /\ all_sealed (btargets s) = true).
Proof. exact af_bind_finish. Qed.
Print Assumptions c05_bind_finish.

Example c05_bind_example :
  let s := run bst bstep (binit 2) [0;0;1;1;0;0;2;2;0]%nat in bfin s = Some 0 /\ bfired s = true /\ all_sealed (btargets s) = true.
Proof. exact af_bind_example. Qed.

(* reset() of a never-activated dependency whose condition had been published with the establishing value (negative count,
   _established set by the sticky check_established()): equal to a fresh dependency again.  c05_dep_reset (above, for every
   state) depends on reset clearing _established/_ready unconditionally (reset_* targets on GraphDependency::reset). *)
Example c05_dep_reset_example :
  let c := {| has_cond := true; holds := true |} in
  let s := run dst (dstep c) dinit [1;1;1]%nat in
  est s = true /\ pa s = A0 /\ wn s = -1 /\ dreset s = dinit.
Proof. exact af_dep_reset_example. Qed.
