(* Liveness of stop() in the pool model (property C07): no reachable deadlock under the usage rules. *)
From Coq Require Import ZArith List Bool Arith Lia.
Require Import Verif.Base.Atomics Verif.Gen.Gen_executor Verif.Conc.Machine Verif.EX.EXModel Verif.EX.EXProofs.
Import ListNotations.

(* ======================================================================================== *)
(* one more case analysis of `step`: tickets of pushers, progress of the marker loop          *)
Definition prog_lb (n : nat) (p : pc) : option Z :=
  match p with
  | EStopPush i => Some i
  | EStopFill i _ => Some (i + 1)%Z
  | EStopJoin _ | EStopJoinBalLate => Some (Z.of_nat n)
  | _ => None
  end.
Lemma prog_lb_dispatch : forall n it, prog_lb n (dispatch it) = None.
Proof. intros n it. unfold dispatch. destruct (_ =? _)%Z; [destruct it; reflexivity|]. destruct (_ =? _)%Z; reflexivity. Qed.

Lemma step_tk : forall c s t s', step c s t = Some s' ->
  exists th th' og, nth_error (threads s) t = Some th /\ threads s' = set_nth t th' (threads s) /\
    gq_rel (gq s) (gq s') og /\
    (forall it, og = GApp it -> ticket_of (tpc th') = Some (length (slots (gq s)), it)) /\
    (forall p it, ticket_of (tpc th) = Some (p, it) -> ticket_of (tpc th') = Some (p, it) \/ og = GFill p) /\
    (forall p, og = GFill p -> exists it, ticket_of (tpc th) = Some (p, it)) /\
    (forall v, prog_lb (nworkers c) (tpc th') = Some v -> (v <= 0)%Z \/
        exists v0, prog_lb (nworkers c) (tpc th) = Some v0 /\
                   ((v <= v0)%Z \/ (v = v0 + 1 /\ og = GApp (IMark stop_marker_type))%Z)) /\
    (tpc th' = EStopJoinBal -> has_balancer c = true \/ tpc th = EStopJoinBal) /\
    (tpc th' <> EStopJoinBalLate \/ tpc th = EStopJoinBalLate) /\
    (forall k, tpc th' = EStopJoin k -> k = 0 \/ k < nworkers c).
Proof.
  intros c s t s' H. destr_step H; kill_gen; simp_st;
    rewrite ?stop_loop_eq; unfold after_steal, after_sweep;
    repeat match goal with |- context [if ?b then _ else _] => destruct b eqn:? end;
    eexists; eexists;
    (first [ exists GSame; split; [reflexivity|]; split; [reflexivity|]; split; [reflexivity|]
           | eexists (GApp _); split; [reflexivity|]; split; [reflexivity|]; split; [reflexivity|]
           | eexists (GFill _); split; [reflexivity|]; split; [reflexivity|]; split; [reflexivity|]
           | exists GTake; split; [reflexivity|]; split; [reflexivity|]; split; [reflexivity|]
           | eexists (GPop _ _); split; [reflexivity|]; split; [reflexivity|]; split; [eassumption|] ]);
    cbn [tpc trole goto next_op];
    repeat match goal with H : tpc _ = _ |- _ => rewrite H end;
    rewrite ?ticket_dispatch, ?prog_lb_dispatch;
    repeat split; intros;
    cbn [ticket_of prog_lb] in *;
    repeat match goal with
           | H : GApp _ = GApp _ |- _ => injection H as ?; subst
           | H : GFill _ = GFill _ |- _ => injection H as ?; subst
           | H : Some _ = Some _ |- _ => inversion H; subst; clear H
           end;
    try discriminate; eauto 6;
    try (left; discriminate);
    try (match goal with H : dispatch ?i = EStopJoinBal |- _ => exfalso; pose proof (dispatch_worker_pc 0 i) as X; rewrite H in X; discriminate end);
    try (left; intros Hd; match type of Hd with dispatch ?i = _ => pose proof (dispatch_worker_pc 0 i) as X; rewrite Hd in X; discriminate end).
  all: try (match goal with H : EStopJoin _ = EStopJoin _ |- _ => injection H as <- end;
            first [left; reflexivity | right; apply Nat.ltb_lt; assumption]).
  all: try (match goal with H : dispatch ?i = EStopJoin _ |- _ => exfalso; exact (dispatch_not_join _ _ H) end).
  all: repeat match goal with
             | H : stop_push_more _ _ = false |- _ => rewrite gen_push_more in H; apply Z.ltb_ge in H
             | H : stop_push_more _ _ = true |- _ => rewrite gen_push_more in H; apply Z.ltb_lt in H
             end; rewrite ?gen_first_marker in *.
  all: first [ left; lia | right; eexists; split; [reflexivity|]; left; lia ].
Qed.


(* ======================================================================================== *)
(* a slot whose ticket is taken but not written has a thread holding that ticket              *)
Lemma fill_not_pend : forall g p it, nth_error (slots (fill g p)) p <> Some (SPend it).
Proof.
  intros g p it H. unfold fill in H; cbn in H. destruct (nth_error (slots g) p) as [[x|x|x]|] eqn:E; try congruence.
  rewrite nth_error_set_nth_eq in H by (eapply nth_error_lt; eauto). discriminate.
Qed.
Lemma pend_bwd : forall g g' o p it, gq_rel g g' o -> nth_error (slots g') p = Some (SPend it) ->
  nth_error (slots g) p = Some (SPend it) \/ (o = GApp it /\ p = length (slots g)).
Proof.
  intros g g' [|x|p0| |q x] p it H Hp; cbn in H; subst; auto.
  - cbn in Hp. destruct (lt_dec p (length (slots g))) as [Hlt|Hge]; [rewrite nth_error_app1 in Hp; auto|].
    rewrite nth_error_app2 in Hp by lia. destruct (p - length (slots g)) as [|k] eqn:E; [|destruct k; discriminate].
    injection Hp as ->. right. split; auto. lia.
  - destruct (fill_slots g p0) as [E|(y & Hy & E)]; rewrite E in Hp; auto.
    apply nth_error_set_nth in Hp. destruct Hp as [[_ X]|[_ X]]; [discriminate|auto].
  - apply pop_ready_inv in H. destruct H as (_ & E & _). rewrite E in Hp.
    apply nth_error_set_nth in Hp. destruct Hp as [[_ X]|[_ X]]; [discriminate|auto].
Qed.

Lemma ex_pend_has_holder : forall c progs s, Reach c progs s -> forall p it, nth_error (slots (gq s)) p = Some (SPend it) ->
  exists t th it', nth_error (threads s) t = Some th /\ ticket_of (tpc th) = Some (p, it').
Proof.
  intros c progs. apply (reach_ind c progs (fun s => forall p it, nth_error (slots (gq s)) p = Some (SPend it) ->
    exists t th it', nth_error (threads s) t = Some th /\ ticket_of (tpc th) = Some (p, it'))).
  - cbn. intros [|p] it H; discriminate.
  - intros s t s' _ IH Hs p it Hp.
    destruct (step_tk _ _ _ _ Hs) as (th & th' & og & Hn & Ht & Hrel & Hfa & Hfb & _).
    assert (Hlt : t < length (threads s)) by (eapply nth_error_lt; eauto).
    destruct (pend_bwd _ _ _ _ _ Hrel Hp) as [Hold|[-> ->]].
    + destruct (IH _ _ Hold) as (t1 & th1 & it1 & Hn1 & Htk1). destruct (Nat.eq_dec t1 t) as [->|Hne].
      * rewrite Hn in Hn1. injection Hn1 as <-. destruct (Hfb _ _ Htk1) as [Hk| ->].
        -- exists t, th', it1. split; auto. rewrite Ht. apply nth_error_set_nth_eq. auto.
        -- exfalso. cbn in Hrel. rewrite Hrel in Hp. eapply fill_not_pend; eauto.
      * exists t1, th1, it1. split; auto. rewrite Ht, nth_error_set_nth_neq; auto.
    + exists t, th', it. split; [rewrite Ht; apply nth_error_set_nth_eq; auto | apply Hfa; auto].
Qed.

(* a worker waiting for pop ticket q is the only one waiting for q, and slot q has not been consumed *)
Record WaitInv (s : st) : Prop := {
  w_notdone : forall t th q it, nth_error (threads s) t = Some th -> tpc th = WPop q -> nth_error (slots (gq s)) q <> Some (SDone it);
  w_distinct : forall t1 t2 th1 th2 q, t1 <> t2 -> nth_error (threads s) t1 = Some th1 -> nth_error (threads s) t2 = Some th2 ->
               tpc th1 = WPop q -> tpc th2 = WPop q -> False
}.
Lemma ex_waiters : forall c progs s, Reach c progs s -> WaitInv s.
Proof.
  intros c progs. apply (reach_ind c progs WaitInv).
  - constructor.
    + intros t th q it H Hp. apply nth_error_In, init_threads_in in H.
      destruct H as [[_ E]|[(w0 & _ & E)|[_ E]]]; rewrite E in Hp; discriminate.
    + intros t1 t2 th1 th2 q _ H _ Hp. apply nth_error_In, init_threads_in in H.
      destruct H as [[_ E]|[(w0 & _ & E)|[_ E]]]; rewrite E in Hp; discriminate.
  - intros s t s' Hr IH Hs. pose proof (ex_tickets _ _ _ Hr) as TK.
    destruct (step_gq _ _ _ _ Hs) as (th & th' & o & Hn & Ht & Hrel & Hnew & Hold & Hpopf & Htake & _).
    constructor.
    + intros t0 th0 q it Hn0 Hp Hd. rewrite Ht in Hn0. apply nth_error_set_nth in Hn0. destruct Hn0 as [[-> ->]|[Hne Hn0]].
      * destruct (Hnew _ Hp) as [-> ->]. cbn in Hrel. rewrite Hrel in Hd. cbn in Hd. pose proof (tk_done _ TK _ _ Hd). lia.
      * destruct (sdone_bwd _ _ _ _ _ Hrel Hd) as [X| ->]; [eapply (w_notdone _ IH); eauto|].
        destruct (Hpopf _ _ eq_refl) as [Hpt _]. eapply (w_distinct _ IH t0 t); eauto.
    + intros t1 t2 th1 th2 q Hne Hn1 Hn2 Hp1 Hp2. rewrite Ht in Hn1, Hn2.
      apply nth_error_set_nth in Hn1. apply nth_error_set_nth in Hn2.
      destruct Hn1 as [[-> ->]|[Hne1 Hn1]]; destruct Hn2 as [[-> ->]|[Hne2 Hn2]]; try congruence.
      * destruct (Hnew _ Hp1) as [_ ->]. pose proof (tk_wait _ TK _ _ _ Hn2 Hp2). lia.
      * destruct (Hnew _ Hp2) as [_ ->]. pose proof (tk_wait _ TK _ _ _ Hn1 Hp1). lia.
      * eapply (w_distinct _ IH t1 t2); eauto.
Qed.

(* progress of the marker loop: that many STOP markers are in the global queue *)
Definition cnt_stop (l : list item) : nat := length (filter is_stop l).
Lemma cnt_stop_app : forall a b, cnt_stop (a ++ b) = cnt_stop a + cnt_stop b.
Proof. intros. unfold cnt_stop. now rewrite filter_app, app_length. Qed.

Lemma ex_markers : forall c progs s, Reach c progs s ->
  forall t th v, nth_error (threads s) t = Some th -> prog_lb (nworkers c) (tpc th) = Some v ->
  (v <= Z.of_nat (cnt_stop (items (gq s))))%Z.
Proof.
  intros c progs. apply (reach_ind c progs (fun s => forall t th v, nth_error (threads s) t = Some th ->
    prog_lb (nworkers c) (tpc th) = Some v -> (v <= Z.of_nat (cnt_stop (items (gq s))))%Z)).
  - intros t th v H Hp. apply nth_error_In, init_threads_in in H.
    destruct H as [[_ E]|[(w0 & _ & E)|[_ E]]]; rewrite E in Hp; discriminate.
  - intros s t s' _ IH Hs t0 th0 v Hn0 Hp.
    destruct (step_tk _ _ _ _ Hs) as (th & th' & og & Hn & Ht & Hrel & _ & _ & _ & Hprog & _).
    assert (Hmono : cnt_stop (items (gq s)) <= cnt_stop (items (gq s'))).
    { destruct (items_rel _ _ _ Hrel) as [->|(x & _ & ->)]; auto. rewrite cnt_stop_app. lia. }
    rewrite Ht in Hn0. apply nth_error_set_nth in Hn0. destruct Hn0 as [[-> ->]|[_ Hn0]].
    + destruct (Hprog _ Hp) as [H0|(v0 & Hv0 & [Hle|[-> ->]])]; [lia | specialize (IH _ _ _ Hn Hv0); lia |].
      specialize (IH _ _ _ Hn Hv0). destruct (items_rel _ _ _ Hrel) as [E|(x & Hx & E)]; [|injection Hx as <-].
      * cbn in Hrel. rewrite Hrel in E. unfold items, app_slot in E. cbn in E. rewrite map_app in E.
        apply (f_equal (@length item)) in E. rewrite app_length in E. cbn in E. lia.
      * rewrite E, cnt_stop_app. cbn. lia.
    + specialize (IH _ _ _ Hn0 Hp). lia.
Qed.

(* the early join is taken only when there is a balance thread; the late join never (regenerated order) *)
Lemma ex_joinbal : forall c progs s, Reach c progs s -> forall t th, nth_error (threads s) t = Some th ->
  (tpc th = EStopJoinBal -> has_balancer c = true) /\ tpc th <> EStopJoinBalLate.
Proof.
  intros c progs. apply (reach_ind c progs (fun s => forall t th, nth_error (threads s) t = Some th ->
    (tpc th = EStopJoinBal -> has_balancer c = true) /\ tpc th <> EStopJoinBalLate)).
  - intros t th H. apply nth_error_In, init_threads_in in H.
    destruct H as [[_ E]|[(w0 & _ & E)|[_ E]]]; rewrite E; split; intros; discriminate.
  - intros s t s' _ IH Hs t0 th0 Hn0.
    destruct (step_tk _ _ _ _ Hs) as (th & th' & og & Hn & Ht & _ & _ & _ & _ & _ & Hjb & Hlate & _).
    rewrite Ht in Hn0. apply nth_error_set_nth in Hn0. destruct Hn0 as [[-> ->]|[_ Hn0]]; [|eauto].
    destruct (IH _ _ Hn) as [A B]. split.
    + intros Hp. destruct (Hjb Hp); auto.
    + destruct Hlate; [auto | exfalso; auto].
Qed.

Lemma ex_join_index : forall c progs s, Reach c progs s -> forall t th k, nth_error (threads s) t = Some th ->
  tpc th = EStopJoin k -> k = 0 \/ k < nworkers c.
Proof.
  intros c progs. apply (reach_ind c progs (fun s => forall t th k, nth_error (threads s) t = Some th ->
    tpc th = EStopJoin k -> k = 0 \/ k < nworkers c)).
  - intros t th k H Hp. apply nth_error_In, init_threads_in in H.
    destruct H as [[_ E]|[(w0 & _ & E)|[_ E]]]; rewrite E in Hp; discriminate.
  - intros s t s' _ IH Hs t0 th0 k Hn0 Hp.
    destruct (step_tk _ _ _ _ Hs) as (th & th' & og & Hn & Ht & _ & _ & _ & _ & _ & _ & _ & Hk).
    rewrite Ht in Hn0. apply nth_error_set_nth in Hn0. destruct Hn0 as [[-> ->]|[_ Hn0]]; eauto.
Qed.

(* ======================================================================================== *)
(* as many workers have exited as STOP markers have been consumed                             *)
Fixpoint cntp {A} (P : A -> bool) (l : list A) : nat :=
  match l with [] => 0 | x :: r => (if P x then 1 else 0) + cntp P r end.
Lemma cntp_app : forall A (P : A -> bool) a b, cntp P (a ++ b) = cntp P a + cntp P b.
Proof. induction a as [|x a IH]; intros b; cbn; auto. rewrite IH. lia. Qed.
Lemma cntp_set_nth : forall A (P : A -> bool) l t x y, nth_error l t = Some x ->
  cntp P (set_nth t y l) + (if P x then 1 else 0) = cntp P l + (if P y then 1 else 0).
Proof.
  induction l as [|z l IH]; intros [|t] x y H; cbn in *; try discriminate.
  - injection H as ->. lia.
  - specialize (IH _ _ y H). lia.
Qed.
Lemma cntp_ge : forall A (P : A -> bool) l t x, nth_error l t = Some x -> P x = true -> 1 <= cntp P l.
Proof.
  induction l as [|z l IH]; intros [|t] x H Hp; cbn in *; try discriminate.
  - injection H as ->. rewrite Hp. lia.
  - specialize (IH _ _ H Hp). lia.
Qed.
Lemma cntp_map : forall A B (f : A -> B) (P : B -> bool) l, cntp P (map f l) = cntp (fun x => P (f x)) l.
Proof. induction l as [|x l IH]; cbn; auto. Qed.

Definition exitp (th : thread) : bool := match tpc th with WExit => true | _ => false end.
Definition sdone_stop (x : slot) : bool := match x with SDone it => is_stop it | _ => false end.

Lemma dispatch_stop : forall it, is_stop it = true -> dispatch it = WExit.
Proof.
  intros it H. unfold is_stop in H. unfold dispatch. apply Z.eqb_eq in H. rewrite H.
  destruct (worker_exits_on =? worker_runs_on)%Z eqn:E; [apply Z.eqb_eq in E; exfalso; apply gen_run_not_exit; auto|].
  now rewrite Z.eqb_refl.
Qed.

Lemma ex_exit_count : forall c progs s, Reach c progs s -> cntp exitp (threads s) = cntp sdone_stop (slots (gq s)).
Proof.
  intros c progs. apply (reach_ind c progs (fun s => cntp exitp (threads s) = cntp sdone_stop (slots (gq s)))).
  - cbn. rewrite !cntp_app. assert (A : forall l, cntp exitp (map mk_ext l) = 0) by (induction l; cbn; auto).
    assert (B : forall l, cntp exitp (map mk_worker l) = 0) by (induction l; cbn; auto).
    rewrite A, B. destruct (has_balancer c); reflexivity.
  - intros s t s' Hr IH Hs. destruct (ex_local_funs _ _ _ Hr) as [Hfuns _].
    destruct (step_gq _ _ _ _ Hs) as (th & th' & o & Hn & Ht & Hrel & _ & _ & Hpopf & _ & Hexit & _).
    destruct (step_facts _ _ _ _ Hs) as (th1 & th1' & Hn1 & Ht1 & _ & _ & _ & _ & _ & _ & _ & Hnw & _).
    same_threads.
    assert (Hth : exitp th = false) by (unfold exitp; destruct (tpc th); auto; congruence).
    pose proof (cntp_set_nth _ exitp _ _ _ th' Hn) as Hc. rewrite Hth in Hc. rewrite <- Ht in Hc.
    assert (Hex : exitp th' = true -> exists q it, o = GPop q it /\ is_stop it = true).
    { intros H. assert (Hp : tpc th' = WExit) by (unfold exitp in H; destruct (tpc th'); try discriminate; auto).
      destruct (Hexit Hp) as (it & Hst & [(q & ->)|(k & q' & Htp)]); eauto.
      exfalso. destruct (try_pop_funs _ _ _ Htp (lq_of_funs _ _ Hfuns)) as [(id & ->) _]. discriminate. }
    destruct o as [|x|p| |q x]; cbn in Hrel.
    + rewrite Hrel. destruct (exitp th') eqn:E; [destruct (Hex eq_refl) as (? & ? & ? & _); discriminate | lia].
    + rewrite Hrel. cbn. rewrite cntp_app. cbn.
      destruct (exitp th') eqn:E; [destruct (Hex eq_refl) as (? & ? & ? & _); discriminate | lia].
    + rewrite Hrel. destruct (exitp th') eqn:E; [destruct (Hex eq_refl) as (? & ? & ? & _); discriminate |].
      destruct (fill_slots (gq s) p) as [->|(y & Hy & ->)]; [lia|].
      pose proof (cntp_set_nth _ sdone_stop _ _ _ (SFull y) Hy) as X. cbn in X. lia.
    + rewrite Hrel. cbn. destruct (exitp th') eqn:E; [destruct (Hex eq_refl) as (? & ? & ? & _); discriminate | lia].
    + destruct (Hpopf _ _ eq_refl) as [_ Hd]. apply pop_ready_inv in Hrel. destruct Hrel as (Hsl & -> & _).
      pose proof (cntp_set_nth _ sdone_stop _ _ _ (SDone x) Hsl) as X. cbn [sdone_stop] in X.
      assert (He : exitp th' = is_stop x).
      { unfold exitp. rewrite Hd. destruct (is_stop x) eqn:Es; [now rewrite dispatch_stop|].
        destruct (dispatch x) eqn:Ed; auto. apply dispatch_exit in Ed. congruence. }
      rewrite He in Hc. lia.
Qed.

(* enough exits means every worker has exited *)
Definition wkp (th : thread) : bool := match trole th with RWorker _ => true | _ => false end.
Lemma workers_count : forall c progs s, Layout c progs s -> cntp wkp (threads s) = nworkers c.
Proof.
  intros c progs s [H _]. unfold wkp. rewrite <- (cntp_map _ _ trole (fun r => match r with RWorker _ => true | _ => false end)).
  rewrite H, roles_eq, !cntp_app.
  assert (A : forall n, cntp (fun r => match r with RWorker _ => true | _ => false end) (repeat RExt n) = 0) by (induction n; cbn; auto).
  assert (B : forall l, cntp (fun r => match r with RWorker _ => true | _ => false end) (map RWorker l) = length l) by (induction l; cbn; auto).
  rewrite A, B, seq_length. destruct (has_balancer c); cbn; lia.
Qed.
Lemma exit_split : forall l, (forall th, In th l -> role_pc_ok (trole th) (tpc th) = true) ->
  cntp exitp l + cntp (fun th => wkp th && negb (exitp th)) l = cntp wkp l.
Proof.
  induction l as [|x l IH]; intros H; cbn; auto. rewrite <- IH by (intros; apply H; right; auto).
  pose proof (H x (or_introl eq_refl)) as R. unfold exitp, wkp in *. destruct (trole x); destruct (tpc x); cbn in *; try discriminate; lia.
Qed.
Lemma all_workers_exited : forall c progs s, Reach c progs s -> nworkers c <= cntp exitp (threads s) ->
  forall t th w, nth_error (threads s) t = Some th -> trole th = RWorker w -> tpc th = WExit.
Proof.
  intros c progs s Hr Hle t th w Hn Hrole.
  pose proof (workers_count _ _ _ (layout_reach _ _ _ Hr)) as Hw.
  pose proof (exit_split (threads s)) as Hs. rewrite Hw in Hs.
  assert (Hz : cntp (fun th => wkp th && negb (exitp th)) (threads s) = 0).
  { assert (X : forall th0, In th0 (threads s) -> role_pc_ok (trole th0) (tpc th0) = true).
    { intros th0 Hin. apply In_nth_error in Hin. destruct Hin as (k & Hk). eapply ex_role_pc; eauto. }
    specialize (Hs X). lia. }
  destruct (exitp th) eqn:E; [unfold exitp in E; destruct (tpc th); try discriminate; auto|].
  exfalso. assert (1 <= cntp (fun th => wkp th && negb (exitp th)) (threads s)); [|lia].
  eapply cntp_ge; eauto. unfold wkp. rewrite Hrole, E. reflexivity.
Qed.
