(* Liveness of stop() in the pool model (property C07): no reachable deadlock under the usage rules. *)
From Coq Require Import ZArith List Bool Arith Lia.
Require Import Verif.Base.Atomics Verif.Gen.Gen_executor Verif.Conc.Machine Verif.EX.EXModel Verif.EX.EXProofs.
Import ListNotations.

(* ======================================================================================== *)
(* one more case analysis of `step`: tickets of pushers, progress of the marker loop          *)
Definition prog_lb (n : nat) (p : pc) : option Z :=
  match p with
  | EStopPush i => Some i
  | EStopFill i _ => Some (i + 1)%Z
  | EStopJoin _ | EStopJoinBalLate => Some (Z.of_nat n)
  | _ => None
  end.
Lemma prog_lb_dispatch : forall n it, prog_lb n (dispatch it) = None.
Proof. intros n it. unfold dispatch. destruct (_ =? _)%Z; [destruct it; reflexivity|]. destruct (_ =? _)%Z; reflexivity. Qed.

Lemma step_tk : forall c s t s', step c s t = Some s' ->
  exists th th' og, nth_error (threads s) t = Some th /\ threads s' = set_nth t th' (threads s) /\
    gq_rel (gq s) (gq s') og /\
    (forall it, og = GApp it -> ticket_of (tpc th') = Some (length (slots (gq s)), it)) /\
    (forall p it, ticket_of (tpc th) = Some (p, it) -> ticket_of (tpc th') = Some (p, it) \/ og = GFill p) /\
    (forall p, og = GFill p -> exists it, ticket_of (tpc th) = Some (p, it)) /\
    (forall v, prog_lb (nworkers c) (tpc th') = Some v -> (v <= 0)%Z \/
        exists v0, prog_lb (nworkers c) (tpc th) = Some v0 /\
                   ((v <= v0)%Z \/ (v = v0 + 1 /\ og = GApp (IMark stop_marker_type))%Z)) /\
    (tpc th' = EStopJoinBal -> has_balancer c = true \/ tpc th = EStopJoinBal) /\
    (tpc th' <> EStopJoinBalLate \/ tpc th = EStopJoinBalLate) /\
    (forall k, tpc th' = EStopJoin k -> k = 0 \/ k < nworkers c).
Proof.
  intros c s t s' H. destr_step H; kill_gen; simp_st;
    rewrite ?stop_loop_eq; steal_cases; unfold after_sweep;
    repeat match goal with |- context [if ?b then _ else _] => destruct b eqn:? end;
    eexists; eexists;
    (first [ exists GSame; split; [reflexivity|]; split; [reflexivity|]; split; [reflexivity|]
           | eexists (GApp _); split; [reflexivity|]; split; [reflexivity|]; split; [reflexivity|]
           | eexists (GFill _); split; [reflexivity|]; split; [reflexivity|]; split; [reflexivity|]
           | exists GTake; split; [reflexivity|]; split; [reflexivity|]; split; [reflexivity|]
           | eexists (GPop _ _); split; [reflexivity|]; split; [reflexivity|]; split; [eassumption|] ]);
    cbn [tpc trole goto next_op];
    repeat match goal with H : tpc _ = _ |- _ => rewrite H end;
    rewrite ?ticket_dispatch, ?prog_lb_dispatch;
    repeat split; intros;
    cbn [ticket_of prog_lb] in *;
    repeat match goal with
           | H : GApp _ = GApp _ |- _ => injection H as ?; subst
           | H : GFill _ = GFill _ |- _ => injection H as ?; subst
           | H : Some _ = Some _ |- _ => inversion H; subst; clear H
           end;
    try discriminate; eauto 6;
    try (left; discriminate);
    try (match goal with H : dispatch ?i = EStopJoinBal |- _ => exfalso; pose proof (dispatch_worker_pc 0 i) as X; rewrite H in X; discriminate end);
    try (left; intros Hd; match type of Hd with dispatch ?i = _ => pose proof (dispatch_worker_pc 0 i) as X; rewrite Hd in X; discriminate end).
  all: try (match goal with H : EStopJoin _ = EStopJoin _ |- _ => injection H as <- end;
            first [left; reflexivity | right; apply Nat.ltb_lt; assumption]).
  all: try (match goal with H : dispatch ?i = EStopJoin _ |- _ => exfalso; exact (dispatch_not_join _ _ H) end).
  all: repeat match goal with
             | H : stop_push_more _ _ = false |- _ => rewrite gen_push_more in H; apply Z.ltb_ge in H
             | H : stop_push_more _ _ = true |- _ => rewrite gen_push_more in H; apply Z.ltb_lt in H
             end; rewrite ?gen_first_marker in *.
  all: first [ left; lia | right; eexists; split; [reflexivity|]; left; lia ].
Qed.


(* ======================================================================================== *)
(* a slot whose ticket is taken but not written has a thread holding that ticket              *)
Lemma fill_not_pend : forall g p it, nth_error (slots (fill g p)) p <> Some (SPend it).
Proof.
  intros g p it H. unfold fill in H; cbn in H. destruct (nth_error (slots g) p) as [[x|x|x]|] eqn:E; try congruence.
  rewrite nth_error_set_nth_eq in H by (eapply nth_error_lt; eauto). discriminate.
Qed.
Lemma pend_bwd : forall g g' o p it, gq_rel g g' o -> nth_error (slots g') p = Some (SPend it) ->
  nth_error (slots g) p = Some (SPend it) \/ (o = GApp it /\ p = length (slots g)).
Proof.
  intros g g' [|x|p0| |q x] p it H Hp; cbn in H; subst; auto.
  - cbn in Hp. destruct (lt_dec p (length (slots g))) as [Hlt|Hge]; [rewrite nth_error_app1 in Hp; auto|].
    rewrite nth_error_app2 in Hp by lia. destruct (p - length (slots g)) as [|k] eqn:E; [|destruct k; discriminate].
    injection Hp as ->. right. split; auto. lia.
  - destruct (fill_slots g p0) as [E|(y & Hy & E)]; rewrite E in Hp; auto.
    apply nth_error_set_nth in Hp. destruct Hp as [[_ X]|[_ X]]; [discriminate|auto].
  - apply pop_ready_inv in H. destruct H as (_ & E & _). rewrite E in Hp.
    apply nth_error_set_nth in Hp. destruct Hp as [[_ X]|[_ X]]; [discriminate|auto].
Qed.

Lemma ex_pend_has_holder : forall c progs s, Reach c progs s -> forall p it, nth_error (slots (gq s)) p = Some (SPend it) ->
  exists t th it', nth_error (threads s) t = Some th /\ ticket_of (tpc th) = Some (p, it').
Proof.
  intros c progs. apply (reach_ind c progs (fun s => forall p it, nth_error (slots (gq s)) p = Some (SPend it) ->
    exists t th it', nth_error (threads s) t = Some th /\ ticket_of (tpc th) = Some (p, it'))).
  - cbn. intros [|p] it H; discriminate.
  - intros s t s' _ IH Hs p it Hp.
    destruct (step_tk _ _ _ _ Hs) as (th & th' & og & Hn & Ht & Hrel & Hfa & Hfb & _).
    assert (Hlt : t < length (threads s)) by (eapply nth_error_lt; eauto).
    destruct (pend_bwd _ _ _ _ _ Hrel Hp) as [Hold|[-> ->]].
    + destruct (IH _ _ Hold) as (t1 & th1 & it1 & Hn1 & Htk1). destruct (Nat.eq_dec t1 t) as [->|Hne].
      * rewrite Hn in Hn1. injection Hn1 as <-. destruct (Hfb _ _ Htk1) as [Hk| ->].
        -- exists t, th', it1. split; auto. rewrite Ht. apply nth_error_set_nth_eq. auto.
        -- exfalso. cbn in Hrel. rewrite Hrel in Hp. eapply fill_not_pend; eauto.
      * exists t1, th1, it1. split; auto. rewrite Ht, nth_error_set_nth_neq; auto.
    + exists t, th', it. split; [rewrite Ht; apply nth_error_set_nth_eq; auto | apply Hfa; auto].
Qed.

(* a worker waiting for pop ticket q is the only one waiting for q, and slot q has not been consumed *)
Record WaitInv (s : st) : Prop := {
  w_notdone : forall t th q it, nth_error (threads s) t = Some th -> tpc th = WPop q -> nth_error (slots (gq s)) q <> Some (SDone it);
  w_distinct : forall t1 t2 th1 th2 q, t1 <> t2 -> nth_error (threads s) t1 = Some th1 -> nth_error (threads s) t2 = Some th2 ->
               tpc th1 = WPop q -> tpc th2 = WPop q -> False
}.
Lemma ex_waiters : forall c progs s, Reach c progs s -> WaitInv s.
Proof.
  intros c progs. apply (reach_ind c progs WaitInv).
  - constructor.
    + intros t th q it H Hp. apply nth_error_In, init_threads_in in H.
      destruct H as [[_ E]|[(w0 & _ & E)|[_ E]]]; rewrite E in Hp; discriminate.
    + intros t1 t2 th1 th2 q _ H _ Hp. apply nth_error_In, init_threads_in in H.
      destruct H as [[_ E]|[(w0 & _ & E)|[_ E]]]; rewrite E in Hp; discriminate.
  - intros s t s' Hr IH Hs. pose proof (ex_tickets _ _ _ Hr) as TK.
    destruct (step_gq _ _ _ _ Hs) as (th & th' & o & Hn & Ht & Hrel & Hnew & Hold & Hpopf & Htake & _).
    constructor.
    + intros t0 th0 q it Hn0 Hp Hd. rewrite Ht in Hn0. apply nth_error_set_nth in Hn0. destruct Hn0 as [[-> ->]|[Hne Hn0]].
      * destruct (Hnew _ Hp) as [-> ->]. cbn in Hrel. rewrite Hrel in Hd. cbn in Hd. pose proof (tk_done _ TK _ _ Hd). lia.
      * destruct (sdone_bwd _ _ _ _ _ Hrel Hd) as [X| ->]; [eapply (w_notdone _ IH); eauto|].
        destruct (Hpopf _ _ eq_refl) as [Hpt _]. eapply (w_distinct _ IH t0 t); eauto.
    + intros t1 t2 th1 th2 q Hne Hn1 Hn2 Hp1 Hp2. rewrite Ht in Hn1, Hn2.
      apply nth_error_set_nth in Hn1. apply nth_error_set_nth in Hn2.
      destruct Hn1 as [[-> ->]|[Hne1 Hn1]]; destruct Hn2 as [[-> ->]|[Hne2 Hn2]]; try congruence.
      * destruct (Hnew _ Hp1) as [_ ->]. pose proof (tk_wait _ TK _ _ _ Hn2 Hp2). lia.
      * destruct (Hnew _ Hp2) as [_ ->]. pose proof (tk_wait _ TK _ _ _ Hn1 Hp1). lia.
      * eapply (w_distinct _ IH t1 t2); eauto.
Qed.

(* progress of the marker loop: that many STOP markers are in the global queue *)
Definition cnt_stop (l : list item) : nat := length (filter is_stop l).
Lemma cnt_stop_app : forall a b, cnt_stop (a ++ b) = cnt_stop a + cnt_stop b.
Proof. intros. unfold cnt_stop. now rewrite filter_app, app_length. Qed.

Lemma ex_markers : forall c progs s, Reach c progs s ->
  forall t th v, nth_error (threads s) t = Some th -> prog_lb (nworkers c) (tpc th) = Some v ->
  (v <= Z.of_nat (cnt_stop (items (gq s))))%Z.
Proof.
  intros c progs. apply (reach_ind c progs (fun s => forall t th v, nth_error (threads s) t = Some th ->
    prog_lb (nworkers c) (tpc th) = Some v -> (v <= Z.of_nat (cnt_stop (items (gq s))))%Z)).
  - intros t th v H Hp. apply nth_error_In, init_threads_in in H.
    destruct H as [[_ E]|[(w0 & _ & E)|[_ E]]]; rewrite E in Hp; discriminate.
  - intros s t s' _ IH Hs t0 th0 v Hn0 Hp.
    destruct (step_tk _ _ _ _ Hs) as (th & th' & og & Hn & Ht & Hrel & _ & _ & _ & Hprog & _).
    assert (Hmono : cnt_stop (items (gq s)) <= cnt_stop (items (gq s'))).
    { destruct (items_rel _ _ _ Hrel) as [->|(x & _ & ->)]; auto. rewrite cnt_stop_app. lia. }
    rewrite Ht in Hn0. apply nth_error_set_nth in Hn0. destruct Hn0 as [[-> ->]|[_ Hn0]].
    + destruct (Hprog _ Hp) as [H0|(v0 & Hv0 & [Hle|[-> ->]])]; [lia | specialize (IH _ _ _ Hn Hv0); lia |].
      specialize (IH _ _ _ Hn Hv0). destruct (items_rel _ _ _ Hrel) as [E|(x & Hx & E)]; [|injection Hx as <-].
      * cbn in Hrel. rewrite Hrel in E. unfold items, app_slot in E. cbn in E. rewrite map_app in E.
        apply (f_equal (@length item)) in E. rewrite app_length in E. cbn in E. lia.
      * rewrite E, cnt_stop_app. cbn. lia.
    + specialize (IH _ _ _ Hn0 Hp). lia.
Qed.

(* the early join is taken only when there is a balance thread; the late join never (regenerated order) *)
Lemma ex_joinbal : forall c progs s, Reach c progs s -> forall t th, nth_error (threads s) t = Some th ->
  (tpc th = EStopJoinBal -> has_balancer c = true) /\ tpc th <> EStopJoinBalLate.
Proof.
  intros c progs. apply (reach_ind c progs (fun s => forall t th, nth_error (threads s) t = Some th ->
    (tpc th = EStopJoinBal -> has_balancer c = true) /\ tpc th <> EStopJoinBalLate)).
  - intros t th H. apply nth_error_In, init_threads_in in H.
    destruct H as [[_ E]|[(w0 & _ & E)|[_ E]]]; rewrite E; split; intros; discriminate.
  - intros s t s' _ IH Hs t0 th0 Hn0.
    destruct (step_tk _ _ _ _ Hs) as (th & th' & og & Hn & Ht & _ & _ & _ & _ & _ & Hjb & Hlate & _).
    rewrite Ht in Hn0. apply nth_error_set_nth in Hn0. destruct Hn0 as [[-> ->]|[_ Hn0]]; [|eauto].
    destruct (IH _ _ Hn) as [A B]. split.
    + intros Hp. destruct (Hjb Hp); auto.
    + destruct Hlate; [auto | exfalso; auto].
Qed.

Lemma ex_join_index : forall c progs s, Reach c progs s -> forall t th k, nth_error (threads s) t = Some th ->
  tpc th = EStopJoin k -> k = 0 \/ k < nworkers c.
Proof.
  intros c progs. apply (reach_ind c progs (fun s => forall t th k, nth_error (threads s) t = Some th ->
    tpc th = EStopJoin k -> k = 0 \/ k < nworkers c)).
  - intros t th k H Hp. apply nth_error_In, init_threads_in in H.
    destruct H as [[_ E]|[(w0 & _ & E)|[_ E]]]; rewrite E in Hp; discriminate.
  - intros s t s' _ IH Hs t0 th0 k Hn0 Hp.
    destruct (step_tk _ _ _ _ Hs) as (th & th' & og & Hn & Ht & _ & _ & _ & _ & _ & _ & _ & Hk).
    rewrite Ht in Hn0. apply nth_error_set_nth in Hn0. destruct Hn0 as [[-> ->]|[_ Hn0]]; eauto.
Qed.

(* ======================================================================================== *)
(* as many workers have exited as STOP markers have been consumed                             *)
Fixpoint cntp {A} (P : A -> bool) (l : list A) : nat :=
  match l with [] => 0 | x :: r => (if P x then 1 else 0) + cntp P r end.
Lemma cntp_app : forall A (P : A -> bool) a b, cntp P (a ++ b) = cntp P a + cntp P b.
Proof. induction a as [|x a IH]; intros b; cbn; auto. rewrite IH. lia. Qed.
Lemma cntp_set_nth : forall A (P : A -> bool) l t x y, nth_error l t = Some x ->
  cntp P (set_nth t y l) + (if P x then 1 else 0) = cntp P l + (if P y then 1 else 0).
Proof.
  induction l as [|z l IH]; intros [|t] x y H; cbn in *; try discriminate.
  - injection H as ->. lia.
  - specialize (IH _ _ y H). lia.
Qed.
Lemma cntp_ge : forall A (P : A -> bool) l t x, nth_error l t = Some x -> P x = true -> 1 <= cntp P l.
Proof.
  induction l as [|z l IH]; intros [|t] x H Hp; cbn in *; try discriminate.
  - injection H as ->. rewrite Hp. lia.
  - specialize (IH _ _ H Hp). lia.
Qed.
Lemma cntp_map : forall A B (f : A -> B) (P : B -> bool) l, cntp P (map f l) = cntp (fun x => P (f x)) l.
Proof. induction l as [|x l IH]; cbn; auto. Qed.

Definition exitp (th : thread) : bool := match tpc th with WExit => true | _ => false end.
Definition sdone_stop (x : slot) : bool := match x with SDone it => is_stop it | _ => false end.

Lemma dispatch_stop : forall it, is_stop it = true -> dispatch it = WExit.
Proof.
  intros it H. unfold is_stop in H. unfold dispatch. apply Z.eqb_eq in H. rewrite H.
  destruct (worker_exits_on =? worker_runs_on)%Z eqn:E; [apply Z.eqb_eq in E; exfalso; apply gen_run_not_exit; auto|].
  now rewrite Z.eqb_refl.
Qed.

Lemma ex_exit_count : forall c progs s, Reach c progs s -> cntp exitp (threads s) = cntp sdone_stop (slots (gq s)).
Proof.
  intros c progs. apply (reach_ind c progs (fun s => cntp exitp (threads s) = cntp sdone_stop (slots (gq s)))).
  - cbn. rewrite !cntp_app. assert (A : forall l, cntp exitp (map mk_ext l) = 0) by (induction l; cbn; auto).
    assert (B : forall l, cntp exitp (map mk_worker l) = 0) by (induction l; cbn; auto).
    rewrite A, B. destruct (has_balancer c); reflexivity.
  - intros s t s' Hr IH Hs. destruct (ex_local_funs _ _ _ Hr) as [Hfuns _].
    destruct (step_gq _ _ _ _ Hs) as (th & th' & o & Hn & Ht & Hrel & _ & _ & Hpopf & _ & Hexit & _).
    destruct (step_facts _ _ _ _ Hs) as (th1 & th1' & Hn1 & Ht1 & _ & _ & _ & _ & _ & _ & _ & Hnw & _).
    same_threads.
    assert (Hth : exitp th = false) by (unfold exitp; destruct (tpc th); auto; congruence).
    pose proof (cntp_set_nth _ exitp _ _ _ th' Hn) as Hc. rewrite Hth in Hc. rewrite <- Ht in Hc.
    assert (Hex : exitp th' = true -> exists q it, o = GPop q it /\ is_stop it = true).
    { intros H. assert (Hp : tpc th' = WExit) by (unfold exitp in H; destruct (tpc th'); try discriminate; auto).
      destruct (Hexit Hp) as (it & Hst & [(q & ->)|(k & q' & Htp)]); eauto.
      exfalso. destruct (try_pop_funs _ _ _ Htp (lq_of_funs _ _ Hfuns)) as [(id & ->) _]. discriminate. }
    destruct o as [|x|p| |q x]; cbn in Hrel.
    + rewrite Hrel. destruct (exitp th') eqn:E; [destruct (Hex eq_refl) as (? & ? & ? & _); discriminate | lia].
    + rewrite Hrel. cbn. rewrite cntp_app. cbn.
      destruct (exitp th') eqn:E; [destruct (Hex eq_refl) as (? & ? & ? & _); discriminate | lia].
    + rewrite Hrel. destruct (exitp th') eqn:E; [destruct (Hex eq_refl) as (? & ? & ? & _); discriminate |].
      destruct (fill_slots (gq s) p) as [->|(y & Hy & ->)]; [lia|].
      pose proof (cntp_set_nth _ sdone_stop _ _ _ (SFull y) Hy) as X. cbn in X. lia.
    + rewrite Hrel. cbn. destruct (exitp th') eqn:E; [destruct (Hex eq_refl) as (? & ? & ? & _); discriminate | lia].
    + destruct (Hpopf _ _ eq_refl) as [_ Hd]. apply pop_ready_inv in Hrel. destruct Hrel as (Hsl & -> & _).
      pose proof (cntp_set_nth _ sdone_stop _ _ _ (SDone x) Hsl) as X. cbn [sdone_stop] in X.
      assert (He : exitp th' = is_stop x).
      { unfold exitp. rewrite Hd. destruct (is_stop x) eqn:Es; [now rewrite dispatch_stop|].
        destruct (dispatch x) eqn:Ed; auto. apply dispatch_exit in Ed. congruence. }
      rewrite He in Hc. lia.
Qed.

(* enough exits means every worker has exited *)
Definition wkp (th : thread) : bool := match trole th with RWorker _ => true | _ => false end.
Lemma workers_count : forall c progs s, Layout c progs s -> cntp wkp (threads s) = nworkers c.
Proof.
  intros c progs s [H _]. unfold wkp. rewrite <- (cntp_map _ _ trole (fun r => match r with RWorker _ => true | _ => false end)).
  rewrite H, roles_eq, !cntp_app.
  assert (A : forall n, cntp (fun r => match r with RWorker _ => true | _ => false end) (repeat RExt n) = 0) by (induction n; cbn; auto).
  assert (B : forall l, cntp (fun r => match r with RWorker _ => true | _ => false end) (map RWorker l) = length l) by (induction l; cbn; auto).
  rewrite A, B, seq_length. destruct (has_balancer c); cbn; lia.
Qed.
Lemma exit_split : forall l, (forall th, In th l -> role_pc_ok (trole th) (tpc th) = true) ->
  cntp exitp l + cntp (fun th => wkp th && negb (exitp th)) l = cntp wkp l.
Proof.
  induction l as [|x l IH]; intros H; cbn; auto. rewrite <- IH by (intros; apply H; right; auto).
  pose proof (H x (or_introl eq_refl)) as R. unfold exitp, wkp in *. destruct (trole x); destruct (tpc x); cbn in *; try discriminate; lia.
Qed.
Lemma all_workers_exited : forall c progs s, Reach c progs s -> nworkers c <= cntp exitp (threads s) ->
  forall t th w, nth_error (threads s) t = Some th -> trole th = RWorker w -> tpc th = WExit.
Proof.
  intros c progs s Hr Hle t th w Hn Hrole.
  pose proof (workers_count _ _ _ (layout_reach _ _ _ Hr)) as Hw.
  pose proof (exit_split (threads s)) as Hs. rewrite Hw in Hs.
  assert (Hz : cntp (fun th => wkp th && negb (exitp th)) (threads s) = 0).
  { assert (X : forall th0, In th0 (threads s) -> role_pc_ok (trole th0) (tpc th0) = true).
    { intros th0 Hin. apply In_nth_error in Hin. destruct Hin as (k & Hk). eapply ex_role_pc; eauto. }
    specialize (Hs X). lia. }
  destruct (exitp th) eqn:E; [unfold exitp in E; destruct (tpc th); try discriminate; auto|].
  exfalso. assert (1 <= cntp (fun th => wkp th && negb (exitp th)) (threads s)); [|lia].
  eapply cntp_ge; eauto. unfold wkp. rewrite Hrole, E. reflexivity.
Qed.

(* ======================================================================================== *)
(* which threads can always move                                                              *)
Definition always_enabled (p : pc) : bool :=
  match p with
  | EStopStore | EStopPush _ | WLoop | WSteal _ _ | WTake | WBegin _ | WRun _ _ | WGTake _ _ _ | BCheck | BSweep _ | BTake _ _ => true
  | _ => false
  end.
Ltac enabled_tac Hn :=
  unfold step, step_ext, step_worker, step_bal, take_push, take_pop; rewrite Hn;
  repeat match goal with
         | H : trole _ = _ |- _ => rewrite H
         | H : tpc _ = _ |- _ => rewrite H
         end;
  repeat match goal with |- context [match ?x with _ => _ end] => destruct x end; discriminate.

Lemma always_enabled_ok : forall c s t th, nth_error (threads s) t = Some th ->
  role_pc_ok (trole th) (tpc th) = true -> always_enabled (tpc th) = true -> step c s t <> None.
Proof.
  intros c s t th Hn R A. destruct (trole th) eqn:Er; destruct (tpc th) eqn:Ep; cbn in R, A; try discriminate; enabled_tac Hn.
Qed.
Lemma holder_enabled : forall c s t th p it, nth_error (threads s) t = Some th ->
  role_pc_ok (trole th) (tpc th) = true -> ticket_of (tpc th) = Some (p, it) ->
  slot_released (gq s) (global_slots c) p = true -> step c s t <> None.
Proof.
  intros c s t th p it Hn R Tk Rel. destruct (trole th) eqn:Er; destruct (tpc th) eqn:Ep; cbn in R, Tk; try discriminate;
    inversion Tk; subst; unfold step, step_ext, step_worker, step_bal; rewrite Hn, Er, Ep, Rel; discriminate.
Qed.
Lemma waiter_enabled : forall c s t th q it, nth_error (threads s) t = Some th ->
  role_pc_ok (trole th) (tpc th) = true -> tpc th = WPop q -> nth_error (slots (gq s)) q = Some (SFull it) -> step c s t <> None.
Proof.
  intros c s t th q it Hn R Hp Hs. destruct (trole th) eqn:Er; rewrite Hp in R; cbn in R; try discriminate.
  unfold step, step_worker, pop_ready. rewrite Hn, Er, Hp, Hs. discriminate.
Qed.

Definition is_sdone (x : slot) : bool := match x with SDone _ => true | _ => false end.
Lemma sdone_or_not : forall l : list slot, (forall x, In x l -> is_sdone x = true) \/ exists r x, nth_error l r = Some x /\ is_sdone x = false.
Proof.
  induction l as [|y l IH]; [left; intros ? []|]. destruct (is_sdone y) eqn:E.
  - destruct IH as [IH|(r & x & Hr & Hx)]; [left; intros x [<-|H]; auto | right; exists (S r), x; auto].
  - right. exists 0, y. auto.
Qed.
Lemma all_sdone_count : forall l, (forall x, In x l -> is_sdone x = true) -> cntp sdone_stop l = cnt_stop (map slot_item l).
Proof.
  induction l as [|y l IH]; intros H; cbn; auto. unfold cnt_stop in *. cbn.
  pose proof (H y (or_introl eq_refl)) as Hy. destruct y; try discriminate. cbn.
  rewrite IH by (intros; apply H; right; auto). destruct (is_stop it); reflexivity.
Qed.

(* ======================================================================================== *)
(* stop() cannot get stuck: while a thread is inside stop() some thread can move, provided no pusher is
   blocked by a full global queue *)
Definition no_push_blocked (c : config) (s : st) : Prop :=
  forall t th p it, nth_error (threads s) t = Some th -> ticket_of (tpc th) = Some (p, it) ->
                    slot_released (gq s) (global_slots c) p = true.

Lemma worker_thread_at : forall c progs s k, Layout c progs s -> k < nworkers c ->
  exists th, nth_error (threads s) (nex s + k) = Some th /\ trole th = RWorker k.
Proof.
  intros c progs s k Hlay Hk. pose proof Hlay as (Hr & Hnx & _).
  assert (Hrole : nth_error (roles c progs) (nex s + k) = Some (RWorker k)).
  { rewrite roles_eq, Hnx. rewrite nth_error_app2 by (rewrite repeat_length; lia). rewrite repeat_length.
    replace (length progs + k - length progs) with k by lia. rewrite nth_error_app1 by (rewrite map_length, seq_length; auto).
    rewrite nth_error_map. rewrite (nth_error_nth' _ 0) by (rewrite seq_length; auto). rewrite seq_nth by auto. reflexivity. }
  rewrite <- Hr, nth_error_map in Hrole. destruct (nth_error (threads s) (nex s + k)) as [th|]; [|discriminate].
  cbn in Hrole. injection Hrole as Hrole. eauto.
Qed.
Lemma bal_thread_at : forall c progs s, Layout c progs s -> has_balancer c = true ->
  exists th, nth_error (threads s) (bal_tid c s) = Some th /\ trole th = RBal.
Proof.
  intros c progs s Hlay Hb. pose proof Hlay as (Hr & Hnx & _). unfold bal_tid.
  assert (Hrole : nth_error (roles c progs) (nex s + nworkers c) = Some RBal).
  { rewrite roles_eq, Hnx, Hb. rewrite nth_error_app2 by (rewrite repeat_length; lia). rewrite repeat_length.
    rewrite nth_error_app2 by (rewrite map_length, seq_length; lia). rewrite map_length, seq_length.
    replace (length progs + nworkers c - length progs - nworkers c) with 0 by lia. reflexivity. }
  rewrite <- Hr, nth_error_map in Hrole. destruct (nth_error (threads s) (nex s + nworkers c)) as [th|]; [|discriminate].
  cbn in Hrole. injection Hrole as Hrole. eauto.
Qed.

Lemma ex_stop_not_stuck : forall c progs s, Reach c progs s -> no_push_blocked c s ->
  (exists t th, nth_error (threads s) t = Some th /\ stop_pc (tpc th) = true) -> exists t, step c s t <> None.
Proof.
  intros c progs s Hr Hnb (ts & ths & Hns & Hsp).
  pose proof (layout_reach _ _ _ Hr) as Hlay.
  pose proof (ex_role_pc _ _ _ Hr) as RC.
  destruct (tpc ths) eqn:Ep; try discriminate.
  - exists ts. apply (always_enabled_ok _ _ _ _ Hns (RC _ _ Hns)). now rewrite Ep.
  - (* join of the balance thread *)
    destruct (ex_joinbal _ _ _ Hr _ _ Hns) as [Hb _]. specialize (Hb Ep).
    destruct (bal_thread_at _ _ _ Hlay Hb) as (thb & Hnb0 & Hrb).
    destruct (tpc thb) eqn:Epb; pose proof (RC _ _ Hnb0) as Rb; rewrite Hrb, Epb in Rb; cbn in Rb; try discriminate.
    + exists (bal_tid c s). apply (always_enabled_ok _ _ _ _ Hnb0 (RC _ _ Hnb0)). now rewrite Epb.
    + exists (bal_tid c s). apply (always_enabled_ok _ _ _ _ Hnb0 (RC _ _ Hnb0)). now rewrite Epb.
    + exists (bal_tid c s). apply (always_enabled_ok _ _ _ _ Hnb0 (RC _ _ Hnb0)). now rewrite Epb.
    + exists (bal_tid c s). eapply (holder_enabled _ _ _ _ _ _ Hnb0 (RC _ _ Hnb0)); [rewrite Epb; reflexivity|].
      eapply Hnb; eauto. rewrite Epb. reflexivity.
    + exists ts. pose proof (RC _ _ Hns) as Rs. destruct (trole ths) eqn:Ers; rewrite Ep in Rs; cbn in Rs; try discriminate.
      unfold step, step_ext. rewrite Hns, Ers, Ep. unfold pc_of. rewrite Hnb0. cbn. rewrite Epb. discriminate.
  - exfalso. destruct (ex_joinbal _ _ _ Hr _ _ Hns) as [_ Hl]. auto.
  - exists ts. apply (always_enabled_ok _ _ _ _ Hns (RC _ _ Hns)). now rewrite Ep.
  - exists ts. eapply (holder_enabled _ _ _ _ _ _ Hns (RC _ _ Hns)); [rewrite Ep; reflexivity|].
    eapply Hnb; eauto. rewrite Ep. reflexivity.
  - (* join of worker k *)
    pose proof (RC _ _ Hns) as Rs. destruct (trole ths) eqn:Ers; rewrite Ep in Rs; cbn in Rs; try discriminate.
    destruct (Nat.eq_dec (nworkers c) 0) as [H0|H0].
    { exists ts. unfold step, step_ext. rewrite Hns, Ers, Ep. apply Nat.eqb_eq in H0. rewrite H0. discriminate. }
    assert (Hk : k < nworkers c) by (destruct (ex_join_index _ _ _ Hr _ _ _ Hns Ep); lia).
    destruct (worker_thread_at _ _ _ _ Hlay Hk) as (thk & Hnk & Hrk).
    pose proof (RC _ _ Hnk) as Rk. rewrite Hrk in Rk.
    destruct (tpc thk) eqn:Epk; cbn in Rk; try discriminate;
      try (exists (nex s + k); apply (always_enabled_ok _ _ _ _ Hnk (RC _ _ Hnk)); rewrite Epk; reflexivity);
      try (exfalso; eapply (ex_one_task_per_scan _ _ _ Hr _ _ _ _ _ Hnk); exact Epk).
    + (* waiting on the global queue *)
      destruct (nth_error (slots (gq s)) q) as [[x|x|x]|] eqn:Eq.
      * destruct (ex_pend_has_holder _ _ _ Hr _ _ Eq) as (t1 & th1 & it1 & Hn1 & Htk1).
        exists t1. eapply holder_enabled; eauto.
      * exists (nex s + k). eapply waiter_enabled; eauto.
      * exfalso. eapply (w_notdone _ (ex_waiters _ _ _ Hr)); eauto.
      * (* ticket beyond the written slots *)
        pose proof (ex_tickets _ _ _ Hr) as TK.
        assert (Hlen : length (slots (gq s)) <= q) by (apply nth_error_None; auto).
        pose proof (tk_wait _ TK _ _ _ Hnk Epk) as Hq.
        destruct (sdone_or_not (slots (gq s))) as [Hall|(r & x & Hrx & Hx)].
        -- exfalso.
           assert (Hm : (Z.of_nat (nworkers c) <= Z.of_nat (cnt_stop (items (gq s))))%Z).
           { eapply (ex_markers _ _ _ Hr _ _ _ Hns). rewrite Ep. reflexivity. }
           pose proof (ex_exit_count _ _ _ Hr) as Hc. rewrite (all_sdone_count _ Hall) in Hc. fold (items (gq s)) in Hc.
           assert (Hex : tpc thk = WExit) by (eapply all_workers_exited; eauto; lia). congruence.
        -- pose proof (nth_error_lt _ _ _ _ Hrx) as Hrl.
           destruct x as [y|y|y]; try discriminate.
           ++ destruct (ex_pend_has_holder _ _ _ Hr _ _ Hrx) as (t1 & th1 & it1 & Hn1 & Htk1).
              exists t1. eapply holder_enabled; eauto.
           ++ destruct (tk_served _ TK r) as [(it0 & Hd)|(t1 & th1 & Hn1 & Hp1)]; [lia|congruence|].
              exists t1. eapply waiter_enabled; eauto.
    + exists (nex s + k). eapply (holder_enabled _ _ _ _ _ _ Hnk (RC _ _ Hnk)); [rewrite Epk; reflexivity|].
      eapply Hnb; eauto. rewrite Epk. reflexivity.
    + exists ts. unfold step, step_ext. rewrite Hns, Ers, Ep. apply Nat.eqb_neq in H0. rewrite H0.
      unfold pc_of, worker_tid. rewrite Hnk. cbn. rewrite Epk. unfold stop_join_next. destruct (S k <? nworkers c); discriminate.
Qed.

(* ======================================================================================== *)
(* the global queue cannot fill: a potential that bounds the number of push tickets           *)
Definition opw (n : nat) (o : op) : nat := match o with OSubmit _ | OWake => 1 | OStop => n | OJoinExt => 0 end.
Definition ops_w (n : nat) (l : list op) : nat := list_sum (map (opw n) l).
Definition pend_w (n : nat) (th : thread) : nat :=
  ops_w n (skipn (if is_idle (tpc th) then opi th else S (opi th)) (prog th)).
Definition pcw (n : nat) (p : pc) : nat :=
  match p with
  | EStopStore | EStopJoinBal => n
  | EStopPush i => 1 + Z.to_nat (Z.of_nat n - i - 1)
  | EStopFill i _ => Z.to_nat (Z.of_nat n - i - 1)
  | WRun _ rest => 2 * length rest
  | WGTake _ rest _ => 2 * length rest + 1
  | WFill _ rest _ _ => 2 * length rest
  | BTake _ _ => 1
  | _ => 0
  end.
Definition thw (n : nat) (th : thread) : nat := pend_w n th + pcw n (tpc th).
Fixpoint wsum (n : nat) (l : list thread) : nat := match l with [] => 0 | th :: r => thw n th + wsum n r end.
Definition is_full (x : slot) : bool := match x with SFull _ => true | _ => false end.
Fixpoint lwsum (l : list queue) : nat := match l with [] => 0 | q :: r => cntp is_full (slots q) + lwsum r end.
Definition restw (s : st) : nat := length (slots (gq s)) + lwsum (lqs s).

Lemma wsum_set_nth : forall n l t x y, nth_error l t = Some x -> wsum n (set_nth t y l) + thw n x = wsum n l + thw n y.
Proof.
  induction l as [|z l IH]; intros [|t] x y H; cbn in *; try discriminate.
  - injection H as ->. lia.
  - specialize (IH _ _ y H). lia.
Qed.
Lemma lwsum_set_nth : forall l k x y, nth_error l k = Some x ->
  lwsum (set_nth k y l) + cntp is_full (slots x) = lwsum l + cntp is_full (slots y).
Proof.
  induction l as [|z l IH]; intros [|k] x y H; cbn in *; try discriminate.
  - injection H as ->. lia.
  - specialize (IH _ _ y H). lia.
Qed.
Lemma lw_try_pop : forall s k it q', try_pop (lq_of s k) = Some (it, q') -> lwsum (set_nth k q' (lqs s)) + 1 = lwsum (lqs s).
Proof.
  intros s k it q' H. destruct (lt_dec k (length (lqs s))) as [Hlt|Hge].
  - pose proof (lwsum_set_nth _ _ _ q' (lq_of_nth_error _ _ Hlt)) as A.
    destruct (try_pop_slots _ _ _ H) as [Hf E]. rewrite E in A.
    pose proof (cntp_set_nth _ is_full _ _ _ (SDone it) Hf) as B. cbn in B. lia.
  - exfalso. unfold lq_of in H. rewrite nth_overflow in H by lia. discriminate.
Qed.
Lemma lw_push : forall s w id, w < length (lqs s) ->
  lwsum (set_nth w (local_push (lq_of s w) (IFun id)) (lqs s)) = lwsum (lqs s) + 1.
Proof.
  intros s w id Hlt. pose proof (lwsum_set_nth _ _ _ (local_push (lq_of s w) (IFun id)) (lq_of_nth_error _ _ Hlt)) as A.
  cbn [local_push slots] in A. rewrite cntp_app in A. cbn in A. lia.
Qed.
Lemma fill_length : forall g p, length (slots (fill g p)) = length (slots g).
Proof. intros g p. destruct (fill_slots g p) as [->|(y & _ & ->)]; auto. apply set_nth_length. Qed.
Lemma pcw_dispatch : forall n it, pcw n (dispatch it) = 0.
Proof. intros n it. unfold dispatch. destruct (_ =? _)%Z; [destruct it; reflexivity|]. destruct (_ =? _)%Z; reflexivity. Qed.

Lemma step_weight : forall c s t s',
  (forall t th w, nth_error (threads s) t = Some th -> trole th = RWorker w -> w < length (lqs s)) ->
  step c s t = Some s' ->
  exists th th', nth_error (threads s) t = Some th /\ threads s' = set_nth t th' (threads s) /\
   ((started s' = started s /\ thw (nworkers c) th' + restw s' <= thw (nworkers c) th + restw s) \/
    (exists id w, tpc th = WBegin id /\ started s' = started s ++ [(id, w)] /\
        thw (nworkers c) th' + restw s' <= thw (nworkers c) th + restw s + 2 * length (body_of c id))).
Proof.
  intros c s t s' Hw H. destr_step H; kill_gen; simp_st;
    rewrite ?stop_loop_eq; steal_cases; unfold after_sweep;
    repeat match goal with |- context [if ?b then _ else _] => destruct b eqn:? end;
    eexists; eexists;
    (split; [reflexivity|]; split; [reflexivity|]);
    (first [ left; split; [reflexivity|] | right; eexists; eexists; split; [eassumption|]; split; [reflexivity|] ]);
    unfold thw, pend_w, restw, ops_w; simp_st;
    cbn [tpc opi prog goto next_op trole gq lqs];
    repeat match goal with H : tpc _ = _ |- _ => rewrite H end;
    cbn [is_idle pcw];
    try match goal with H : nth_error (prog _) (opi _) = Some _ |- _ => rewrite (skipn_nth _ _ _ _ H) end;
    cbn [map opw slots]; unfold list_sum; cbn [fold_right];
    rewrite ?fill_length, ?pcw_dispatch, ?is_idle_dispatch, ?app_length;
    try match goal with E : pop_ready _ _ = Some _ |- _ => let X := fresh in pose proof (pop_ready_inv _ _ _ _ E) as (_ & X & _); rewrite X, set_nth_length end;
    try match goal with E : try_pop (lq_of _ _) = Some _ |- _ => pose proof (lw_try_pop _ _ _ _ E) end;
    try (rewrite lw_push by (eapply Hw; eauto));
    repeat match goal with
           | H : stop_push_more _ _ = false |- _ => rewrite gen_push_more in H; apply Z.ltb_ge in H
           | H : stop_push_more _ _ = true |- _ => rewrite gen_push_more in H; apply Z.ltb_lt in H
           end; rewrite ?gen_first_marker in *;
    cbn [length]; try lia.
Qed.

Lemma fm_change_len : forall (l : list nat) (f g : nat -> list nat) id0, NoDup l ->
  (forall p, p <> id0 -> g p = f p) -> g id0 = [] ->
  (In id0 l -> length (flat_map g l) + length (f id0) = length (flat_map f l)) /\
  (~ In id0 l -> length (flat_map g l) = length (flat_map f l)).
Proof.
  induction l as [|a l IH]; intros f g id0 Hnd Hne H0; cbn; [split; [tauto|auto]|].
  inversion Hnd as [|? ? H1 H2]; subst. destruct (IH f g id0 H2 Hne H0) as [IH1 IH2]. rewrite !app_length.
  destruct (Nat.eq_dec a id0) as [->|Ha].
  - split; [|intros H; exfalso; apply H; auto]. intros _. rewrite H0. cbn. rewrite (IH2 H1). lia.
  - rewrite (Hne _ Ha). split.
    + intros [H|H]; [congruence|]. specialize (IH1 H). lia.
    + intros H. rewrite IH2; auto.
Qed.
Lemma len_tbl_start : forall c L id0, ~ In id0 L -> length (tbl c (L ++ [id0])) + length (body_of c id0) = length (tbl c L).
Proof.
  intros c L id0 Hni. unfold tbl.
  destruct (fm_change_len (seq 0 (length (bodies c))) (fun p => if memb p L then [] else nth p (bodies c) [])
              (fun p => if memb p (L ++ [id0]) then [] else nth p (bodies c) []) id0 (seq_NoDup _ _)) as [A B].
  - intros p Hp. unfold memb. rewrite existsb_app. cbn. apply Nat.eqb_neq in Hp. rewrite Hp. now rewrite !orb_false_r.
  - unfold memb. rewrite existsb_app. cbn. rewrite Nat.eqb_refl. now rewrite orb_true_r.
  - cbn beta in A. rewrite (memb_false _ _ Hni) in A. unfold body_of.
    destruct (lt_dec id0 (length (bodies c))) as [Hlt|Hge].
    + apply A. apply in_seq. lia.
    + rewrite nth_overflow by lia. cbn. rewrite B; [lia|]. rewrite in_seq. lia.
Qed.
Lemma nodup_snoc_inv : forall (l : list nat) a, NoDup (l ++ [a]) -> ~ In a l.
Proof. intros l a H Hin. apply NoDup_remove_2 in H. apply H. rewrite app_nil_r. exact Hin. Qed.

Definition phi (c : config) (s : st) : nat :=
  wsum (nworkers c) (threads s) + restw s + 2 * length (tbl c (map fst (started s))).
(* how many push tickets the programs can ever take: one per submit and wakeup, one marker per worker and stop(),
   and two per spawned task (its push by the parent and its possible move by the balance thread) *)
Definition push_bound (c : config) (progs : list (list op)) : nat :=
  list_sum (map (ops_w (nworkers c)) progs) + 2 * length (concat (bodies c)).

Lemma phi_init : forall c progs, phi c (init c progs) = push_bound c progs.
Proof.
  intros c progs. unfold phi, push_bound, restw. cbn [init threads gq lqs started map slots empty_queue length].
  rewrite tbl_init.
  assert (A : lwsum (repeat empty_queue (nworkers c)) = 0) by (induction (nworkers c); cbn; auto).
  assert (B : forall l l2, wsum (nworkers c) (l ++ l2) = wsum (nworkers c) l + wsum (nworkers c) l2).
  { induction l; intros; cbn; auto. rewrite IHl. lia. }
  assert (C : wsum (nworkers c) (map mk_ext progs) = list_sum (map (ops_w (nworkers c)) progs)).
  { clear. induction progs as [|p progs IH]; [reflexivity|]. cbn [map wsum]. rewrite IH. unfold thw, pend_w, ops_w, list_sum. cbn. lia. }
  assert (D : forall l, wsum (nworkers c) (map mk_worker l) = 0) by (induction l; cbn; auto).
  assert (E : wsum (nworkers c) (if has_balancer c then [mk_bal] else []) = 0) by (destruct (has_balancer c); reflexivity).
  rewrite A, !B, C, D, E. lia.
Qed.

Lemma ex_phi : forall c progs, NoDup (submit_ids progs ++ concat (bodies c)) ->
  forall s, Reach c progs s -> phi c s <= push_bound c progs.
Proof.
  intros c progs Hwf.
  assert (Hwf' : forall x, total c (init c progs) x <= 1) by (intros x; rewrite total_init; apply nodup_cnt; exact Hwf).
  apply (reach_ind c progs (fun s => phi c s <= push_bound c progs)).
  - rewrite phi_init. lia.
  - intros s t s' Hr IH Hs. pose proof (layout_reach _ _ _ Hr) as Hlay.
    assert (Hw : forall t th w, nth_error (threads s) t = Some th -> trole th = RWorker w -> w < length (lqs s)).
    { intros t0 th0 w Hn0 Hrole. pose proof (role_at _ _ _ _ _ Hlay Hn0) as R. rewrite Hrole in R.
      destruct Hlay as (_ & _ & ->). tauto. }
    destruct (step_weight _ _ _ _ Hw Hs) as (th & th' & Hn & Ht & Hcase).
    pose proof (wsum_set_nth (nworkers c) _ _ _ th' Hn) as Hsum. rewrite <- Ht in Hsum.
    unfold phi in *. destruct Hcase as [[Hst Hle]|(id & w & Hpc & Hst & Hle)].
    + rewrite Hst. lia.
    + assert (Hr' : Reach c progs s') by (eapply reachable_step; eauto).
      pose proof (ci_nodup _ _ _ (ex_counts _ _ Hwf' _ Hr')) as Hnd. rewrite Hst, map_app in Hnd. cbn [map fst] in Hnd.
      pose proof (len_tbl_start c _ _ (nodup_snoc_inv _ _ Hnd)). rewrite Hst, map_app. cbn [map fst]. lia.
Qed.

(* the usage rule that excludes the self-blocking case: every task id is written at one place and the global queue
   (absl::bit_ceil(2 * global_capacity) slots) has room for every push ticket the programs can ever take *)
Definition queue_cannot_fill (c : config) (progs : list (list op)) : Prop :=
  NoDup (submit_ids progs ++ concat (bodies c)) /\ push_bound c progs <= global_slots c.

Lemma ex_no_push_blocked : forall c progs s, queue_cannot_fill c progs -> Reach c progs s -> no_push_blocked c s.
Proof.
  intros c progs s [Hwf Hb] Hr t th p it Hn Htk.
  pose proof (a_tk _ (ex_accepted _ _ _ Hr) _ _ _ _ Hn Htk) as Hit. apply nth_error_lt in Hit.
  unfold items in Hit. rewrite map_length in Hit.
  pose proof (ex_phi _ _ Hwf _ Hr) as Hphi. unfold phi, restw in Hphi.
  unfold slot_released. assert (Hlt : (p <? global_slots c) = true) by (apply Nat.ltb_lt; lia). now rewrite Hlt.
Qed.

Theorem ex_stop_progress : forall c progs s, queue_cannot_fill c progs -> Reach c progs s ->
  (exists t th, nth_error (threads s) t = Some th /\ stop_pc (tpc th) = true) -> exists t, step c s t <> None.
Proof. intros c progs s Hu Hr. apply (ex_stop_not_stuck _ _ _ Hr). eapply ex_no_push_blocked; eauto. Qed.

(* ======================================================================================== *)
(* no reachable deadlock                                                                      *)
Definition op_at (th : thread) : option op := nth_error (prog th) (opi th).
Definition stop2 (p : pc) : bool :=
  match p with EStopJoinBal | EStopJoinBalLate | EStopPush _ | EStopFill _ _ | EStopJoin _ => true | _ => false end.
Lemma stop2_dispatch : forall it, stop2 (dispatch it) = false.
Proof. intros it. unfold dispatch. destruct (_ =? _)%Z; [destruct it; reflexivity|]. destruct (_ =? _)%Z; reflexivity. Qed.
Definition fill_pc (p : pc) : bool := match p with EFill _ _ => true | _ => false end.
Lemma fill_pc_dispatch : forall it, fill_pc (dispatch it) = false.
Proof. intros it. unfold dispatch. destruct (_ =? _)%Z; [destruct it; reflexivity|]. destruct (_ =? _)%Z; reflexivity. Qed.

Lemma step_ops : forall c s t s', step c s t = Some s' ->
  exists th th', nth_error (threads s) t = Some th /\ threads s' = set_nth t th' (threads s) /\
    prog th' = prog th /\
    (fill_pc (tpc th') = true -> opi th' = opi th /\ (fill_pc (tpc th) = true \/ op_at th <> Some OStop)) /\
    (opi th' = opi th \/ (opi th' = S (opi th) /\
        (op_at th <> Some OStop \/ running s = false \/ stop2 (tpc th) = true \/ fill_pc (tpc th) = true))) /\
    (running s' = running s \/ (running s' = false /\ tpc th = EStopStore)) /\
    (stop2 (tpc th) = true -> stop2 (tpc th') = true \/ stop_returned s' = true) /\
    (tpc th = EStopStore -> stop2 (tpc th') = true /\ running s' = false) /\
    (stop_returned s = true -> stop_returned s' = true) /\
    (stop2 (tpc th') = true -> stop2 (tpc th) = true \/ tpc th = EStopStore).
Proof.
  intros c s t s' H. destr_step H; kill_gen; simp_st;
    rewrite ?stop_loop_eq; steal_cases; unfold after_sweep;
    repeat match goal with |- context [if ?b then _ else _] => destruct b eqn:? end;
    eexists; eexists; (split; [reflexivity|]; split; [reflexivity|]);
    unfold op_at; cbn [tpc trole prog opi goto next_op running];
    repeat match goal with H : tpc _ = _ |- _ => rewrite H end;
    repeat match goal with H : nth_error (prog _) (opi _) = Some _ |- _ => rewrite H end;
    rewrite ?stop2_dispatch, ?fill_pc_dispatch; cbn [stop2 fill_pc];
    repeat split; intros; try discriminate; auto;
    try (right; split; [reflexivity|]); auto 6;
    try (left; discriminate);
    try (right; left; discriminate).
  all: try (right; discriminate).
  all: right; left; destruct (running s); [discriminate|reflexivity].
Qed.
