(* No reachable deadlock of the pool model under the usage rules (property C07, liveness). *)
From Coq Require Import ZArith List Bool Arith Lia.
Require Import Verif.Base.Atomics Verif.Gen.Gen_executor Verif.Conc.Machine Verif.EX.EXModel Verif.EX.EXProofs Verif.EX.EXLive.
Import ListNotations.

Record OpsInv (c : config) (progs : list (list op)) (s : st) : Prop := {
  o_progs : map prog (threads s) = map prog (threads (init c progs));
  o_fill : forall t th, nth_error (threads s) t = Some th -> fill_pc (tpc th) = true -> op_at th <> Some OStop;
  o_run : forall t th, nth_error (threads s) t = Some th -> stop2 (tpc th) = true -> running s = false;
  o_stop : running s = false -> stop_returned s = true \/ exists t th, nth_error (threads s) t = Some th /\ stop2 (tpc th) = true;
  o_passed : forall t th j, nth_error (threads s) t = Some th -> j < opi th -> nth_error (prog th) j = Some OStop -> running s = false
}.

Lemma ex_ops : forall c progs s, Reach c progs s -> OpsInv c progs s.
Proof.
  intros c progs. apply (reach_ind c progs (OpsInv c progs)).
  - constructor.
    + reflexivity.
    + intros t th H Hp. apply nth_error_In, init_threads_in in H.
      destruct H as [[_ E]|[(w0 & _ & E)|[_ E]]]; rewrite E in Hp; discriminate.
    + intros t th H Hp. apply nth_error_In, init_threads_in in H.
      destruct H as [[_ E]|[(w0 & _ & E)|[_ E]]]; rewrite E in Hp; discriminate.
    + cbn. intros H. discriminate H.
    + intros t th j H Hj. apply nth_error_In in H. cbn in H. apply in_app_or in H. exfalso. destruct H as [H|H].
      * apply in_map_iff in H. destruct H as (p & <- & _). cbn in Hj. lia.
      * apply in_app_or in H. destruct H as [H|H].
        -- apply in_map_iff in H. destruct H as (w & <- & _). cbn in Hj. lia.
        -- destruct (has_balancer c); [|destruct H]. destruct H as [<-|[]]. cbn in Hj. lia.
  - intros s t s' _ IH Hs.
    destruct (step_ops _ _ _ _ Hs) as (th & th' & Hn & Ht & Hprog & Hfill & Hopi & Hrun & Hs2 & Hstore & Hret & Hs2b).
    assert (Hlt : t < length (threads s)) by (eapply nth_error_lt; eauto).
    assert (Hrmono : running s = false -> running s' = false) by (destruct Hrun as [->|[-> _]]; auto).
    constructor.
    + rewrite Ht, map_set_nth, Hprog, set_nth_same; [apply (o_progs _ _ _ IH)|]. now rewrite nth_error_map, Hn.
    + intros t0 th0 Hn0 Hf. rewrite Ht in Hn0. apply nth_error_set_nth in Hn0. destruct Hn0 as [[-> ->]|[_ Hn0]].
      * destruct (Hfill Hf) as [Ho [Hf0|Hne]]; unfold op_at in *; rewrite Hprog, Ho; auto. eapply (o_fill _ _ _ IH); eauto.
      * eapply (o_fill _ _ _ IH); eauto.
    + intros t0 th0 Hn0 Hp. rewrite Ht in Hn0. apply nth_error_set_nth in Hn0. destruct Hn0 as [[-> ->]|[_ Hn0]].
      * destruct (Hs2b Hp) as [X|X]; [apply Hrmono; eapply (o_run _ _ _ IH); eauto | apply (Hstore X)].
      * apply Hrmono. eapply (o_run _ _ _ IH); eauto.
    + intros Hr'. destruct Hrun as [E|[_ Hp]].
      * rewrite E in Hr'. destruct (o_stop _ _ _ IH Hr') as [X|(t1 & th1 & Hn1 & Hp1)]; [left; auto|].
        destruct (Nat.eq_dec t1 t) as [->|Hne].
        -- rewrite Hn in Hn1. injection Hn1 as <-. destruct (Hs2 Hp1) as [X|X]; auto.
           right. exists t, th'. rewrite Ht, nth_error_set_nth_eq; auto.
        -- right. exists t1, th1. rewrite Ht, nth_error_set_nth_neq; auto.
      * right. exists t, th'. rewrite Ht, nth_error_set_nth_eq; auto. split; auto. apply (Hstore Hp).
    + intros t0 th0 j Hn0 Hj Hop. rewrite Ht in Hn0. apply nth_error_set_nth in Hn0. destruct Hn0 as [[-> ->]|[_ Hn0]].
      * rewrite Hprog in Hop. destruct Hopi as [E|[E Hwhy]].
        -- apply Hrmono. eapply (o_passed _ _ _ IH); eauto. lia.
        -- destruct (Nat.eq_dec j (opi th)) as [->|Hne].
           ++ destruct Hwhy as [X|[X|[X|X]]].
              ** exfalso. apply X. exact Hop.
              ** auto.
              ** apply Hrmono. eapply (o_run _ _ _ IH); eauto.
              ** exfalso. eapply (o_fill _ _ _ IH); eauto.
           ++ apply Hrmono. eapply (o_passed _ _ _ IH); eauto. lia.
      * apply Hrmono. eapply (o_passed _ _ _ IH); eauto.
Qed.

(* ---- deciding whether anything can move, and why a thread cannot --------------------------- *)
Lemma step_oob : forall c s t, length (threads s) <= t -> step c s t = None.
Proof. intros c s t H. unfold step. apply nth_error_None in H. now rewrite H. Qed.
Lemma enabled_dec : forall c s, (exists t, step c s t <> None) \/ (forall t, step c s t = None).
Proof.
  intros c s.
  assert (H : forall n, (exists t, t < n /\ step c s t <> None) \/ (forall t, t < n -> step c s t = None)).
  { induction n as [|n [(t & Hlt & He)|IH]].
    - right. intros t Ht. lia.
    - left. exists t. split; auto.
    - destruct (step c s n) eqn:E.
      + left. exists n. split; [lia|congruence].
      + right. intros t Ht. destruct (Nat.eq_dec t n) as [->|]; auto. apply IH. lia. }
  destruct (H (length (threads s))) as [(t & _ & He)|Hn]; [left; eauto|].
  right. intros t. destruct (lt_dec t (length (threads s))); auto. apply step_oob. lia.
Qed.

Lemma blocked_cases : forall c s t th, nth_error (threads s) t = Some th -> role_pc_ok (trole th) (tpc th) = true ->
  (forall r cu it, tpc th <> WStealHeld r cu it) -> step c s t = None ->
  thread_done th = true \/
  (trole th = RExt /\ tpc th = EIdle /\ op_at th = Some OJoinExt /\ others_done s t = false) \/
  (exists p it, ticket_of (tpc th) = Some (p, it) /\ slot_released (gq s) (global_slots c) p = false) \/
  stop_pc (tpc th) = true \/ (exists q, tpc th = WPop q).
Proof.
  intros c s t th Hn R Hnh Hnone.
  destruct (always_enabled (tpc th)) eqn:A; [exfalso; eapply always_enabled_ok; eauto|].
  destruct (ticket_of (tpc th)) as [[p it]|] eqn:Tk.
  { right. right. left. exists p, it. split; auto. destruct (slot_released (gq s) (global_slots c) p) eqn:Rel; auto.
    exfalso. eapply holder_enabled; eauto. }
  destruct (stop_pc (tpc th)) eqn:Sp; [auto|].
  destruct (trole th) eqn:Er; destruct (tpc th) eqn:Ep; cbn in R, A, Tk, Sp; try discriminate; eauto 6;
    try (exfalso; eapply Hnh; reflexivity).
  - (* external thread between operations *)
    unfold step, step_ext, take_push in Hnone. rewrite Hn, Er, Ep in Hnone.
    destruct (nth_error (prog th) (opi th)) as [[id| | |]|] eqn:Eo; try discriminate.
    + destruct (stop_returns_early (b2z (running s))); discriminate.
    + right. left. unfold op_at. rewrite Eo. destruct (others_done s t) eqn:Eod; [discriminate|auto].
    + left. unfold thread_done. rewrite Er, Ep. apply Nat.leb_le. apply nth_error_None. auto.
  - left. unfold thread_done. now rewrite Er, Ep.
  - left. unfold thread_done. now rewrite Er, Ep.
Qed.

Lemma forallb_false_nth : forall A (P : A -> bool) l, forallb P l = false -> exists t x, nth_error l t = Some x /\ P x = false.
Proof.
  induction l as [|y l IH]; cbn; [discriminate|]. destruct (P y) eqn:E; cbn; intros H.
  - destruct (IH H) as (t & x & Ht & Hx). exists (S t), x. auto.
  - exists 0, y. auto.
Qed.
Lemma firstn_nth : forall A (l : list A) n k x, nth_error (firstn n l) k = Some x -> nth_error l k = Some x /\ k < n.
Proof.
  induction l as [|y l IH]; intros [|n] [|k] x H; cbn in *; try discriminate; [split; [auto|lia]|].
  destruct (IH _ _ _ H). split; [auto|lia].
Qed.
Lemma skipn_nth_err : forall A (l : list A) n k, nth_error (skipn n l) k = nth_error l (n + k).
Proof. induction l as [|y l IH]; intros [|n] k; cbn; auto. destruct k; reflexivity. Qed.
Lemma others_not_done : forall s t, others_done s t = false ->
  exists t2 th2, t2 <> t /\ nth_error (threads s) t2 = Some th2 /\ ext_done th2 = false.
Proof.
  intros s t H. unfold others_done in H. apply andb_false_iff in H. destruct H as [H|H].
  - destruct (forallb_false_nth _ _ _ H) as (k & x & Hk & Hx). exists k, x.
    destruct (firstn_nth _ _ _ _ _ Hk). split; [lia|]. auto.
  - destruct (forallb_false_nth _ _ _ H) as (k & x & Hk & Hx). exists (S t + k), x. split; [lia|]. split; auto.
    rewrite skipn_nth_err in Hk. auto.
Qed.

Lemma ext_prog : forall c progs s t th, OpsInv c progs s -> Layout c progs s -> nth_error (threads s) t = Some th ->
  trole th = RExt -> nth_error progs t = Some (prog th).
Proof.
  intros c progs s t th Ho Hlay Hn Hrole. pose proof (role_at _ _ _ _ _ Hlay Hn) as R. rewrite Hrole in R.
  pose proof (o_progs _ _ _ Ho) as Hp. apply (f_equal (fun l => nth_error l t)) in Hp. rewrite nth_error_map, Hn in Hp. cbn in Hp.
  cbn [init threads] in Hp. rewrite !map_app, nth_error_app1 in Hp by (rewrite !map_length; auto).
  rewrite map_map in Hp. cbn in Hp. rewrite map_id in Hp. auto.
Qed.

(* ---- the usage rules ---------------------------------------------------------------------------------------- *)
Definition one_joiner (progs : list (list op)) : Prop :=
  forall i j pi pj, nth_error progs i = Some pi -> nth_error progs j = Some pj -> In OJoinExt pi -> In OJoinExt pj -> i = j.
Definition some_stop (progs : list (list op)) : Prop := exists i p, nth_error progs i = Some p /\ In OStop p.
Definition usage (c : config) (progs : list (list op)) : Prop :=
  queue_cannot_fill c progs /\ one_joiner progs /\ some_stop progs.

Theorem ex_no_deadlock : forall c progs s, usage c progs -> Reach c progs s -> all_done s = false ->
  exists t, step c s t <> None.
Proof.
  intros c progs s (Hq & Hj & (is_ & ps & Hps & Hstop)) Hr Hnd.
  destruct (enabled_dec c s) as [He|Hnone]; auto. exfalso.
  pose proof (layout_reach _ _ _ Hr) as Hlay. pose proof (ex_role_pc _ _ _ Hr) as RC.
  pose proof (ex_no_push_blocked _ _ _ Hq Hr) as Hnb. pose proof (ex_ops _ _ _ Hr) as Ho.
  assert (Hnostop : forall t th, nth_error (threads s) t = Some th -> stop_pc (tpc th) = false).
  { intros t th Hn. destruct (stop_pc (tpc th)) eqn:E; auto. exfalso.
    destruct (ex_stop_progress _ _ _ Hq Hr) as (t1 & H1); eauto. }
  assert (Hcases : forall t th, nth_error (threads s) t = Some th ->
            thread_done th = true \/ (trole th = RExt /\ tpc th = EIdle /\ op_at th = Some OJoinExt /\ others_done s t = false) \/
            (exists q, tpc th = WPop q)).
  { intros t th Hn. destruct (blocked_cases _ _ _ _ Hn (RC _ _ Hn) (fun r cu it => ex_one_task_per_scan _ _ _ Hr _ _ r cu it Hn) (Hnone t)) as [X|[X|[(p & it & Tk & Rel)|[X|X]]]]; auto.
    - rewrite (Hnb _ _ _ _ Hn Tk) in Rel. discriminate.
    - rewrite (Hnostop _ _ Hn) in X. discriminate. }
  (* every external thread is done: two blocked joiners would be two joiner programs *)
  assert (Hext : forall t th, nth_error (threads s) t = Some th -> trole th = RExt -> thread_done th = true).
  { intros t th Hn Hrole. destruct (Hcases _ _ Hn) as [X|[(_ & Hp & Hop & Hod)|(q & Hp)]]; auto.
    - exfalso. destruct (others_not_done _ _ Hod) as (t2 & th2 & Hne & Hn2 & Hd2).
      unfold ext_done in Hd2. destruct (trole th2) eqn:Er2; try discriminate.
      destruct (Hcases _ _ Hn2) as [X|[(_ & Hp2 & Hop2 & _)|(q & Hp2)]]; [congruence| |].
      + apply Hne. symmetry. eapply (Hj t t2); eauto using ext_prog; unfold op_at in *; eapply nth_error_In; eauto.
      + pose proof (RC _ _ Hn2) as R2. rewrite Er2, Hp2 in R2. discriminate.
    - pose proof (RC _ _ Hn) as R. rewrite Hrole, Hp in R. discriminate. }
  (* the thread that owns the stop() has executed it: stop() has returned *)
  assert (Hret : stop_returned s = true).
  { apply In_nth_error in Hstop. destruct Hstop as (j & Hjop).
    assert (Hlen : is_ < length progs) by (eapply nth_error_lt; eauto).
    assert (Hth : exists th, nth_error (threads s) is_ = Some th /\ trole th = RExt).
    { destruct Hlay as (Hroles & _). assert (Hro : nth_error (roles c progs) is_ = Some RExt).
      { rewrite roles_eq, nth_error_app1 by (rewrite repeat_length; auto). apply nth_error_repeat. auto. }
      rewrite <- Hroles, nth_error_map in Hro. destruct (nth_error (threads s) is_) as [th|]; [|discriminate].
      cbn in Hro. injection Hro as Hro. eauto. }
    destruct Hth as (th & Hn & Hrole). pose proof (ext_prog _ _ _ _ _ Ho Hlay Hn Hrole) as Hp. rewrite Hps in Hp. injection Hp as ->.
    pose proof (Hext _ _ Hn Hrole) as Hd. unfold thread_done in Hd. rewrite Hrole in Hd.
    destruct (tpc th); try discriminate. apply Nat.leb_le in Hd.
    assert (Hrun : running s = false). { eapply (o_passed _ _ _ Ho _ _ j Hn); auto. apply nth_error_lt in Hjop. lia. }
    destruct (o_stop _ _ _ Ho Hrun) as [X|(t1 & th1 & Hn1 & Hp1)]; auto.
    exfalso. pose proof (Hnostop _ _ Hn1) as X. destruct (tpc th1); discriminate. }
  (* hence everything is done *)
  destruct (forallb_false_nth _ _ _ Hnd) as (t & th & Hn & Hd).
  destruct (trole th) eqn:Er.
  - rewrite (Hext _ _ Hn Er) in Hd. discriminate.
  - unfold thread_done in Hd. rewrite Er, (returned_worker_exit _ _ _ _ _ _ Hr Hret Hn Er) in Hd. discriminate.
  - destruct (ex_stop_returns_after_exit _ _ _ Hr Hret) as [_ Hb]. unfold thread_done in Hd. rewrite Er, (Hb _ _ Hn Er) in Hd. discriminate.
Qed.

(* non-vacuity of the usage rules *)
Definition live_cfg : config :=
  {| nworkers := 1; gcap := 2; lcap := 1; stealing := 0; interval := -1; bodies := [[1]; []]; blocks := [[0]] |}.
Definition live_progs : list (list op) := [[OSubmit 0; OStop]].
Lemma ex_usage_demo : usage live_cfg live_progs.
Proof.
  split; [split|split].
  - cbn. repeat constructor; cbn; intuition discriminate.
  - apply Nat.leb_le. vm_compute. reflexivity.
  - intros i j pi pj Hi Hj Hin _. destruct i as [|i]; [|destruct i; discriminate]. cbn in Hi. injection Hi as <-.
    cbn in Hin. exfalso. intuition discriminate.
  - exists 0, [OSubmit 0; OStop]. split; [reflexivity|]. cbn. auto.
Qed.
