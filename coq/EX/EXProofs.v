(* Proofs about EXModel (property C07).  Reach c progs s = s is reachable from the initial state of the
   configuration c and the client programs progs under SOME schedule. *)
From Coq Require Import ZArith List Bool Arith Lia.
Require Import Verif.Base.Atomics Verif.Gen.Gen_executor Verif.Conc.Machine Verif.EX.EXModel.
Import ListNotations.

Definition Reach (c : config) (progs : list (list op)) (s : st) : Prop := reachable st (step c) (init c progs) s.

(* ======================================================================================== *)
(* facts about the regenerated decision expressions (the only place their bodies are used)   *)
Lemma gen_stop_is_exit : stop_marker_type = worker_exits_on. Proof. reflexivity. Qed.
Lemma gen_wake_not_exit : wakeup_marker_type <> worker_exits_on. Proof. discriminate. Qed.
Lemma gen_fun_is_run : invoke_task_type = worker_runs_on. Proof. reflexivity. Qed.
Lemma gen_run_not_exit : worker_runs_on <> worker_exits_on. Proof. discriminate. Qed.
Lemma gen_push_more : forall i n, stop_push_more i n = (i <? n)%Z. Proof. reflexivity. Qed.
Lemma gen_first_marker : stop_first_marker = 0%Z. Proof. reflexivity. Qed.
Lemma gen_stop_early : stop_returns_early 1 = false /\ stop_returns_early 0 = true. Proof. split; reflexivity. Qed.
Lemma gen_balance_continues : balance_continues 1 = true /\ balance_continues 0 = false. Proof. split; reflexivity. Qed.
Lemma gen_local_first : worker_local_first 0 = true /\ worker_local_first 1 = false. Proof. split; reflexivity. Qed.
Lemma gen_pop_needed : global_pop_needed 0 = true /\ global_pop_needed 1 = false. Proof. split; reflexivity. Qed.
Lemma gen_local_room : forall sz l, local_enabled l && local_has_room sz l = true -> (sz < l)%Z.
Proof. intros sz l H. apply andb_prop in H. destruct H as [_ H]. unfold local_has_room in H. now apply Z.ltb_lt in H. Qed.
Lemma gen_refusal : execute_failed base_invoke_result = true /\ execute_failed enqueue_result = false /\
                    execute_failed enqueue_local_result = false.
Proof. repeat split; reflexivity. Qed.

Lemma gen_join_first : (stop_joins_balancer_first =? 1)%Z = true. Proof. reflexivity. Qed.
Lemma gen_stop_order : stop_clears_running_first = 1%Z /\ stop_markers_before_worker_join = 1%Z /\ stop_worker_wait = 1%Z.
Proof. repeat split; reflexivity. Qed.
Lemma early_join_eq : forall c, early_join c = has_balancer c.
Proof. intros c. unfold early_join. rewrite gen_join_first. apply andb_true_r. Qed.
Lemma late_join_false : forall c, late_join c = false.
Proof. intros c. unfold late_join. rewrite gen_join_first. apply andb_false_r. Qed.
Lemma stop_loop_eq : forall c i, stop_loop c i = if stop_push_more i (Z.of_nat (nworkers c)) then EStopPush i else EStopJoin 0.
Proof. intros c i. unfold stop_loop. now rewrite late_join_false. Qed.
Lemma gen_accepts : execute_failed enqueue_result = false /\ execute_failed enqueue_local_result = false.
Proof. split; reflexivity. Qed.

Arguments after_fail : simpl never.
Arguments scan_start : simpl never.
Arguments after_success : simpl never.
Arguments held_fail : simpl never.
Lemma gen_steal_guard : guard_on = true. Proof. reflexivity. Qed.
Lemma gen_steal_first : steal_stops_at_first 1 = true /\ steal_stops_at_first 0 = false. Proof. split; reflexivity. Qed.
Lemma advance_true : forall rest, advance rest true = None.
Proof. induction rest as [|b r IH]; cbn; auto. Qed.
Lemma no_steal_eq : no_steal = WTake. Proof. reflexivity. Qed.
Lemma after_success_eq : forall rest it, after_success rest it = dispatch it.
Proof. intros. unfold after_success. now rewrite advance_true. Qed.
Lemma after_fail_cases : forall rest cur, after_fail rest cur = WTake \/ exists r b, after_fail rest cur = WSteal r b.
Proof.
  intros rest cur. unfold after_fail. destruct cur; [|eauto]. destruct (advance rest false) as [[r b]|]; eauto.
Qed.
Lemma scan_start_cases : forall c, scan_start c = WTake \/ exists r b, scan_start c = WSteal r b.
Proof. intros c. unfold scan_start. destruct (advance (blocks c) false) as [[r b]|]; eauto. Qed.
Ltac steal_cases :=
  repeat match goal with
         | |- context [after_fail ?r ?l] =>
           let H := fresh "Haf" in let r0 := fresh "sr" in let b0 := fresh "sb" in destruct (after_fail_cases r l) as [H|(r0 & b0 & H)]; rewrite H in *; clear H
         | |- context [scan_start ?c] =>
           let H := fresh "Hsc" in let r0 := fresh "sr" in let b0 := fresh "sb" in destruct (scan_start_cases c) as [H|(r0 & b0 & H)]; rewrite H in *; clear H
         | H0 : context [after_fail ?r ?l] |- _ =>
           let H := fresh "Haf" in let r0 := fresh "sr" in let b0 := fresh "sb" in destruct (after_fail_cases r l) as [H|(r0 & b0 & H)]; rewrite H in *; clear H
         | H0 : context [scan_start ?c] |- _ =>
           let H := fresh "Hsc" in let r0 := fresh "sr" in let b0 := fresh "sb" in destruct (scan_start_cases c) as [H|(r0 & b0 & H)]; rewrite H in *; clear H
         end.

Definition orders_ok : bool :=
  match sites_start, sites_stop, sites_keep_balance, sites_newthread_invoke, sites_newthread_join with
  | [(KLoad, a1, _); (KStore, a2, _)], [(KLoad, b1, _); (KStore, b2, _)], [(KLoad, c1, _)],
    [(KFadd, d1, _); (KFsub, d2, _)], [(KLoad, e1, _)] =>
    has_acquire a1 && has_release a2 && has_acquire b1 && has_release b2 && has_acquire c1 &&
    has_release d1 && has_release d2 && has_acquire e1
  | _, _, _, _, _ => false
  end.
Lemma ex_orders_ok : orders_ok = true. Proof. vm_compute. reflexivity. Qed.

(* ======================================================================================== *)
(* lists                                                                                      *)
Lemma set_nth_length : forall A (l : list A) n x, length (set_nth n x l) = length l.
Proof. induction l as [|y l IH]; intros [|n] x; cbn; auto. Qed.
Lemma nth_error_set_nth_eq : forall A (l : list A) n x, n < length l -> nth_error (set_nth n x l) n = Some x.
Proof. induction l as [|y l IH]; intros [|n] x H; cbn in *; try lia; auto. apply IH. lia. Qed.
Lemma nth_error_set_nth_neq : forall A (l : list A) n m x, n <> m -> nth_error (set_nth n x l) m = nth_error l m.
Proof. induction l as [|y l IH]; intros [|n] [|m] x H; cbn; auto; try congruence. Qed.
Lemma nth_error_set_nth : forall A (l : list A) n m x y, nth_error (set_nth n x l) m = Some y ->
  (n = m /\ y = x) \/ (n <> m /\ nth_error l m = Some y).
Proof.
  intros A l n m x y H. destruct (Nat.eq_dec n m) as [->|Hne].
  - left. split; auto. assert (m < length l).
    { apply nth_error_Some_lt in H || (assert (nth_error (set_nth m x l) m <> None) by congruence). rewrite <- (set_nth_length _ l m x). apply nth_error_Some. congruence. }
    rewrite nth_error_set_nth_eq in H by auto. congruence.
  - right. split; auto. now rewrite nth_error_set_nth_neq in H.
Qed.
Lemma map_set_nth : forall A B (f : A -> B) l n x, map f (set_nth n x l) = set_nth n (f x) (map f l).
Proof. induction l as [|y l IH]; intros [|n] x; cbn; auto. now rewrite IH. Qed.
Lemma set_nth_same : forall A (l : list A) n y, nth_error l n = Some y -> set_nth n y l = l.
Proof. induction l as [|z l IH]; intros [|n] y H; cbn in *; try congruence. now rewrite IH. Qed.
Lemma nth_error_lt : forall A (l : list A) n y, nth_error l n = Some y -> n < length l.
Proof. intros. apply nth_error_Some. congruence. Qed.

Lemma In_ins : forall x y l, In x (ins y l) <-> x = y \/ In x l.
Proof.
  induction l as [|z l IH]; cbn; [intuition|]. destruct (y <=? z); cbn; [intuition|]. rewrite IH. intuition.
Qed.

(* ======================================================================================== *)
(* case analysis of one step                                                                  *)
Ltac destr_step H :=
  unfold step, step_ext, step_worker, step_bal, take_push, take_pop in H;
  repeat match type of H with
         | context [match ?x with _ => _ end] => let E := fresh "E" in destruct x eqn:E; try discriminate H
         end;
  try discriminate H; inversion H; subst; clear H; rewrite ?early_join_eq, ?after_success_eq in *;
  try match goal with Hg : guard_on = false |- _ => rewrite gen_steal_guard in Hg; discriminate Hg end.

(* every step changes exactly the stepping thread, keeps its role, the thread layout and the queue count *)
Lemma step_shape : forall c s t s', step c s t = Some s' ->
  exists th th', nth_error (threads s) t = Some th /\ threads s' = set_nth t th' (threads s) /\
                 trole th' = trole th /\ nex s' = nex s /\ length (lqs s') = length (lqs s).
Proof.
  intros c s t s' H. destr_step H; unfold stop_join_next, submit_done, note_refuse, note_accept;
    repeat match goal with
           | |- context [if ?b then _ else _] => destruct b
           | |- context [match ?b with _ => _ end] => destruct b
           end;
    (eexists; eexists; split; [first [reflexivity | eassumption]|]; cbn; rewrite ?set_nth_length; auto).
Qed.

(* ======================================================================================== *)
(* thread layout: roles never change                                                          *)
Definition roles (c : config) (progs : list (list op)) : list role := map trole (threads (init c progs)).
Definition Layout (c : config) (progs : list (list op)) (s : st) : Prop :=
  map trole (threads s) = roles c progs /\ nex s = length progs /\ length (lqs s) = nworkers c.

Lemma layout_reach : forall c progs s, Reach c progs s -> Layout c progs s.
Proof.
  intros c progs. apply inv_reachable.
  - repeat split; cbn. now rewrite repeat_length.
  - intros s t s' [H1 [H2 H3]] Hs. destruct (step_shape _ _ _ _ Hs) as (th & th' & Hn & Ht & Hr & Hx & Hl).
    repeat split; try congruence. rewrite Ht, map_set_nth, Hr, set_nth_same; auto.
    now rewrite nth_error_map, Hn.
Qed.

Lemma roles_eq : forall c progs, roles c progs =
  repeat RExt (length progs) ++ map RWorker (seq 0 (nworkers c)) ++ (if has_balancer c then [RBal] else []).
Proof.
  intros. unfold roles, init; cbn. rewrite !map_app, !map_map. cbn. f_equal; [|f_equal].
  - induction progs; cbn; congruence.
  - now destruct (has_balancer c).
Qed.

Lemma role_at : forall c progs s t th, Layout c progs s -> nth_error (threads s) t = Some th ->
  match trole th with
  | RExt => t < length progs
  | RWorker w => t = length progs + w /\ w < nworkers c
  | RBal => t = length progs + nworkers c /\ has_balancer c = true
  end.
Proof.
  intros c progs s t th [H _] Hn. assert (Hr : nth_error (roles c progs) t = Some (trole th)).
  { rewrite <- H, nth_error_map, Hn. reflexivity. }
  rewrite roles_eq in Hr. destruct (lt_dec t (length progs)) as [Hlt|Hge].
  - rewrite nth_error_app1 in Hr by now rewrite repeat_length.
    apply nth_error_In, repeat_spec in Hr. now rewrite Hr.
  - rewrite nth_error_app2 in Hr by (rewrite repeat_length; lia). rewrite repeat_length in Hr.
    destruct (lt_dec (t - length progs) (nworkers c)) as [Hlt2|Hge2].
    + rewrite nth_error_app1 in Hr by now rewrite map_length, seq_length.
      rewrite nth_error_map in Hr. destruct (nth_error (seq 0 (nworkers c)) (t - length progs)) eqn:E; [|discriminate].
      cbn in Hr. injection Hr as <-. apply nth_error_nth with (d := 0) in E. rewrite seq_nth in E by auto. lia.
    + rewrite nth_error_app2 in Hr by (rewrite map_length, seq_length; lia). rewrite map_length, seq_length in Hr.
      destruct (has_balancer c); [|destruct (t - length progs - nworkers c); discriminate].
      destruct (t - length progs - nworkers c) as [|k] eqn:E; cbn in Hr; [|destruct k; discriminate].
      injection Hr as <-. split; auto. lia.
Qed.

(* ======================================================================================== *)
(* tasks start only on worker threads (inside the RunnerScope opened by keep_execute)          *)
Lemma step_started : forall c s t s', step c s t = Some s' ->
  started s' = started s \/
  exists th id w, nth_error (threads s) t = Some th /\ trole th = RWorker w /\ tpc th = WBegin id /\
                  started s' = started s ++ [(id, w)].
Proof.
  intros c s t s' H. destr_step H; unfold stop_join_next, submit_done, note_refuse, note_accept;
    repeat match goal with
           | |- context [if ?b then _ else _] => destruct b
           | |- context [match ?b with _ => _ end] => destruct b
           end; cbn; auto.
  right. eauto 8.
Qed.

(* induction over reachable states with reachability of the predecessor available *)
Lemma reach_ind : forall c progs (P : st -> Prop), P (init c progs) ->
  (forall s t s', Reach c progs s -> P s -> step c s t = Some s' -> P s') ->
  forall s, Reach c progs s -> P s.
Proof.
  intros c progs P H0 Hstep s Hr.
  enough (Reach c progs s /\ P s) by tauto. revert s Hr. apply inv_reachable.
  - split; [exists []; reflexivity | exact H0].
  - intros s t s' [Hr Hp] Hs. split; [eapply reachable_step; eauto | eauto].
Qed.

Lemma ex_started_on_worker : forall c progs s id w, Reach c progs s -> In (id, w) (started s) -> w < nworkers c.
Proof.
  intros c progs s id w Hr. revert id w. pattern s. revert s Hr. apply reach_ind.
  - intros ? ? [].
  - intros s t s' Hr IH Hs.
    destruct (step_started _ _ _ _ Hs) as [->|(th & id0 & w0 & Hn & Hrole & _ & ->)]; auto.
    intros id w Hin. apply in_app_or in Hin. destruct Hin as [Hin|[Heq|[]]]; eauto.
    injection Heq as <- <-. pose proof (role_at _ _ _ _ _ (layout_reach _ _ _ Hr) Hn) as R. rewrite Hrole in R. tauto.
Qed.

(* ======================================================================================== *)
(* projections of the ghost updates                                                           *)
Lemma na_threads : forall s it b, threads (note_accept s it b) = threads s. Proof. intros s [|] b; reflexivity. Qed.
Lemma na_gq : forall s it b, gq (note_accept s it b) = gq s. Proof. intros s [|] b; reflexivity. Qed.
Lemma na_lqs : forall s it b, lqs (note_accept s it b) = lqs s. Proof. intros s [|] b; reflexivity. Qed.
Lemma na_nex : forall s it b, nex (note_accept s it b) = nex s. Proof. intros s [|] b; reflexivity. Qed.
Lemma na_running : forall s it b, running (note_accept s it b) = running s. Proof. intros s [|] b; reflexivity. Qed.
Lemma na_started : forall s it b, started (note_accept s it b) = started s. Proof. intros s [|] b; reflexivity. Qed.
Lemma na_finished : forall s it b, finished (note_accept s it b) = finished s. Proof. intros s [|] b; reflexivity. Qed.
Lemma na_stop_called : forall s it b, stop_called (note_accept s it b) = stop_called s. Proof. intros s [|] b; reflexivity. Qed.
Lemma na_stop_returned : forall s it b, stop_returned (note_accept s it b) = stop_returned s. Proof. intros s [|] b; reflexivity. Qed.

Ltac simp_st :=
  unfold stop_join_next, submit_done in *; rewrite ?(proj1 gen_accepts), ?(proj2 gen_accepts) in *;
  repeat match goal with
         | |- context [if ?b then set_thread _ _ _ else _] => destruct b eqn:?
         | H : context [if ?b then set_thread _ _ _ else _] |- _ => destruct b eqn:?
         end;
  cbn [threads gq lqs running nex started finished accepted acc_before acc_local stop_called stop_returned log_at_stop
       set_thread set_gq set_lq set_running note_start note_finish note_stop_called note_stop_returned
       trole tpc prog opi goto next_op] in *;
  rewrite ?na_threads, ?na_gq, ?na_lqs, ?na_nex, ?na_running, ?na_started, ?na_finished, ?na_stop_called,
          ?na_stop_returned in *;
  cbn [threads gq lqs running nex started finished accepted acc_before acc_local stop_called stop_returned log_at_stop
       set_thread set_gq set_lq set_running note_start note_finish note_stop_called note_stop_returned
       trole tpc prog opi goto next_op] in *.

(* a thread of the successor state is the stepping thread with its new pc, or an untouched one *)
Ltac split_thread Hn :=
  apply nth_error_set_nth in Hn; destruct Hn as [[? ?]|[? Hn]]; subst.

Definition stop_pc (p : pc) : bool :=
  match p with EStopStore | EStopJoinBal | EStopJoinBalLate | EStopPush _ | EStopFill _ _ | EStopJoin _ => true | _ => false end.
Definition phase1 (p : pc) : bool := match p with EStopPush _ | EStopFill _ _ | EStopJoin _ | EStopJoinBalLate => true | _ => false end.
Definition role_pc_ok (r : role) (p : pc) : bool :=
  match r, p with
  | RExt, (EIdle | EFill _ _ | EStopStore | EStopJoinBal | EStopJoinBalLate | EStopPush _ | EStopFill _ _ | EStopJoin _) => true
  | RWorker _, (WLoop | WSteal _ _ | WStealHeld _ _ _ | WTake | WPop _ | WBegin _ | WRun _ _ | WGTake _ _ _ | WFill _ _ _ _ | WExit) => true
  | RBal, (BCheck | BSweep _ | BTake _ _ | BFill _ _ _ | BExit) => true
  | _, _ => false
  end.

Lemma dispatch_worker_pc : forall w it, role_pc_ok (RWorker w) (dispatch it) = true.
Proof. intros w it. unfold dispatch. destruct (item_code it =? worker_runs_on)%Z; [destruct it; reflexivity|]. destruct (_ =? _)%Z; reflexivity. Qed.

Lemma init_threads_in : forall c progs th, In th (threads (init c progs)) ->
  (trole th = RExt /\ tpc th = EIdle) \/ (exists w, trole th = RWorker w /\ tpc th = WLoop) \/ (trole th = RBal /\ tpc th = BCheck).
Proof.
  intros c progs th H. cbn in H. apply in_app_or in H. destruct H as [H|H].
  - apply in_map_iff in H. destruct H as (p & <- & _). auto.
  - apply in_app_or in H. destruct H as [H|H].
    + apply in_map_iff in H. destruct H as (w & <- & _). right. left. exists w. split; reflexivity.
    + destruct (has_balancer c); [|destruct H]. destruct H as [<-|[]]. auto.
Qed.

Lemma ex_role_pc : forall c progs s, Reach c progs s ->
  forall t th, nth_error (threads s) t = Some th -> role_pc_ok (trole th) (tpc th) = true.
Proof.
  intros c progs. apply (reach_ind c progs (fun s => forall t th, nth_error (threads s) t = Some th -> role_pc_ok (trole th) (tpc th) = true)).
  - intros t th H. apply nth_error_In, init_threads_in in H. destruct H as [[-> ->]|[(w & -> & ->)|[-> ->]]]; reflexivity.
  - intros s t s' _ IH Hs t0 th0 Hn. destr_step Hs; simp_st; split_thread Hn; eauto; cbn;
      repeat match goal with H : trole _ = _ |- _ => rewrite H end; auto using dispatch_worker_pc;
      rewrite ?stop_loop_eq; steal_cases; unfold after_sweep;
      repeat match goal with |- context [if ?b then _ else _] => destruct b end; auto.
Qed.

(* ======================================================================================== *)
(* items recorded in the slots never change; STOP markers                                     *)
Definition slot_item (x : slot) : item := match x with SPend it | SFull it | SDone it => it end.
Definition items (q : queue) : list item := map slot_item (slots q).
Definition is_stop (it : item) : bool := (item_code it =? worker_exits_on)%Z.
Definition nostop (q : queue) : bool := forallb (fun it => negb (is_stop it)) (items q).

Lemma items_fill : forall q p, items (fill q p) = items q.
Proof.
  intros q p. unfold items, fill; cbn. destruct (nth_error (slots q) p) as [[it|it|it]|] eqn:E; auto.
  rewrite map_set_nth. apply set_nth_same. rewrite nth_error_map, E. reflexivity.
Qed.
Lemma items_pop_ready : forall q k it q', pop_ready q k = Some (it, q') -> items q' = items q /\ npop q' = npop q.
Proof.
  intros q k it q' H. unfold pop_ready in H. destruct (nth_error (slots q) k) as [[x|x|x]|] eqn:E; try discriminate.
  injection H as <- <-. split; auto. unfold items; cbn. rewrite map_set_nth. apply set_nth_same. rewrite nth_error_map, E. reflexivity.
Qed.
Lemma nostop_app : forall q it, nostop {| slots := slots q ++ [SPend it]; npop := npop q |} = nostop q && negb (is_stop it).
Proof. intros. unfold nostop, items; cbn. rewrite map_app, forallb_app. cbn. now rewrite andb_true_r. Qed.
Lemma nostop_npop : forall q n, nostop {| slots := slots q; npop := n |} = nostop q.
Proof. reflexivity. Qed.
Lemma nostop_fill : forall q p, nostop (fill q p) = nostop q.
Proof. intros. unfold nostop. now rewrite items_fill. Qed.
Lemma nostop_pop_ready : forall q k it q', pop_ready q k = Some (it, q') -> nostop q' = nostop q.
Proof. intros q k it q' H. unfold nostop. apply items_pop_ready in H. now rewrite (proj1 H). Qed.
Lemma fun_not_stop : forall id, is_stop (IFun id) = false. Proof. reflexivity. Qed.
Lemma wake_not_stop : is_stop (IMark wakeup_marker_type) = false. Proof. reflexivity. Qed.
Lemma marker_is_stop : is_stop (IMark stop_marker_type) = true. Proof. reflexivity. Qed.


(* ======================================================================================== *)
(* stop(): a thread inside stop() has set stop_called                                         *)
Lemma stop_pc_dispatch : forall it, stop_pc (dispatch it) = false.
Proof. intros it. unfold dispatch. destruct (_ =? _)%Z; [destruct it; reflexivity|]. destruct (_ =? _)%Z; reflexivity. Qed.

Ltac by_old IH := eapply IH; [eassumption | match goal with H : tpc _ = _ |- _ => rewrite H; reflexivity end].

Lemma ex_stop_called : forall c progs s, Reach c progs s ->
  (forall t th, nth_error (threads s) t = Some th -> stop_pc (tpc th) = true -> stop_called s = true) /\
  (stop_returned s = true -> stop_called s = true).
Proof.
  intros c progs. apply (reach_ind c progs (fun s =>
    (forall t th, nth_error (threads s) t = Some th -> stop_pc (tpc th) = true -> stop_called s = true) /\
    (stop_returned s = true -> stop_called s = true))).
  - split; [|discriminate]. intros t th H Hp. apply nth_error_In, init_threads_in in H.
    destruct H as [[_ E]|[(w & _ & E)|[_ E]]]; rewrite E in Hp; discriminate.
  - intros s t s' _ [IH1 IH2] Hs.
    destr_step Hs; simp_st; (split; [intros tx thx Hn Hp; split_thread Hn; eauto; cbn in Hp; rewrite ?stop_pc_dispatch in Hp;
      steal_cases; unfold after_sweep in *; repeat match type of Hp with context [if ?b then _ else _] => destruct b end;
      try discriminate; try reflexivity; by_old IH1 | ]);
      try (intros Hret; first [reflexivity | now auto | by_old IH1]).
Qed.



(* ======================================================================================== *)
(* one case analysis of `step` for the facts the stop()-sequencing invariants need            *)
Lemma phase1_dispatch : forall it, phase1 (dispatch it) = false.
Proof. intros it. unfold dispatch. destruct (_ =? _)%Z; [destruct it; reflexivity|]. destruct (_ =? _)%Z; reflexivity. Qed.
Lemma dispatch_not_join : forall it k, dispatch it <> EStopJoin k.
Proof. intros it k. unfold dispatch. destruct (_ =? _)%Z; [destruct it; discriminate|]. destruct (_ =? _)%Z; discriminate. Qed.

Definition markers_begun (s : st) : Prop :=
  stop_returned s = true \/ exists t th, nth_error (threads s) t = Some th /\ phase1 (tpc th) = true.

Lemma step_facts : forall c s t s', step c s t = Some s' ->
  exists th th', nth_error (threads s) t = Some th /\ threads s' = set_nth t th' (threads s) /\ trole th' = trole th /\
    nex s' = nex s /\
    (stop_returned s = true -> stop_returned s' = true) /\
    (stop_returned s' = true -> stop_returned s = true \/ phase1 (tpc th) = true) /\
    (phase1 (tpc th) = true -> phase1 (tpc th') = true \/ stop_returned s' = true) /\
    (phase1 (tpc th') = true -> phase1 (tpc th) = true \/ (has_balancer c = false /\ trole th = RExt) \/
                                (pc_of s (bal_tid c s) = Some BExit /\ trole th = RExt)) /\
    tpc th <> BExit /\ tpc th <> WExit /\
    (nostop (gq s) = true -> nostop (gq s') = true \/ phase1 (tpc th') = true \/
                             exists k it, tpc th = BTake k it /\ is_stop it = true) /\
    (lqs s' = lqs s \/ (exists k it q', try_pop (lq_of s k) = Some (it, q') /\ lqs s' = set_nth k q' (lqs s)) \/
                       (exists w id, lqs s' = set_nth w (local_push (lq_of s w) (IFun id)) (lqs s))) /\
    (forall k it, tpc th' = BTake k it -> exists q', try_pop (lq_of s k) = Some (it, q')) /\
    (forall k p it, tpc th' = BFill k p it -> tpc th = BTake k it) /\
    (forall k', tpc th' = EStopJoin k' -> k' = 0 \/ exists k, k' = S k /\ tpc th = EStopJoin k /\ pc_of s (worker_tid s k) = Some WExit) /\
    (stop_returned s' = true -> stop_returned s = true \/ nworkers c = 0 \/
        exists k, tpc th = EStopJoin k /\ pc_of s (worker_tid s k) = Some WExit /\ nworkers c <= S k).
Proof.
  intros c s t s' H. destr_step H; simp_st;
    (eexists; eexists; split; [first [reflexivity | eassumption]|]; split; [reflexivity|]; split; [reflexivity|]; split; [reflexivity|]);
    cbn [tpc trole goto next_op];
    repeat match goal with H : tpc _ = _ |- _ => rewrite H end;
    rewrite ?phase1_dispatch, ?nostop_app, ?nostop_fill, ?fun_not_stop, ?wake_not_stop, ?andb_true_r;
    rewrite ?stop_loop_eq; steal_cases; unfold after_sweep;
    repeat match goal with |- context [if ?b then _ else _] => destruct b eqn:? end;
    cbn [phase1];
    repeat split; try discriminate; try (intros; discriminate); auto; try tauto.
  all: try (intros k' Hk; injection Hk as <-; auto; fail).
  all: try (intros k' Hk; injection Hk as <-; right; eexists; repeat split; eauto; fail).
  all: try (intros k' Hk; exfalso; eapply dispatch_not_join; eauto; fail).
  all: try (intros _; right; left; now apply Nat.eqb_eq).
  all: try (intros _; right; right; eexists; repeat split; eauto; now apply Nat.ltb_ge).
  all: try (intros Hn; left; erewrite nostop_pop_ready; eauto; fail).
  all: try (intros Hn; rewrite Hn; cbn; destruct (is_stop _) eqn:Es; cbn; eauto 6; fail).
  all: try (intros ? ? Hk; inversion Hk; subst; eauto; fail).
  all: try (intros ? ? ? Hk; inversion Hk; subst; eauto; fail).
  all: try (right; left; eauto 6; fail).
  all: try (right; right; eauto 6; fail).
  all: try (intros ? ? Hk; match type of Hk with dispatch ?i = _ => pose proof (dispatch_worker_pc 0 i) as X; rewrite Hk in X; discriminate end).
  all: try (intros ? ? ? Hk; match type of Hk with dispatch ?i = _ => pose proof (dispatch_worker_pc 0 i) as X; rewrite Hk in X; discriminate end).
Qed.


(* ======================================================================================== *)
(* local queues only ever hold FUNCTION tasks, so does the balance thread                     *)
Definition fun_item (it : item) : Prop := exists id, it = IFun id.
Definition lq_funs (q : queue) : Prop := forall x, In x (slots q) -> fun_item (slot_item x).

Lemma In_set_nth : forall A (l : list A) n x y, In y (set_nth n x l) -> y = x \/ In y l.
Proof. induction l as [|z l IH]; intros [|n] x y H; cbn in *; auto; destruct H; auto. apply IH in H. tauto. Qed.
Lemma Forall_set_nth : forall A (P : A -> Prop) l n x, Forall P l -> P x -> Forall P (set_nth n x l).
Proof. induction l as [|z l IH]; intros [|n] x Hl Hx; cbn; auto; inversion Hl; subst; constructor; auto. Qed.
Lemma lq_of_funs : forall s k, Forall lq_funs (lqs s) -> lq_funs (lq_of s k).
Proof.
  intros s k H. unfold lq_of. destruct (nth_in_or_default k (lqs s) empty_queue) as [Hin|Heq].
  - rewrite Forall_forall in H. auto.
  - rewrite Heq. intros x [].
Qed.
Lemma try_pop_funs : forall q it q', try_pop q = Some (it, q') -> lq_funs q -> fun_item it /\ lq_funs q'.
Proof.
  intros q it q' H Hq. unfold try_pop in H. destruct (nth_error (slots q) (npop q)) as [[x|x|x]|] eqn:E; try discriminate.
  injection H as <- <-. pose proof (Hq _ (nth_error_In _ _ E)) as Hx. split; auto.
  intros y Hy. cbn in Hy. apply In_set_nth in Hy. destruct Hy as [->|Hy]; auto.
Qed.
Lemma local_push_funs : forall q id, lq_funs q -> lq_funs (local_push q (IFun id)).
Proof. intros q id Hq x Hx. cbn in Hx. apply in_app_or in Hx. destruct Hx as [Hx|[<-|[]]]; auto. exists id. reflexivity. Qed.

Lemma ex_local_funs : forall c progs s, Reach c progs s ->
  Forall lq_funs (lqs s) /\
  (forall t th k it, nth_error (threads s) t = Some th -> tpc th = BTake k it -> fun_item it).
Proof.
  intros c progs. apply (reach_ind c progs (fun s => Forall lq_funs (lqs s) /\
    (forall t th k it, nth_error (threads s) t = Some th -> tpc th = BTake k it -> fun_item it))).
  - split.
    + cbn. apply Forall_forall. intros q Hq. apply repeat_spec in Hq. subst. intros x [].
    + intros t th k it H Hp. apply nth_error_In, init_threads_in in H.
      destruct H as [[_ E]|[(w & _ & E)|[_ E]]]; rewrite E in Hp; discriminate.
  - intros s t s' _ [IH1 IH2] Hs.
    destruct (step_facts _ _ _ _ Hs) as (th & th' & Hn & Ht & _ & _ & _ & _ & _ & _ & _ & _ & _ & Hl & Hbt & _).
    split.
    + destruct Hl as [->|[(k & it & q' & Hp & ->)|(w & id & ->)]]; auto.
      * apply Forall_set_nth; auto. eapply try_pop_funs; eauto using lq_of_funs.
      * apply Forall_set_nth; auto. apply local_push_funs. auto using lq_of_funs.
    + intros t0 th0 k it Hn0 Hp. rewrite Ht in Hn0. apply nth_error_set_nth in Hn0. destruct Hn0 as [[-> ->]|[_ Hn0]]; eauto.
      destruct (Hbt _ _ Hp) as (q' & Hq'). eapply try_pop_funs; eauto using lq_of_funs.
Qed.

(* ======================================================================================== *)
(* once a marker may have been pushed the balance thread has exited                           *)
Lemma ex_bal_exited : forall c progs s, Reach c progs s -> markers_begun s ->
  forall t th, nth_error (threads s) t = Some th -> trole th = RBal -> tpc th = BExit.
Proof.
  intros c progs. apply (reach_ind c progs (fun s => markers_begun s ->
    forall t th, nth_error (threads s) t = Some th -> trole th = RBal -> tpc th = BExit)).
  - intros [H|(t & th & H & Hp)]; [discriminate|]. apply nth_error_In, init_threads_in in H.
    destruct H as [[_ E]|[(w & _ & E)|[_ E]]]; rewrite E in Hp; discriminate.
  - intros s t s' Hr IH Hs Hb tb thb Hnb Hrb. pose proof (layout_reach _ _ _ Hr) as Hlay.
    destruct (step_facts _ _ _ _ Hs) as (th & th' & Hn & Ht & Hrole & Hnex & _ & Hret & _ & Hph & Hnb1 & _).
    rewrite Ht in Hnb.
    assert (Hcases : markers_begun s \/ (has_balancer c = false /\ trole th = RExt) \/
                     (pc_of s (bal_tid c s) = Some BExit /\ trole th = RExt)).
    { destruct Hb as [Hb|(t1 & th1 & Hn1 & Hp1)].
      - destruct (Hret Hb) as [X|X]; [left; left; exact X | left; right; eauto].
      - rewrite Ht in Hn1. apply nth_error_set_nth in Hn1. destruct Hn1 as [[-> ->]|[_ Hn1]]; [|left; right; eauto].
        destruct (Hph Hp1) as [X|[X|X]]; [left; right; eauto | right; left; exact X | right; right; exact X]. }
    apply nth_error_set_nth in Hnb. destruct Hnb as [[-> ->]|[Hne Hnb]].
    + (* the stepping thread is the balance thread *)
      rewrite Hrole in Hrb. destruct Hcases as [Hold|[[_ X]|[_ X]]]; try congruence.
      exfalso. apply Hnb1. eapply IH; eauto.
    + destruct Hcases as [Hold|[[X _]|[X _]]]; [eapply IH; eauto| |].
      * pose proof (role_at _ _ _ _ _ Hlay Hnb) as R. rewrite Hrb in R. destruct R; congruence.
      * pose proof (role_at _ _ _ _ _ Hlay Hnb) as R. rewrite Hrb in R. destruct R as [-> _].
        unfold pc_of, bal_tid in X. destruct Hlay as (_ & Hnx & _). rewrite Hnx, Hnb in X. cbn in X. congruence.
Qed.

(* no STOP marker is in the global queue before the marker loop of stop() has begun *)
Lemma ex_nostop : forall c progs s, Reach c progs s -> nostop (gq s) = true \/ markers_begun s.
Proof.
  intros c progs. apply (reach_ind c progs (fun s => nostop (gq s) = true \/ markers_begun s)).
  - left. reflexivity.
  - intros s t s' Hr IH Hs.
    destruct (step_facts _ _ _ _ Hs) as (th & th' & Hn & Ht & Hrole & Hnex & Hmono & _ & Hph & _ & _ & _ & Hns & _).
    assert (Hlen : t < length (threads s)) by (eapply nth_error_lt; eauto).
    destruct IH as [IH|[IH|(t1 & th1 & Hn1 & Hp1)]].
    + destruct (Hns IH) as [X|[X|(k & it & Hp & Hst)]]; auto.
      * right. right. exists t, th'. rewrite Ht, nth_error_set_nth_eq; auto.
      * exfalso. destruct (ex_local_funs _ _ _ Hr) as [_ Hb]. destruct (Hb _ _ _ _ Hn Hp) as (id & ->). discriminate.
    + right. left. auto.
    + right. destruct (Nat.eq_dec t t1) as [<-|Hne].
      * rewrite Hn in Hn1. injection Hn1 as <-. destruct (Hph Hp1) as [X|X]; [right|left; exact X].
        exists t, th'. rewrite Ht, nth_error_set_nth_eq; auto.
      * right. exists t1, th1. rewrite Ht, nth_error_set_nth_neq; auto.
Qed.

(* a task accepted before stop() was called is ahead of every STOP marker: none exists yet *)
Lemma ex_nostop_before_stop : forall c progs s, Reach c progs s -> stop_called s = false -> nostop (gq s) = true.
Proof.
  intros c progs s Hr Hc. destruct (ex_stop_called _ _ _ Hr) as [H1 H2].
  destruct (ex_nostop _ _ _ Hr) as [X|[X|(t & th & Hn & Hp)]]; auto.
  - rewrite H2 in Hc; auto. discriminate.
  - rewrite (H1 t th Hn) in Hc; [discriminate|]. destruct (tpc th); try discriminate; reflexivity.
Qed.

(* while the balance thread is alive no STOP marker has been pushed: what it moves stays ahead of all of them *)
Lemma ex_nostop_while_balancing : forall c progs s t th, Reach c progs s ->
  nth_error (threads s) t = Some th -> trole th = RBal -> tpc th <> BExit -> nostop (gq s) = true.
Proof.
  intros c progs s t th Hr Hn Hrole Hpc. destruct (ex_nostop _ _ _ Hr) as [X|X]; auto.
  exfalso. apply Hpc. eapply ex_bal_exited; eauto.
Qed.

(* ======================================================================================== *)
(* stop() joins every worker: when it returns all workers have exited                         *)
Definition worker_exited (s : st) (j : nat) : Prop := pc_of s (worker_tid s j) = Some WExit.

Lemma exited_step : forall c s t s' j, step c s t = Some s' -> worker_exited s j -> worker_exited s' j.
Proof.
  intros c s t s' j Hs He. destruct (step_facts _ _ _ _ Hs) as (th & th' & Hn & Ht & _ & Hnex & _ & _ & _ & _ & _ & Hw & _).
  unfold worker_exited, pc_of, worker_tid in *. rewrite Hnex, Ht.
  destruct (Nat.eq_dec t (nex s + j)) as [->|Hne]; [|now rewrite nth_error_set_nth_neq].
  rewrite Hn in He. cbn in He. congruence.
Qed.

Lemma ex_joined : forall c progs s, Reach c progs s ->
  (forall t th k, nth_error (threads s) t = Some th -> tpc th = EStopJoin k -> forall j, j < k -> worker_exited s j) /\
  (stop_returned s = true -> forall j, j < nworkers c -> worker_exited s j).
Proof.
  intros c progs. apply (reach_ind c progs (fun s =>
    (forall t th k, nth_error (threads s) t = Some th -> tpc th = EStopJoin k -> forall j, j < k -> worker_exited s j) /\
    (stop_returned s = true -> forall j, j < nworkers c -> worker_exited s j))).
  - split; [|discriminate]. intros t th k H Hp. apply nth_error_In, init_threads_in in H.
    destruct H as [[_ E]|[(w & _ & E)|[_ E]]]; rewrite E in Hp; discriminate.
  - intros s t s' Hr [IH1 IH2] Hs.
    destruct (step_facts _ _ _ _ Hs) as (th & th' & Hn & Ht & _ & Hnex & _ & _ & _ & _ & _ & _ & _ & _ & _ & _ & Hj & Hret).
    split.
    + intros t0 th0 k Hn0 Hp j Hlt. rewrite Ht in Hn0. apply nth_error_set_nth in Hn0. destruct Hn0 as [[-> ->]|[_ Hn0]].
      * destruct (Hj _ Hp) as [->|(k0 & -> & Hp0 & Hex)]; [lia|].
        eapply exited_step; eauto. destruct (Nat.eq_dec j k0) as [->|]; [exact Hex|]. eapply IH1; eauto. lia.
      * eapply exited_step; eauto.
    + intros Hr' j Hlt. eapply exited_step; eauto. destruct (Hret Hr') as [X|[X|(k & Hp & Hex & Hle)]]; auto; [lia|].
      destruct (Nat.eq_dec j k) as [->|]; [exact Hex|]. eapply IH1; eauto. lia.
Qed.


(* ======================================================================================== *)
(* second case analysis of `step`: what happens to the global queue                           *)
Definition quiet (p : pc) : bool := match p with WSteal _ _ | WTake | WPop _ | WExit => true | _ => false end.
Lemma dispatch_fun : forall id, dispatch (IFun id) = WBegin id. Proof. reflexivity. Qed.
Lemma dispatch_exit : forall it, dispatch it = WExit -> is_stop it = true.
Proof.
  intros it H. unfold dispatch in H. destruct (item_code it =? worker_runs_on)%Z; [destruct it; discriminate|].
  unfold is_stop. destruct (item_code it =? worker_exits_on)%Z; auto. discriminate.
Qed.
Lemma dispatch_not_pop : forall it q, dispatch it <> WPop q.
Proof. intros it q. unfold dispatch. destruct (_ =? _)%Z; [destruct it; discriminate|]. destruct (_ =? _)%Z; discriminate. Qed.
Lemma dispatch_cases : forall it, (exists id, it = IFun id /\ dispatch it = WBegin id) \/ dispatch it = WLoop \/ dispatch it = WExit.
Proof. intros it. unfold dispatch. destruct (_ =? _)%Z; [destruct it; eauto|]. destruct (_ =? _)%Z; auto. Qed.

Definition app_slot (q : queue) (it : item) : queue := {| slots := slots q ++ [SPend it]; npop := npop q |}.
Definition bump_pop (q : queue) : queue := {| slots := slots q; npop := S (npop q) |}.
Inductive gop := GSame | GApp (it : item) | GFill (p : nat) | GTake | GPop (q : nat) (it : item).
Definition gq_rel (g g' : queue) (o : gop) : Prop :=
  match o with
  | GSame => g' = g
  | GApp it => g' = app_slot g it
  | GFill p => g' = fill g p
  | GTake => g' = bump_pop g
  | GPop q it => pop_ready g q = Some (it, g')
  end.

Ltac kill_gen :=
  try (rewrite (proj2 gen_local_first) in *; discriminate); try (rewrite (proj2 gen_pop_needed) in *; discriminate).
Ltac clean_hyps :=
  rewrite ?stop_loop_eq in *; steal_cases; unfold after_sweep in *;
  repeat match goal with H : context [if ?b then _ else _] |- _ => destruct b eqn:? end;
  try discriminate;
  repeat match goal with
         | H : dispatch _ = WPop _ |- _ => exfalso; exact (dispatch_not_pop _ _ H)
         | H : WPop _ = dispatch _ |- _ => exfalso; symmetry in H; exact (dispatch_not_pop _ _ H)
         | H : WPop _ = WPop _ |- _ => injection H as ?; subst
         | H : GPop _ _ = GPop _ _ |- _ => injection H as ? ?; subst
         | H : GApp _ = GApp _ |- _ => injection H as ?; subst
         | H : GFill _ = GFill _ |- _ => injection H as ?; subst
         end.

Lemma step_gq : forall c s t s', step c s t = Some s' ->
  exists th th' o, nth_error (threads s) t = Some th /\ threads s' = set_nth t th' (threads s) /\
    gq_rel (gq s) (gq s') o /\
    (forall q, tpc th' = WPop q -> o = GTake /\ q = npop (gq s)) /\
    (forall q, tpc th = WPop q -> exists it, o = GPop q it) /\
    (forall q it, o = GPop q it -> tpc th = WPop q /\ tpc th' = dispatch it) /\
    (o = GTake -> tpc th' = WPop (npop (gq s))) /\
    (tpc th' = WExit -> exists it, is_stop it = true /\
        ((exists q, o = GPop q it) \/ (exists k q', try_pop (lq_of s k) = Some (it, q')))) /\
    (forall id, o = GApp (IFun id) -> (exists k, tpc th = BTake k (IFun id)) \/
        (exists p, tpc th' = EFill p (IFun id)) \/ (exists i r p, tpc th' = WFill i r p id)).
Proof.
  intros c s t s' H. destr_step H; kill_gen; simp_st; eexists; eexists;
    (first [ exists GSame; split; [reflexivity|]; split; [reflexivity|]; split; [reflexivity|]
           | eexists (GApp _); split; [reflexivity|]; split; [reflexivity|]; split; [reflexivity|]
           | eexists (GFill _); split; [reflexivity|]; split; [reflexivity|]; split; [reflexivity|]
           | exists GTake; split; [reflexivity|]; split; [reflexivity|]; split; [reflexivity|]
           | eexists (GPop _ _); split; [reflexivity|]; split; [reflexivity|]; split; [eassumption|] ]);
    cbn [tpc trole goto next_op];
    repeat match goal with H : tpc _ = _ |- _ => rewrite H end;
    repeat split; intros; clean_hyps; try discriminate; eauto 6;
    match goal with H : dispatch ?i = WExit |- _ => exists i; split; [exact (dispatch_exit _ H) | eauto 6] end.
Qed.

(* ... and to the local queues *)
Inductive lop := LSame | LPop (k : nat) (it : item) (q' : queue) | LPush (w id : nat).
Definition lq_rel (s : st) (l' : list queue) (o : lop) : Prop :=
  match o with
  | LSame => l' = lqs s
  | LPop k it q' => try_pop (lq_of s k) = Some (it, q') /\ l' = set_nth k q' (lqs s)
  | LPush w id => l' = set_nth w (local_push (lq_of s w) (IFun id)) (lqs s)
  end.

Lemma step_lq : forall c s t s', step c s t = Some s' ->
  exists th th' o, nth_error (threads s) t = Some th /\ threads s' = set_nth t th' (threads s) /\
    lq_rel s (lqs s') o /\
    (forall k it q', o = LPop k it q' -> tpc th' = dispatch it \/ tpc th' = BTake k it) /\
    (forall w id, o = LPush w id -> trole th = RWorker w /\ quiet (tpc th) = false /\
                                    exists i r, tpc th = WRun i (id :: r) /\ tpc th' = WRun i r) /\
    (forall w, trole th = RWorker w -> quiet (tpc th') = true ->
       quiet (tpc th) = true \/ (tpc th = WLoop /\ try_pop (lq_of s w) = None) \/
       (exists k it q', o = LPop k it q' /\ tpc th' = dispatch it)).
Proof.
  intros c s t s' H. destr_step H; kill_gen; simp_st; eexists; eexists;
    (first [ exists LSame; split; [reflexivity|]; split; [reflexivity|]; split; [reflexivity|]
           | eexists (LPop _ _ _); split; [reflexivity|]; split; [reflexivity|]; split; [split; [eassumption|reflexivity]|]
           | eexists (LPush _ _); split; [reflexivity|]; split; [reflexivity|]; split; [reflexivity|] ]);
    cbn [tpc trole goto next_op];
    repeat match goal with H : tpc _ = _ |- _ => rewrite H end;
    repeat split; intros;
    repeat match goal with H1 : trole ?x = _, H2 : trole ?x = _ |- _ => rewrite H1 in H2 end;
    repeat match goal with
           | H : LPop _ _ _ = LPop _ _ _ |- _ => injection H as ? ? ?; subst
           | H : LPush _ _ = LPush _ _ |- _ => injection H as ? ?; subst
           | H : RWorker _ = RWorker _ |- _ => injection H as ?; subst
           end;
    try discriminate; try congruence; cbn [quiet] in *; try discriminate; eauto 8.
Qed.


(* ... to the tasks a thread holds and to the bookkeeping of accepted tasks *)
Definition held_ids (p : pc) : list nat :=
  match p with
  | WBegin id | WRun id _ | WGTake id _ _ | WFill id _ _ _ => [id]
  | BTake _ (IFun id) => [id]
  | _ => []
  end.
Definition pend (p : pc) : list nat :=
  match p with EFill _ (IFun id) => [id] | WFill _ _ _ ch => [ch] | _ => [] end.

Lemma pend_dispatch : forall it, pend (dispatch it) = [].
Proof. intros it. unfold dispatch. destruct (_ =? _)%Z; [destruct it; reflexivity|]. destruct (_ =? _)%Z; reflexivity. Qed.
Lemma held_dispatch_mark : forall c, held_ids (dispatch (IMark c)) = [].
Proof. intros c. unfold dispatch. destruct (_ =? _)%Z; [reflexivity|]. destruct (_ =? _)%Z; reflexivity. Qed.

Lemma step_held : forall c s t s', step c s t = Some s' ->
  exists th th', nth_error (threads s) t = Some th /\ threads s' = set_nth t th' (threads s) /\
    (forall id, In id (held_ids (tpc th)) -> In id (held_ids (tpc th')) \/ In id (finished s') \/
                (exists k, tpc th = BTake k (IFun id) /\ gq s' = app_slot (gq s) (IFun id))) /\
    (forall id, In id (finished s) -> In id (finished s')) /\
    (forall id, In id (acc_before s') -> In id (acc_before s) \/ (stop_called s = false /\ In id (pend (tpc th))) \/
                (exists w, trole th = RWorker w /\ lqs s' = set_nth w (local_push (lq_of s w) (IFun id)) (lqs s))) /\
    (forall id, In id (acc_local s') -> In id (acc_local s) \/
                (exists w, trole th = RWorker w /\ lqs s' = set_nth w (local_push (lq_of s w) (IFun id)) (lqs s))) /\
    (forall id, In id (pend (tpc th')) -> In id (pend (tpc th)) \/ gq s' = app_slot (gq s) (IFun id)) /\
    (stop_called s' = false -> stop_called s = false).
Proof.
  intros c s t s' H. destr_step H; kill_gen; simp_st; eexists; eexists;
    (split; [reflexivity|]; split; [reflexivity|]);
    repeat match goal with it : item |- _ => destruct it end;
    cbn [tpc trole goto next_op note_accept acc_before acc_local finished stop_called];
    repeat match goal with H : tpc _ = _ |- _ => rewrite H end;
    rewrite ?dispatch_fun; rewrite ?stop_loop_eq; steal_cases; unfold app_slot, after_sweep;
    repeat match goal with |- context [if ?b then _ else _] => destruct b eqn:? end;
    rewrite ?pend_dispatch, ?held_dispatch_mark;
    repeat split; intros;
    repeat match goal with
           | H : context [if stop_called ?s then _ else _] |- _ => destruct (stop_called s) eqn:?
           end;
    cbn [held_ids pend In] in *;
    rewrite ?In_ins in *;
    repeat match goal with
           | H : False |- _ => destruct H
           | H : _ \/ False |- _ => destruct H as [H|[]]
           | H : _ = _ \/ In _ _ |- _ => destruct H as [H|H]
           end;
    subst; try discriminate; eauto 6.
Qed.



(* ======================================================================================== *)
(* the three case analyses talk about the same pair of threads                                *)
Lemma set_nth_inj : forall A (l : list A) t a b, t < length l -> set_nth t a l = set_nth t b l -> a = b.
Proof.
  intros A l t a b Hlt H. apply (f_equal (fun x => nth_error x t)) in H.
  rewrite !nth_error_set_nth_eq in H by auto. congruence.
Qed.
Ltac same_threads :=
  repeat match goal with
         | H1 : nth_error ?l ?t = Some ?a, H2 : nth_error ?l ?t = Some ?b |- _ =>
           assert (b = a) by congruence; subst b; clear H2
         | H1 : threads ?s' = set_nth ?t ?a ?l, H2 : threads ?s' = set_nth ?t ?b ?l, Hn : nth_error ?l ?t = Some _ |- _ =>
           assert (b = a) by (eapply set_nth_inj; [eapply nth_error_lt; exact Hn | congruence]); subst b; clear H2
         end.

Lemma quiet_dispatch : forall it, quiet (dispatch it) = true -> dispatch it = WExit.
Proof. intros it. unfold dispatch. destruct (_ =? _)%Z; [destruct it; cbn; congruence|]. destruct (_ =? _)%Z; cbn; congruence. Qed.

(* ======================================================================================== *)
(* shape of a local queue: consumed FUNCTION slots, then written FUNCTION slots                *)
Definition lq_ok (q : queue) : Prop :=
  npop q <= length (slots q) /\
  forall i x, nth_error (slots q) i = Some x ->
    (i < npop q -> exists id, x = SDone (IFun id)) /\ (npop q <= i -> exists id, x = SFull (IFun id)).
Definition drained (q : queue) : Prop := npop q = length (slots q).

Lemma lq_ok_empty : lq_ok empty_queue.
Proof. split; [cbn; lia|]. intros [|i] x H; discriminate. Qed.
Lemma try_pop_ok : forall q it q', try_pop q = Some (it, q') -> lq_ok q -> lq_ok q' /\ exists id, it = IFun id.
Proof.
  intros q it q' H [Hle Hq]. unfold try_pop in H. destruct (nth_error (slots q) (npop q)) as [[x|x|x]|] eqn:E; try discriminate.
  injection H as <- <-. destruct (Hq _ _ E) as [_ H2]. destruct (H2 (le_n _)) as (id & Hid). injection Hid as ->.
  split; [|eauto]. pose proof (nth_error_lt _ _ _ _ E) as Hlt. split; cbn; [rewrite set_nth_length; lia|].
  intros i y Hy. apply nth_error_set_nth in Hy. destruct Hy as [[<- ->]|[Hne Hy]].
  - split; [eauto | lia].
  - destruct (Hq _ _ Hy) as [A B]. split; intros; [apply A | apply B]; lia.
Qed.
Lemma local_push_ok : forall q id, lq_ok q -> lq_ok (local_push q (IFun id)).
Proof.
  intros q id [Hle Hq]. split; cbn; [rewrite app_length; cbn; lia|]. intros i x Hx.
  destruct (lt_dec i (length (slots q))) as [Hlt|Hge].
  - rewrite nth_error_app1 in Hx by auto. auto.
  - rewrite nth_error_app2 in Hx by lia. destruct (i - length (slots q)) as [|k] eqn:E; [|destruct k; discriminate].
    injection Hx as <-. split; [lia | eauto].
Qed.
Lemma try_pop_none : forall q, lq_ok q -> try_pop q = None -> drained q.
Proof.
  intros q [Hle Hq] H. unfold drained. destruct (Nat.eq_dec (npop q) (length (slots q))) as [|Hne]; auto. exfalso.
  assert (Hlt : npop q < length (slots q)) by lia. apply nth_error_Some in Hlt.
  destruct (nth_error (slots q) (npop q)) as [x|] eqn:E; [|congruence].
  destruct (Hq _ _ E) as [_ H2]. destruct (H2 (le_n _)) as (id & ->). unfold try_pop in H. rewrite E in H. discriminate.
Qed.
Lemma drained_try_pop : forall q, drained q -> try_pop q = None.
Proof.
  intros q H. unfold try_pop, drained in *. rewrite H.
  destruct (nth_error (slots q) (length (slots q))) eqn:E; auto. apply nth_error_lt in E. lia.
Qed.
Lemma drained_no_full : forall q, lq_ok q -> drained q -> forall i it, nth_error (slots q) i <> Some (SFull it).
Proof.
  intros q [Hle Hq] Hd i it H. unfold drained in Hd. pose proof (nth_error_lt _ _ _ _ H) as Hlt.
  destruct (Hq _ _ H) as [A _]. destruct A as (id & X); [lia | discriminate].
Qed.

Lemma lq_of_ok : forall s k, Forall lq_ok (lqs s) -> lq_ok (lq_of s k).
Proof.
  intros s k H. unfold lq_of. destruct (nth_in_or_default k (lqs s) empty_queue) as [Hin|Heq].
  - rewrite Forall_forall in H. auto.
  - rewrite Heq. apply lq_ok_empty.
Qed.

Lemma ex_lq_ok : forall c progs s, Reach c progs s -> Forall lq_ok (lqs s).
Proof.
  intros c progs. apply (reach_ind c progs (fun s => Forall lq_ok (lqs s))).
  - cbn. apply Forall_forall. intros q Hq. apply repeat_spec in Hq. subst. apply lq_ok_empty.
  - intros s t s' _ IH Hs. destruct (step_lq _ _ _ _ Hs) as (th & th' & o & _ & _ & Hrel & _).
    destruct o as [|k it q'|w id]; cbn in Hrel.
    + now rewrite Hrel.
    + destruct Hrel as [Hp ->]. apply Forall_set_nth; auto. eapply try_pop_ok; eauto using lq_of_ok.
    + rewrite Hrel. apply Forall_set_nth; auto. apply local_push_ok. auto using lq_of_ok.
Qed.

Lemma nth_set_nth_neq : forall A (l : list A) k w x d, k <> w -> nth w (set_nth k x l) d = nth w l d.
Proof. induction l as [|y l IH]; intros [|k] [|w] x d H; cbn; auto; congruence. Qed.

(* a worker that found its local queue empty (stealing, waiting on the global queue, exited) still has an empty
   local queue: only the owner pushes to it, and only from inside a task *)
Lemma ex_quiet_drained : forall c progs s, Reach c progs s ->
  forall t th w, nth_error (threads s) t = Some th -> trole th = RWorker w -> quiet (tpc th) = true -> drained (lq_of s w).
Proof.
  intros c progs. apply (reach_ind c progs (fun s => forall t th w, nth_error (threads s) t = Some th ->
    trole th = RWorker w -> quiet (tpc th) = true -> drained (lq_of s w))).
  - intros t th w H _ Hq. apply nth_error_In, init_threads_in in H.
    destruct H as [[_ E]|[(w0 & _ & E)|[_ E]]]; rewrite E in Hq; discriminate.
  - intros s t s' Hr IH Hs.
    pose proof (layout_reach _ _ _ Hr) as Hlay.
    destruct (ex_local_funs _ _ _ Hr) as [Hfuns _].
    pose proof (ex_lq_ok _ _ _ Hr) as Hok.
    destruct (step_lq _ _ _ _ Hs) as (th & th' & o & Hn & Ht & Hrel & Hpop & Hpush & Hq).
    destruct (step_facts _ _ _ _ Hs) as (th1 & th1' & Hn1 & Ht1 & Hrole1 & _).
    same_threads.
    assert (Hlq : forall w0, drained (lq_of s w0) -> (forall id, o <> LPush w0 id) -> drained (lq_of s' w0)).
    { intros w0 Hd Hnp. unfold lq_of in *. destruct o as [|k it q'|w1 id]; cbn in Hrel.
      - now rewrite Hrel.
      - destruct Hrel as [Hp ->]. destruct (Nat.eq_dec k w0) as [->|Hne].
        + exfalso. unfold lq_of in Hp. rewrite drained_try_pop in Hp by auto. discriminate.
        + now rewrite nth_set_nth_neq.
      - rewrite Hrel. destruct (Nat.eq_dec w1 w0) as [->|Hne]; [exfalso; eapply Hnp; eauto|]. now rewrite nth_set_nth_neq. }
    intros t0 th0 w Hn0 Hrole Hquiet. rewrite Ht in Hn0. apply nth_error_set_nth in Hn0.
    destruct Hn0 as [[-> ->]|[Hne Hn0]].
    + rewrite Hrole1 in Hrole. destruct (Hq w Hrole Hquiet) as [Hqo|[[Hpc Hnone]|(k & it & q' & -> & Hd)]].
      * apply Hlq; [eapply IH; eauto|]. intros id ->. destruct (Hpush _ _ eq_refl) as (_ & Hnq & _). congruence.
      * apply Hlq; [apply try_pop_none; auto using lq_of_ok|]. intros id ->.
        destruct (Hpush _ _ eq_refl) as (_ & _ & i & r & Hp & _). congruence.
      * exfalso. rewrite Hd in Hquiet. apply quiet_dispatch, dispatch_exit in Hquiet. cbn in Hrel. destruct Hrel as [Hp _].
        destruct (try_pop_funs _ _ _ Hp (lq_of_funs _ _ Hfuns)) as [(id & ->) _]. discriminate.
    + apply Hlq; [eapply IH; eauto|]. intros id ->. destruct (Hpush _ _ eq_refl) as (Hrw & _).
      pose proof (role_at _ _ _ _ _ Hlay Hn) as R1. rewrite Hrw in R1.
      pose proof (role_at _ _ _ _ _ Hlay Hn0) as R2. rewrite Hrole in R2. lia.
Qed.

(* ======================================================================================== *)
(* tickets of the global queue                                                                *)
Lemma pop_ready_inv : forall g q it g', pop_ready g q = Some (it, g') ->
  nth_error (slots g) q = Some (SFull it) /\ slots g' = set_nth q (SDone it) (slots g) /\ npop g' = npop g.
Proof.
  intros g q it g' H. unfold pop_ready in H. destruct (nth_error (slots g) q) as [[x|x|x]|] eqn:E; try discriminate.
  injection H as <- <-. auto.
Qed.
Lemma gq_npop : forall g g' o, gq_rel g g' o -> npop g' = match o with GTake => S (npop g) | _ => npop g end.
Proof.
  intros g g' [|it|p| |q it] H; cbn in H; subst; auto. apply pop_ready_inv in H. tauto.
Qed.
Lemma fill_slots : forall g p, slots (fill g p) = slots g \/
  exists it, nth_error (slots g) p = Some (SPend it) /\ slots (fill g p) = set_nth p (SFull it) (slots g).
Proof. intros g p. unfold fill; cbn. destruct (nth_error (slots g) p) as [[it|it|it]|]; eauto. Qed.
Lemma sdone_fwd : forall g g' o r it, gq_rel g g' o -> nth_error (slots g) r = Some (SDone it) ->
  nth_error (slots g') r = Some (SDone it).
Proof.
  intros g g' [|x|p| |q x] r it H Hd; cbn in H; subst; auto.
  - cbn. rewrite nth_error_app1; auto. eapply nth_error_lt; eauto.
  - destruct (fill_slots g p) as [->|(y & Hy & ->)]; auto. rewrite nth_error_set_nth_neq; auto. congruence.
  - apply pop_ready_inv in H. destruct H as (Hs & -> & _). rewrite nth_error_set_nth_neq; auto. congruence.
Qed.
Lemma sdone_bwd : forall g g' o r it, gq_rel g g' o -> nth_error (slots g') r = Some (SDone it) ->
  nth_error (slots g) r = Some (SDone it) \/ o = GPop r it.
Proof.
  intros g g' [|x|p| |q x] r it H Hd; cbn in H; subst; auto.
  - cbn in Hd. destruct (lt_dec r (length (slots g))) as [Hlt|Hge].
    + rewrite nth_error_app1 in Hd; auto.
    + rewrite nth_error_app2 in Hd by lia. destruct (r - length (slots g)) as [|k]; [discriminate|destruct k; discriminate].
  - destruct (fill_slots g p) as [E|(y & Hy & E)]; rewrite E in Hd; auto.
    apply nth_error_set_nth in Hd. destruct Hd as [[_ X]|[_ X]]; [discriminate|auto].
  - apply pop_ready_inv in H. destruct H as (Hs & E & _). rewrite E in Hd.
    apply nth_error_set_nth in Hd. destruct Hd as [[<- X]|[_ X]]; auto. injection X as ->. auto.
Qed.

Record TicketInv (s : st) : Prop := {
  tk_wait : forall t th q, nth_error (threads s) t = Some th -> tpc th = WPop q -> q < npop (gq s);
  tk_served : forall q, q < npop (gq s) ->
    (exists it, nth_error (slots (gq s)) q = Some (SDone it)) \/
    (exists t th, nth_error (threads s) t = Some th /\ tpc th = WPop q);
  tk_done : forall r it, nth_error (slots (gq s)) r = Some (SDone it) -> r < npop (gq s);
  tk_exit : (exists t th, nth_error (threads s) t = Some th /\ tpc th = WExit) ->
            exists r it, nth_error (slots (gq s)) r = Some (SDone it) /\ is_stop it = true
}.

(* every pop ticket taken so far has been served or has a worker waiting for exactly it; a consumed slot lies
   below the pop index; a worker has exited only if a STOP marker of the global queue has been consumed *)
Lemma ex_tickets : forall c progs s, Reach c progs s -> TicketInv s.
Proof.
  intros c progs. apply (reach_ind c progs TicketInv).
  - constructor.
    + intros t th q H Hp. apply nth_error_In, init_threads_in in H.
      destruct H as [[_ E]|[(w0 & _ & E)|[_ E]]]; rewrite E in Hp; discriminate.
    + cbn. intros q Hq. lia.
    + cbn. intros [|r] it H; discriminate.
    + intros (t & th & H & Hp). apply nth_error_In, init_threads_in in H.
      destruct H as [[_ E]|[(w0 & _ & E)|[_ E]]]; rewrite E in Hp; discriminate.
  - intros s t s' Hr IH Hs.
    destruct (ex_local_funs _ _ _ Hr) as [Hfuns _].
    destruct (step_gq _ _ _ _ Hs) as (th & th' & o & Hn & Ht & Hrel & Hnew & Hold & Hpopf & Htake & Hexit & _).
    pose proof (gq_npop _ _ _ Hrel) as Hnp.
    assert (Hlt : t < length (threads s)) by (eapply nth_error_lt; eauto).
    constructor.
    + intros t0 th0 q Hn0 Hp. rewrite Ht in Hn0. apply nth_error_set_nth in Hn0. destruct Hn0 as [[-> ->]|[Hne Hn0]].
      * destruct (Hnew _ Hp) as [-> ->]. rewrite Hnp. lia.
      * pose proof (tk_wait _ IH _ _ _ Hn0 Hp). rewrite Hnp. destruct o; lia.
    + intros q Hq.
      assert (Hq' : q < npop (gq s) \/ (o = GTake /\ q = npop (gq s))) by (rewrite Hnp in Hq; destruct o; try (left; exact Hq); destruct (Nat.eq_dec q (npop (gq s))); [right; auto | left; lia]).
      destruct Hq' as [Hq'|[-> ->]].
      * destruct (tk_served _ IH q Hq') as [(it & Hd)|(t1 & th1 & Hn1 & Hp1)].
        -- left. exists it. eapply sdone_fwd; eauto.
        -- destruct (Nat.eq_dec t1 t) as [->|Hne].
           ++ rewrite Hn in Hn1. injection Hn1 as <-. destruct (Hold _ Hp1) as (it & ->). cbn in Hrel. left. exists it.
              apply pop_ready_inv in Hrel. destruct Hrel as (Hsl & -> & _). apply nth_error_set_nth_eq. eapply nth_error_lt; eauto.
           ++ right. exists t1, th1. rewrite Ht, nth_error_set_nth_neq; auto.
      * right. exists t, th'. split; [rewrite Ht; apply nth_error_set_nth_eq; auto | apply Htake; auto].
    + intros r it Hd. destruct (sdone_bwd _ _ _ _ _ Hrel Hd) as [Hd0| ->].
      * pose proof (tk_done _ IH _ _ Hd0). rewrite Hnp. destruct o; lia.
      * destruct (Hpopf _ _ eq_refl) as [Hp _]. pose proof (tk_wait _ IH _ _ _ Hn Hp). rewrite Hnp. lia.
    + intros (t1 & th1 & Hn1 & Hp1). rewrite Ht in Hn1. apply nth_error_set_nth in Hn1. destruct Hn1 as [[-> ->]|[Hne Hn1]].
      * destruct (Hexit Hp1) as (it & Hst & [(q & ->)|(k & q' & Htp)]).
        -- cbn in Hrel. apply pop_ready_inv in Hrel. destruct Hrel as (Hsl & E & _). exists q, it. split; auto.
           rewrite E. apply nth_error_set_nth_eq. eapply nth_error_lt; eauto.
        -- exfalso. destruct (try_pop_funs _ _ _ Htp (lq_of_funs _ _ Hfuns)) as [(id & ->) _]. discriminate.
      * destruct (tk_exit _ IH) as (r & it & Hd & Hst); eauto. exists r, it. split; auto. eapply sdone_fwd; eauto.
Qed.

(* ======================================================================================== *)
(* what is proved of "stop() drains" (see Properties_C07.v for the part that is not)          *)
Lemma ex_stop_returns_after_exit : forall c progs s, Reach c progs s -> stop_returned s = true ->
  (forall j, j < nworkers c -> worker_exited s j) /\
  (forall t th, nth_error (threads s) t = Some th -> trole th = RBal -> tpc th = BExit).
Proof.
  intros c progs s Hr Hret. split.
  - apply (proj2 (ex_joined _ _ _ Hr) Hret).
  - apply (ex_bal_exited _ _ _ Hr). left. exact Hret.
Qed.


(* ======================================================================================== *)
(* where an accepted task is until it has finished                                            *)
Definition full_id (x : slot) : list nat := match x with SFull (IFun id) => [id] | _ => [] end.
Definition full_ids (q : queue) : list nat := flat_map full_id (slots q).
Definition live_id (x : slot) : list nat := match x with SPend (IFun id) | SFull (IFun id) => [id] | _ => [] end.
Fixpoint safe_ids (l : list slot) : list nat :=
  match l with
  | [] => []
  | x :: r => if is_stop (slot_item x) then [] else live_id x ++ safe_ids r
  end.
Definition H_ids (s : st) : list nat := flat_map (fun th => held_ids (tpc th)) (threads s).
Definition L_ids (s : st) : list nat := flat_map full_ids (lqs s).
Definition P_ids (s : st) : list nat := flat_map (fun th => pend (tpc th)) (threads s).
Definition tracked (s : st) (id : nat) : Prop :=
  In id (acc_before s) \/ In id (acc_local s) \/ (stop_called s = false /\ In id (P_ids s)).
Definition located (s : st) (id : nat) : Prop :=
  In id (finished s) \/ In id (H_ids s) \/ In id (L_ids s) \/ In id (safe_ids (slots (gq s))).

Lemma in_fm_set_nth_old : forall A (f : A -> list nat) l t x y id, nth_error l t = Some x ->
  In id (flat_map f l) -> In id (f x) \/ In id (flat_map f (set_nth t y l)).
Proof.
  intros A f l t x y id Hn H. apply in_flat_map in H. destruct H as (z & Hz & Hid).
  apply In_nth_error in Hz. destruct Hz as (i & Hi). destruct (Nat.eq_dec t i) as [->|Hne].
  - left. congruence.
  - right. apply in_flat_map. exists z. split; auto. eapply nth_error_In. rewrite nth_error_set_nth_neq; eauto.
Qed.
Lemma in_fm_set_nth_new : forall A (f : A -> list nat) l t y id, t < length l -> In id (f y) -> In id (flat_map f (set_nth t y l)).
Proof.
  intros A f l t y id Hlt H. apply in_flat_map. exists y. split; auto. eapply nth_error_In. apply nth_error_set_nth_eq. auto.
Qed.
Lemma in_fm_set_nth_inv : forall A (f : A -> list nat) l t y id, In id (flat_map f (set_nth t y l)) -> In id (f y) \/ In id (flat_map f l).
Proof.
  intros A f l t y id H. apply in_flat_map in H. destruct H as (z & Hz & Hid). apply In_set_nth in Hz.
  destruct Hz as [->|Hz]; auto. right. apply in_flat_map. eauto.
Qed.
Lemma set_nth_oob : forall A (l : list A) k x, length l <= k -> set_nth k x l = l.
Proof. induction l as [|y l IH]; intros [|k] x H; cbn in *; auto; try lia. rewrite IH; auto. lia. Qed.
Lemma lq_of_nth_error : forall s k, k < length (lqs s) -> nth_error (lqs s) k = Some (lq_of s k).
Proof. intros s k H. unfold lq_of. apply nth_error_nth'. auto. Qed.

Lemma safe_app_old : forall l r id, In id (safe_ids l) -> In id (safe_ids (l ++ r)).
Proof.
  induction l as [|x l IH]; intros r id H; cbn in *; [destruct H|].
  destruct (is_stop (slot_item x)); auto. apply in_app_or in H. apply in_or_app. destruct H; auto.
Qed.
Lemma safe_app_new : forall q id, nostop q = true -> In id (safe_ids (slots q ++ [SPend (IFun id)])).
Proof.
  intros [l n] id. unfold nostop, items; cbn. induction l as [|x l IH]; cbn; intros H; auto.
  apply andb_prop in H. destruct H as [H1 H2]. apply negb_true_iff in H1. rewrite H1. apply in_or_app. auto.
Qed.
Lemma safe_set_nth : forall (Q : Prop) l p x y id, nth_error l p = Some x -> slot_item y = slot_item x ->
  (In id (live_id x) -> In id (live_id y) \/ Q) -> In id (safe_ids l) -> In id (safe_ids (set_nth p y l)) \/ Q.
Proof.
  intros Q. induction l as [|z l IH]; intros [|p] x y id Hn Hit Hl H; cbn in *; try discriminate.
  - injection Hn as ->. rewrite Hit. destruct (is_stop (slot_item x)); [destruct H|].
    apply in_app_or in H. destruct H as [H|H]; [destruct (Hl H); auto|]; left; apply in_or_app; auto.
  - destruct (is_stop (slot_item z)); [destruct H|]. apply in_app_or in H. destruct H as [H|H].
    + left. apply in_or_app. auto.
    + destruct (IH _ _ _ _ Hn Hit Hl H); auto. left. apply in_or_app. auto.
Qed.
Lemma safe_inv : forall l id, In id (safe_ids l) ->
  exists p x, nth_error l p = Some x /\ In id (live_id x) /\
              forall r y, r < p -> nth_error l r = Some y -> is_stop (slot_item y) = false.
Proof.
  induction l as [|z l IH]; intros id H; cbn in H; [destruct H|].
  destruct (is_stop (slot_item z)) eqn:E; [destruct H|]. apply in_app_or in H. destruct H as [H|H].
  - exists 0, z. split; [reflexivity|]. split; auto. intros r y Hr. lia.
  - destruct (IH _ H) as (p & x & Hn & Hl & Hb). exists (S p), x. split; auto. split; auto.
    intros [|r] y Hr Hy; cbn in Hy; [congruence|]. eapply Hb; eauto. lia.
Qed.

Lemma try_pop_full : forall q it q' id, try_pop q = Some (it, q') -> In id (full_ids q) -> In id (full_ids q') \/ it = IFun id.
Proof.
  intros q it q' id H Hin. unfold try_pop in H. destruct (nth_error (slots q) (npop q)) as [[x|x|x]|] eqn:E; try discriminate.
  injection H as <- <-. unfold full_ids in *; cbn. destruct (in_fm_set_nth_old _ full_id _ _ _ (SDone x) _ E Hin) as [H|H]; auto.
  right. destruct x; cbn in H; [destruct H as [->|[]]; auto | destruct H].
Qed.
Lemma local_push_full : forall q id id', In id (full_ids q) \/ id = id' -> In id (full_ids (local_push q (IFun id'))).
Proof. intros q id id' H. unfold full_ids; cbn. rewrite flat_map_app. apply in_or_app. cbn. destruct H; auto. Qed.

(* every tracked task (accepted before stop() was called, pushed to a local queue, or holding a global ticket
   while stop() has not been called) is finished, held by a worker or the balance thread, in a local queue, or
   in the global queue ahead of every STOP marker *)
Lemma ex_located : forall c progs s, Reach c progs s -> forall id, tracked s id -> located s id.
Proof.
  intros c progs. apply (reach_ind c progs (fun s => forall id, tracked s id -> located s id)).
  - intros id [H|[H|[_ H]]]; try (cbn in H; destruct H; fail).
    exfalso. unfold P_ids in H. apply in_flat_map in H. destruct H as (th & Hth & Hin).
    apply init_threads_in in Hth. destruct Hth as [[_ E]|[(w & _ & E)|[_ E]]]; rewrite E in Hin; destruct Hin.
  - intros s t s' Hr IH Hs id Htr.
    pose proof (layout_reach _ _ _ Hr) as Hlay.
    destruct (step_gq _ _ _ _ Hs) as (th & th' & og & Hn & Ht & Hgrel & _ & _ & Hpopf & _ & _ & _).
    destruct (step_lq _ _ _ _ Hs) as (th1 & th1' & ol & Hn1 & Ht1 & Hlrel & Hlpop & Hlpush & _).
    destruct (step_held _ _ _ _ Hs) as (th2 & th2' & Hn2 & Ht2 & Hheld & Hfin & Hab & Hal & Hpe & Hsc).
    same_threads.
    assert (Hlt : t < length (threads s)) by (eapply nth_error_lt; eauto).
    assert (Hnewheld : forall i, In i (held_ids (tpc th')) -> located s' i).
    { intros i Hi. right. left. unfold H_ids. rewrite Ht. apply in_fm_set_nth_new; auto. }
    assert (HthP : forall i, In i (pend (tpc th)) -> In i (P_ids s)).
    { intros i Hi. unfold P_ids. apply in_flat_map. exists th. split; auto. eapply nth_error_In; eauto. }
    assert (Hcases : tracked s id \/
                     (exists w, trole th = RWorker w /\ lqs s' = set_nth w (local_push (lq_of s w) (IFun id)) (lqs s)) \/
                     (stop_called s' = false /\ gq s' = app_slot (gq s) (IFun id))).
    { destruct Htr as [H|[H|[Hc H]]].
      - destruct (Hab _ H) as [X|[[X1 X2]|X]]; auto.
        + left. left. exact X.
        + left. right. right. auto.
      - destruct (Hal _ H) as [X|X]; auto. left. right. left. exact X.
      - unfold P_ids in H. rewrite Ht in H. apply in_fm_set_nth_inv in H. destruct H as [H|H].
        + destruct (Hpe _ H) as [X|X]; auto. left. right. right. auto.
        + left. right. right. auto. }
    destruct Hcases as [Hold|[(w & Hrw & Hl)|[Hc Hg]]].
    2: { right. right. left. unfold L_ids. rewrite Hl.
         pose proof (role_at _ _ _ _ _ Hlay Hn) as R. rewrite Hrw in R. destruct Hlay as (_ & _ & Hlen).
         apply in_fm_set_nth_new; [lia|]. apply local_push_full. auto. }
    2: { right. right. right. rewrite Hg. cbn. apply safe_app_new. eapply ex_nostop_before_stop; eauto. }
    destruct (IH _ Hold) as [Hf|[Hh|[Hl|Hg]]].
    + left. auto.
    + unfold H_ids in Hh. destruct (in_fm_set_nth_old _ (fun th => held_ids (tpc th)) _ _ _ th' _ Hn Hh) as [Hx|Hx].
      * destruct (Hheld _ Hx) as [Y|[Y|(k & Hpc & Hg)]]; [auto | left; auto |].
        right. right. right. rewrite Hg. cbn. apply safe_app_new.
        pose proof (ex_role_pc _ _ _ Hr _ _ Hn) as Rp. rewrite Hpc in Rp.
        eapply ex_nostop_while_balancing; eauto; [destruct (trole th); try discriminate; reflexivity | congruence].
      * right. left. unfold H_ids. rewrite Ht. exact Hx.
    + unfold L_ids in Hl. apply in_flat_map in Hl. destruct Hl as (q0 & Hq0 & Hid).
      apply In_nth_error in Hq0. destruct Hq0 as (k0 & Hk0).
      assert (Hq0eq : lq_of s k0 = q0) by (unfold lq_of; eapply nth_error_nth; eauto).
      pose proof (nth_error_lt _ _ _ _ Hk0) as Hk0lt.
      destruct ol as [|k it q'|w id']; cbn in Hlrel.
      * right. right. left. unfold L_ids. rewrite Hlrel. apply in_flat_map. exists q0. split; auto. eapply nth_error_In; eauto.
      * destruct Hlrel as [Hp Hl']. destruct (Nat.eq_dec k k0) as [->|Hne].
        -- rewrite Hq0eq in Hp. destruct (try_pop_full _ _ _ _ Hp Hid) as [X| ->].
           ++ right. right. left. unfold L_ids. rewrite Hl'. apply in_fm_set_nth_new; auto.
           ++ apply Hnewheld. destruct (Hlpop _ _ _ eq_refl) as [E|E]; rewrite E; [rewrite dispatch_fun|]; cbn; auto.
        -- right. right. left. unfold L_ids. rewrite Hl'. apply in_flat_map. exists q0. split; auto.
           eapply nth_error_In. rewrite nth_error_set_nth_neq; eauto.
      * right. right. left. unfold L_ids. rewrite Hlrel. destruct (Nat.eq_dec w k0) as [->|Hne].
        -- apply in_fm_set_nth_new; auto. apply local_push_full. rewrite Hq0eq. auto.
        -- apply in_flat_map. exists q0. split; auto. eapply nth_error_In. rewrite nth_error_set_nth_neq; eauto.
    + destruct og as [|x|p| |q x]; cbn in Hgrel.
      * right. right. right. now rewrite Hgrel.
      * right. right. right. rewrite Hgrel. cbn. apply safe_app_old. auto.
      * right. right. right. rewrite Hgrel. destruct (fill_slots (gq s) p) as [->|(y & Hy & ->)]; auto.
        assert (X : In id (safe_ids (set_nth p (SFull y) (slots (gq s)))) \/ False).
        { apply (safe_set_nth False _ _ (SPend y) (SFull y) id Hy eq_refl); [intros Hin; left; exact Hin | exact Hg]. }
        destruct X as [X|[]]. exact X.
      * right. right. right. now rewrite Hgrel.
      * apply pop_ready_inv in Hgrel. destruct Hgrel as (Hsl & Esl & _).
        assert (X : In id (safe_ids (set_nth q (SDone x) (slots (gq s)))) \/ x = IFun id).
        { apply (safe_set_nth (x = IFun id) _ _ (SFull x) (SDone x) id Hsl eq_refl); [|exact Hg].
          intros Hin. right. destruct x; cbn in Hin; [destruct Hin as [->|[]]; auto | destruct Hin]. }
        destruct X as [X|X].
        -- right. right. right. now rewrite Esl.
        -- subst x. apply Hnewheld. destruct (Hpopf _ _ eq_refl) as [_ E]. rewrite E, dispatch_fun. cbn. auto.
Qed.

(* ======================================================================================== *)
(* stop() drains                                                                              *)
Lemma returned_worker_exit : forall c progs s t th w, Reach c progs s -> stop_returned s = true ->
  nth_error (threads s) t = Some th -> trole th = RWorker w -> tpc th = WExit.
Proof.
  intros c progs s t th w Hr Hret Hn Hrole. pose proof (layout_reach _ _ _ Hr) as Hlay.
  pose proof (role_at _ _ _ _ _ Hlay Hn) as R. rewrite Hrole in R. destruct R as [-> Hw].
  destruct (ex_stop_returns_after_exit _ _ _ Hr Hret) as [He _]. specialize (He _ Hw).
  unfold worker_exited, pc_of, worker_tid in He. destruct Hlay as (_ & Hnx & _). rewrite Hnx, Hn in He. cbn in He. congruence.
Qed.
Lemma returned_worker_thread : forall c progs s w, Reach c progs s -> stop_returned s = true -> w < nworkers c ->
  exists t th, nth_error (threads s) t = Some th /\ trole th = RWorker w /\ tpc th = WExit.
Proof.
  intros c progs s w Hr Hret Hw. pose proof (layout_reach _ _ _ Hr) as Hlay.
  destruct (ex_stop_returns_after_exit _ _ _ Hr Hret) as [He _]. specialize (He _ Hw).
  unfold worker_exited, pc_of, worker_tid in He. destruct (nth_error (threads s) (nex s + w)) as [th|] eqn:Hn; [|discriminate].
  cbn in He. exists (nex s + w), th. split; auto. split; [|congruence].
  pose proof (role_at _ _ _ _ _ Hlay Hn) as R. destruct Hlay as (_ & Hnx & _). rewrite Hnx in R.
  destruct (trole th) as [|w'|]; [lia | f_equal; lia | lia].
Qed.

Lemma ex_stop_drains : forall c progs s, 1 <= nworkers c -> Reach c progs s -> stop_returned s = true ->
  forall id, In id (acc_before s) \/ In id (acc_local s) -> In id (finished s).
Proof.
  intros c progs s HN Hr Hret id Hin.
  assert (Htr : tracked s id) by (destruct Hin; [left|right; left]; auto).
  destruct (ex_located _ _ _ Hr _ Htr) as [Hf|[Hh|[Hl|Hg]]]; auto; exfalso.
  - unfold H_ids in Hh. apply in_flat_map in Hh. destruct Hh as (th & Hth & Hid).
    apply In_nth_error in Hth. destruct Hth as (t & Hn).
    pose proof (ex_role_pc _ _ _ Hr _ _ Hn) as Rp. destruct (trole th) as [|w|] eqn:Erole.
    + destruct (tpc th); cbn in *; try discriminate; try contradiction.
    + rewrite (returned_worker_exit _ _ _ _ _ _ Hr Hret Hn Erole) in Hid. destruct Hid.
    + destruct (ex_stop_returns_after_exit _ _ _ Hr Hret) as [_ Hb]. rewrite (Hb _ _ Hn Erole) in Hid. destruct Hid.
  - unfold L_ids in Hl. apply in_flat_map in Hl. destruct Hl as (q0 & Hq0 & Hid).
    apply In_nth_error in Hq0. destruct Hq0 as (w & Hw).
    pose proof (nth_error_lt _ _ _ _ Hw) as Hwlt. pose proof (layout_reach _ _ _ Hr) as Hlay.
    assert (Hwn : w < nworkers c) by (destruct Hlay as (_ & _ & <-); exact Hwlt).
    destruct (returned_worker_thread _ _ _ _ Hr Hret Hwn) as (t & th & Hn & Hrole & Hpc).
    assert (Hd : drained (lq_of s w)) by (eapply ex_quiet_drained; eauto; rewrite Hpc; reflexivity).
    assert (Heq : lq_of s w = q0) by (unfold lq_of; eapply nth_error_nth; eauto).
    rewrite Heq in Hd. unfold full_ids in Hid. apply in_flat_map in Hid. destruct Hid as (x & Hx & Hix).
    apply In_nth_error in Hx. destruct Hx as (i & Hi).
    destruct x as [y|y|y]; cbn in Hix; try contradiction.
    assert (Hok : lq_ok q0) by (rewrite <- Heq; apply lq_of_ok; eapply ex_lq_ok; eauto).
    eapply drained_no_full; eauto.
  - destruct (safe_inv _ _ Hg) as (p & x & Hp & Hlive & Hbefore).
    assert (H0 : 0 < nworkers c) by lia.
    destruct (returned_worker_thread _ _ _ _ Hr Hret H0) as (t0 & th0 & Hn0 & _ & Hpc0).
    pose proof (ex_tickets _ _ _ Hr) as TK.
    destruct (tk_exit _ TK) as (r & it & Hd & Hst); [eauto|].
    assert (Hpr : p < r).
    { destruct (lt_eq_lt_dec r p) as [[Hlt|Heq]|Hgt]; auto; exfalso.
      - pose proof (Hbefore _ _ Hlt Hd) as X. cbn in X. congruence.
      - subst r. rewrite Hp in Hd. injection Hd as ->. destruct Hlive. }
    pose proof (tk_done _ TK _ _ Hd) as Hrn.
    destruct (tk_served _ TK p) as [(it' & Hd')|(t1 & th1 & Hn1 & Hp1)]; [lia| |].
    + rewrite Hp in Hd'. injection Hd' as ->. destruct Hlive.
    + pose proof (ex_role_pc _ _ _ Hr _ _ Hn1) as Rp. rewrite Hp1 in Rp.
      destruct (trole th1) as [|w1|] eqn:E1; try discriminate.
      rewrite (returned_worker_exit _ _ _ _ _ _ Hr Hret Hn1 E1) in Hp1. discriminate.
Qed.


(* ======================================================================================== *)
(* token counting: every task id exists exactly as often as it is written in the programs and bodies *)
Fixpoint cnt (id : nat) (l : list nat) : nat :=
  match l with [] => 0 | x :: r => (if Nat.eqb x id then 1 else 0) + cnt id r end.
Lemma cnt_app : forall id a b, cnt id (a ++ b) = cnt id a + cnt id b.
Proof. induction a as [|x a IH]; intros b; cbn; auto. rewrite IH. lia. Qed.
Lemma cnt_ins : forall id x l, cnt id (ins x l) = (if Nat.eqb x id then 1 else 0) + cnt id l.
Proof. induction l as [|y l IH]; cbn; auto. destruct (x <=? y); cbn; auto. rewrite IH. lia. Qed.
Lemma cnt_in : forall id l, In id l <-> 1 <= cnt id l.
Proof.
  induction l as [|x l IH]; cbn; [split; [tauto|lia]|]. destruct (Nat.eqb_spec x id); split; intros; auto; try lia.
  - destruct H; [congruence|]. apply IH in H. lia.
  - right. apply IH. lia.
Qed.
Lemma cnt_nodup : forall l, (forall id, cnt id l <= 1) -> NoDup l.
Proof.
  induction l as [|x l IH]; intros H; constructor.
  - intros Hin. apply cnt_in in Hin. specialize (H x). cbn in H. rewrite Nat.eqb_refl in H. lia.
  - apply IH. intros id. specialize (H id). cbn in H. lia.
Qed.
Lemma nodup_cnt : forall l id, NoDup l -> cnt id l <= 1.
Proof.
  induction l as [|x l IH]; intros id H; cbn; [lia|]. inversion H; subst. specialize (IH id H3).
  destruct (Nat.eqb_spec x id); [|lia]. subst. assert (cnt id l = 0); [|lia].
  destruct (cnt id l) eqn:E; auto. exfalso. apply H2. apply cnt_in. lia.
Qed.
Lemma cnt_fm_set_nth : forall A (f : A -> list nat) l t x y id, nth_error l t = Some x ->
  cnt id (flat_map f (set_nth t y l)) + cnt id (f x) = cnt id (flat_map f l) + cnt id (f y).
Proof.
  induction l as [|z l IH]; intros [|t] x y id H; cbn in *; try discriminate.
  - injection H as ->. rewrite !cnt_app. lia.
  - rewrite !cnt_app. specialize (IH _ _ y id H). lia.
Qed.
Lemma cnt_fm_ge : forall A (f : A -> list nat) l t x id, nth_error l t = Some x -> cnt id (f x) <= cnt id (flat_map f l).
Proof.
  induction l as [|z l IH]; intros [|t] x id H; cbn in *; try discriminate; rewrite cnt_app.
  - injection H as ->. lia.
  - specialize (IH _ _ id H). lia.
Qed.

Definition op_ids (o : op) : list nat := match o with OSubmit id => [id] | _ => [] end.
Definition sub_ids (ops : list op) : list nat := flat_map op_ids ops.
Definition is_idle (p : pc) : bool := match p with EIdle => true | _ => false end.
Definition pend_ops (th : thread) : list nat :=
  sub_ids (skipn (if is_idle (tpc th) then opi th else S (opi th)) (prog th)).
Definition pc_tok (p : pc) : list nat :=
  match p with
  | WBegin id => [id]
  | WRun id rest => id :: rest
  | WGTake id rest ch => id :: ch :: rest
  | WFill id rest _ _ => id :: rest
  | BTake _ (IFun id) => [id]
  | _ => []
  end.
Definition thr_tok (th : thread) : list nat := pend_ops th ++ pc_tok (tpc th).
Definition q_tok (q : queue) : list nat := flat_map live_id (slots q).
Definition rest_tok (s : st) (x : nat) : nat :=
  cnt x (q_tok (gq s)) + cnt x (flat_map q_tok (lqs s)) + cnt x (finished s).

Lemma skipn_nth : forall A (l : list A) n x, nth_error l n = Some x -> skipn n l = x :: skipn (S n) l.
Proof. induction l as [|y l IH]; intros [|n] x H; cbn in *; try discriminate; [congruence|]. now apply IH. Qed.
Lemma pc_tok_dispatch : forall it x, cnt x (pc_tok (dispatch it)) = cnt x (live_id (SFull it)).
Proof. intros it x. destruct it as [id|c]; [reflexivity|]. unfold dispatch. cbn [item_code]. destruct (_ =? _)%Z; [reflexivity|]. destruct (_ =? _)%Z; reflexivity. Qed.
Lemma q_tok_app : forall g it x, cnt x (q_tok (app_slot g it)) = cnt x (q_tok g) + cnt x (live_id (SPend it)).
Proof. intros. unfold q_tok, app_slot; cbn. rewrite flat_map_app, cnt_app. cbn. now rewrite app_nil_r. Qed.
Lemma q_tok_fill : forall g p x, cnt x (q_tok (fill g p)) = cnt x (q_tok g).
Proof.
  intros g p x. unfold q_tok. destruct (fill_slots g p) as [->|(y & Hy & ->)]; auto.
  pose proof (cnt_fm_set_nth _ live_id _ _ _ (SFull y) x Hy) as H. destruct y; cbn in H; lia.
Qed.
Lemma q_tok_pop : forall g q it g' x, pop_ready g q = Some (it, g') -> cnt x (q_tok g') + cnt x (live_id (SFull it)) = cnt x (q_tok g).
Proof.
  intros g q it g' x H. apply pop_ready_inv in H. destruct H as (Hs & E & _). unfold q_tok. rewrite E.
  pose proof (cnt_fm_set_nth _ live_id _ _ _ (SDone it) x Hs) as H. destruct it; cbn in H; cbn; lia.
Qed.
Lemma q_tok_try_pop : forall q it q' x, try_pop q = Some (it, q') -> cnt x (q_tok q') + cnt x (live_id (SFull it)) = cnt x (q_tok q).
Proof.
  intros q it q' x H. unfold try_pop in H. destruct (nth_error (slots q) (npop q)) as [[y|y|y]|] eqn:E; try discriminate.
  injection H as <- <-. unfold q_tok; cbn [slots].
  pose proof (cnt_fm_set_nth _ live_id _ _ _ (SDone y) x E) as H. destruct y; cbn in H; cbn; lia.
Qed.
Lemma lqs_tok_pop : forall s k it q' x, try_pop (lq_of s k) = Some (it, q') ->
  cnt x (flat_map q_tok (set_nth k q' (lqs s))) + cnt x (live_id (SFull it)) = cnt x (flat_map q_tok (lqs s)).
Proof.
  intros s k it q' x H. destruct (lt_dec k (length (lqs s))) as [Hlt|Hge].
  - pose proof (cnt_fm_set_nth _ q_tok _ _ _ q' x (lq_of_nth_error _ _ Hlt)) as A.
    pose proof (q_tok_try_pop _ _ _ x H). lia.
  - exfalso. unfold lq_of in H. rewrite nth_overflow in H by lia. discriminate.
Qed.
Lemma lqs_tok_push : forall s w id x, w < length (lqs s) ->
  cnt x (flat_map q_tok (set_nth w (local_push (lq_of s w) (IFun id)) (lqs s))) = cnt x (flat_map q_tok (lqs s)) + cnt x [id].
Proof.
  intros s w id x Hlt. pose proof (cnt_fm_set_nth _ q_tok _ _ _ (local_push (lq_of s w) (IFun id)) x (lq_of_nth_error _ _ Hlt)) as A.
  unfold q_tok at 4 in A. cbn [local_push slots] in A. rewrite flat_map_app, cnt_app in A. cbn [flat_map live_id app] in A.
  unfold q_tok at 2 in A. lia.
Qed.

Definition run_id (p : pc) : list nat :=
  match p with WRun id _ | WGTake id _ _ | WFill id _ _ _ => [id] | _ => [] end.

Lemma run_id_dispatch : forall it, run_id (dispatch it) = [].
Proof. intros it. unfold dispatch. destruct (_ =? _)%Z; [destruct it; reflexivity|]. destruct (_ =? _)%Z; reflexivity. Qed.

Lemma is_idle_dispatch : forall it, is_idle (dispatch it) = false.
Proof. intros it. unfold dispatch. destruct (_ =? _)%Z; [destruct it; reflexivity|]. destruct (_ =? _)%Z; reflexivity. Qed.

Lemma step_tokens : forall c s t s',
  (forall t th w, nth_error (threads s) t = Some th -> trole th = RWorker w -> w < length (lqs s)) ->
  step c s t = Some s' ->
  exists th th', nth_error (threads s) t = Some th /\ threads s' = set_nth t th' (threads s) /\
   ((started s' = started s /\ forall x, cnt x (thr_tok th') + rest_tok s' x = cnt x (thr_tok th) + rest_tok s x) \/
    (exists id w, tpc th = WBegin id /\ started s' = started s ++ [(id, w)] /\ In id (run_id (tpc th')) /\
        forall x, cnt x (thr_tok th') + rest_tok s' x = cnt x (thr_tok th) + rest_tok s x + cnt x (body_of c id))) /\
   (forall id, In id (run_id (tpc th')) -> In id (run_id (tpc th)) \/ tpc th = WBegin id) /\
   (forall id, In id (run_id (tpc th)) -> In id (run_id (tpc th')) \/ In id (finished s')).
Proof.
  intros c s t s' Hw H. destr_step H; kill_gen; simp_st;
    rewrite ?stop_loop_eq; steal_cases; unfold after_sweep;
    repeat match goal with |- context [if ?b then _ else _] => destruct b eqn:? end;
    eexists; eexists;
    (split; [reflexivity|]; split; [reflexivity|]);
    repeat match goal with it : item |- _ => destruct it end;
    (split; [ first [ left; split; [reflexivity|] | right; eexists; eexists; split; [eassumption|]; split; [reflexivity|]; split; [left; reflexivity|] ];
              intros x; unfold thr_tok, pend_ops, rest_tok, sub_ids; simp_st;
              cbn [tpc opi prog goto next_op trole note_accept finished gq lqs];
              repeat match goal with H : tpc _ = _ |- _ => rewrite H end;
              cbn [is_idle pc_tok];
              try match goal with H : nth_error (prog _) (opi _) = Some _ |- _ => rewrite (skipn_nth _ _ _ _ H) end;
              cbn [flat_map op_ids app];
              rewrite ?q_tok_fill, ?pc_tok_dispatch;
              try match goal with E : pop_ready _ _ = Some _ |- _ => pose proof (q_tok_pop _ _ _ _ x E) end;
              try match goal with E : try_pop (lq_of _ _) = Some _ |- _ => pose proof (lqs_tok_pop _ _ _ _ x E) end;
              try (rewrite lqs_tok_push by (eapply Hw; eauto));
              unfold q_tok in *; cbn [slots] in *;
              rewrite ?flat_map_app, ?cnt_app, ?cnt_ins;
              cbn [flat_map live_id app cnt pc_tok] in *; rewrite ?cnt_app, ?pc_tok_dispatch, ?is_idle_dispatch; cbn [cnt live_id]; try lia
            | split; intros ix Hix; simp_st; cbn [tpc goto next_op note_accept finished] in *;
              repeat match goal with H : tpc _ = _ |- _ => rewrite H in * end;
              rewrite ?run_id_dispatch in *; cbn [run_id In] in *; rewrite ?In_ins;
              repeat match goal with H : _ \/ False |- _ => destruct H as [H|[]] | H : False |- _ => destruct H end;
              subst; auto 6 ]).
Qed.



Lemma cnt_fm_ge2 : forall A (f : A -> list nat) l t1 t2 x y id, t1 <> t2 -> nth_error l t1 = Some x -> nth_error l t2 = Some y ->
  cnt id (f x) + cnt id (f y) <= cnt id (flat_map f l).
Proof.
  induction l as [|z l IH]; intros [|t1] [|t2] x y id Hne H1 H2; cbn in *; try discriminate; try congruence; rewrite cnt_app.
  - injection H1 as ->. pose proof (cnt_fm_ge _ f _ _ _ id H2). lia.
  - injection H2 as ->. pose proof (cnt_fm_ge _ f _ _ _ id H1). lia.
  - assert (t1 <> t2) by congruence. specialize (IH _ _ _ _ id H H1 H2). lia.
Qed.
Lemma run_id_tok : forall p id, In id (run_id p) -> 1 <= cnt id (pc_tok p).
Proof. intros p id H. destruct p; cbn in H; try contradiction; destruct H as [->|[]]; cbn; rewrite Nat.eqb_refl; lia. Qed.
Lemma nodup_snoc : forall (l : list nat) a, NoDup l -> ~ In a l -> NoDup (l ++ [a]).
Proof.
  induction l as [|x l IH]; intros a Hn Hi; cbn; [constructor; auto; constructor|].
  inversion Hn; subst. constructor.
  - intros H. apply in_app_or in H. destruct H as [H|[H|[]]]; auto. subst. apply Hi. left. reflexivity.
  - apply IH; auto. intros H. apply Hi. right. exact H.
Qed.

(* the table of bodies whose task has not started yet *)
Definition memb (p : nat) (L : list nat) : bool := existsb (Nat.eqb p) L.
Definition tbl (c : config) (L : list nat) : list nat :=
  flat_map (fun p => if memb p L then [] else nth p (bodies c) []) (seq 0 (length (bodies c))).
Lemma memb_false : forall p L, ~ In p L -> memb p L = false.
Proof.
  intros p L H. unfold memb. destruct (existsb (Nat.eqb p) L) eqn:E; auto. exfalso. apply existsb_exists in E.
  destruct E as (y & Hy & Heq). apply Nat.eqb_eq in Heq. subst. auto.
Qed.
Lemma fm_change : forall (l : list nat) (f g : nat -> list nat) id0 x, NoDup l ->
  (forall p, p <> id0 -> g p = f p) -> g id0 = [] ->
  (In id0 l -> cnt x (flat_map g l) + cnt x (f id0) = cnt x (flat_map f l)) /\
  (~ In id0 l -> cnt x (flat_map g l) = cnt x (flat_map f l)).
Proof.
  induction l as [|a l IH]; intros f g id0 x Hnd Hne H0; cbn; [split; [tauto|auto]|].
  inversion Hnd as [|? ? H1 H2]; subst. destruct (IH f g id0 x H2 Hne H0) as [IH1 IH2]. rewrite !cnt_app.
  destruct (Nat.eq_dec a id0) as [->|Ha].
  - split; [|intros H; exfalso; apply H; auto]. intros _. rewrite H0. cbn. rewrite (IH2 H1). lia.
  - rewrite (Hne _ Ha). split.
    + intros [H|H]; [congruence|]. specialize (IH1 H). lia.
    + intros H. rewrite IH2; auto.
Qed.
Lemma tbl_start : forall c L id0 x, ~ In id0 L -> cnt x (tbl c (L ++ [id0])) + cnt x (body_of c id0) = cnt x (tbl c L).
Proof.
  intros c L id0 x Hni. unfold tbl.
  destruct (fm_change (seq 0 (length (bodies c))) (fun p => if memb p L then [] else nth p (bodies c) [])
              (fun p => if memb p (L ++ [id0]) then [] else nth p (bodies c) []) id0 x (seq_NoDup _ _)) as [A B].
  - intros p Hp. unfold memb. rewrite existsb_app. cbn. apply Nat.eqb_neq in Hp. rewrite Hp. now rewrite !orb_false_r.
  - unfold memb. rewrite existsb_app. cbn. rewrite Nat.eqb_refl. now rewrite orb_true_r.
  - cbn beta in A. rewrite (memb_false _ _ Hni) in A. unfold body_of.
    destruct (lt_dec id0 (length (bodies c))) as [Hlt|Hge].
    + apply A. apply in_seq. lia.
    + rewrite nth_overflow by lia. cbn. rewrite B; [lia|]. rewrite in_seq. lia.
Qed.

Definition total (c : config) (s : st) (x : nat) : nat :=
  cnt x (flat_map thr_tok (threads s)) + rest_tok s x + cnt x (tbl c (map fst (started s))).
Definition runs_ids (s : st) : list nat := flat_map (fun th => run_id (tpc th)) (threads s).

Record CntInv (c : config) (progs : list (list op)) (s : st) : Prop := {
  ci_total : forall x, total c s x = total c (init c progs) x;
  ci_run : forall id, In id (map fst (started s)) -> In id (finished s) \/ In id (runs_ids s);
  ci_nodup : NoDup (map fst (started s))
}.

Lemma ex_counts : forall c progs, (forall x, total c (init c progs) x <= 1) ->
  forall s, Reach c progs s -> CntInv c progs s.
Proof.
  intros c progs Hwf. apply (reach_ind c progs (CntInv c progs)).
  - constructor; [reflexivity | cbn; intros ? [] | cbn; constructor].
  - intros s t s' Hr IH Hs. pose proof (layout_reach _ _ _ Hr) as Hlay.
    assert (Hw : forall t th w, nth_error (threads s) t = Some th -> trole th = RWorker w -> w < length (lqs s)).
    { intros t0 th0 w Hn0 Hrole. pose proof (role_at _ _ _ _ _ Hlay Hn0) as R. rewrite Hrole in R.
      destruct Hlay as (_ & _ & ->). tauto. }
    destruct (step_tokens _ _ _ _ Hw Hs) as (th & th' & Hn & Ht & Hcase & Hrun1 & Hrun2).
    destruct (step_held _ _ _ _ Hs) as (th2 & th2' & Hn2 & Ht2 & _ & Hfin & _).
    same_threads.
    assert (Hlt : t < length (threads s)) by (eapply nth_error_lt; eauto).
    assert (Hthr : forall x, cnt x (flat_map thr_tok (threads s')) + cnt x (thr_tok th) =
                             cnt x (flat_map thr_tok (threads s)) + cnt x (thr_tok th')).
    { intros x. rewrite Ht. apply cnt_fm_set_nth. exact Hn. }
    assert (Hrunold : forall id, In id (finished s) \/ In id (runs_ids s) -> In id (finished s') \/ In id (runs_ids s')).
    { intros id [H|H]; [left; auto|]. unfold runs_ids in *.
      destruct (in_fm_set_nth_old _ (fun th => run_id (tpc th)) _ _ _ th' _ Hn H) as [X|X].
      - destruct (Hrun2 _ X) as [Y|Y]; auto. right. rewrite Ht. apply in_fm_set_nth_new; auto.
      - right. rewrite Ht. exact X. }
    destruct Hcase as [[Hst Heq]|(id & w & Hpc & Hst & Hrn & Heq)].
    + constructor.
      * intros x. rewrite <- (ci_total _ _ _ IH x). unfold total. rewrite Hst. specialize (Heq x). specialize (Hthr x). lia.
      * rewrite Hst. intros id Hin. apply Hrunold. apply (ci_run _ _ _ IH); auto.
      * rewrite Hst. apply (ci_nodup _ _ _ IH).
    + assert (Hfresh : ~ In id (map fst (started s))).
      { intros Hin. pose proof (ci_total _ _ _ IH id) as Htot. specialize (Hwf id). rewrite <- Htot in Hwf. clear Htot. unfold total in Hwf.
        assert (H1 : 1 <= cnt id (thr_tok th)).
        { unfold thr_tok. rewrite cnt_app, Hpc. cbn. rewrite Nat.eqb_refl. lia. }
        destruct (ci_run _ _ _ IH _ Hin) as [Hf|Hrn0].
        - apply cnt_in in Hf. pose proof (cnt_fm_ge _ thr_tok _ _ _ id Hn). unfold rest_tok in Hwf. lia.
        - unfold runs_ids in Hrn0. apply in_flat_map in Hrn0. destruct Hrn0 as (th1 & Hth1 & Hid1).
          apply In_nth_error in Hth1. destruct Hth1 as (t1 & Hn1).
          assert (t1 <> t). { intros ->. rewrite Hn in Hn1. injection Hn1 as <-. rewrite Hpc in Hid1. destruct Hid1. }
          assert (H2 : 1 <= cnt id (thr_tok th1)). { unfold thr_tok. rewrite cnt_app. pose proof (run_id_tok _ _ Hid1). lia. }
          pose proof (cnt_fm_ge2 _ thr_tok _ _ _ _ _ id H Hn1 Hn). lia. }
      constructor.
      * intros x. rewrite <- (ci_total _ _ _ IH x). unfold total. rewrite Hst, map_app. cbn [map fst].
        pose proof (tbl_start c _ _ x Hfresh). specialize (Heq x). specialize (Hthr x). lia.
      * rewrite Hst, map_app. cbn [map fst]. intros id0 Hin. apply in_app_or in Hin. destruct Hin as [Hin|[<-|[]]].
        -- apply Hrunold. apply (ci_run _ _ _ IH); auto.
        -- right. unfold runs_ids. rewrite Ht. apply in_fm_set_nth_new; auto.
      * rewrite Hst, map_app. cbn [map fst]. apply nodup_snoc; auto. apply (ci_nodup _ _ _ IH).
Qed.

(* the initial token count is the number of places the id is written at *)
Definition submit_ids (progs : list (list op)) : list nat := flat_map sub_ids progs.

Lemma fm_nth_seq_gen : forall (l : list (list nat)) k, flat_map (fun p => nth (p - k) l []) (seq k (length l)) = concat l.
Proof.
  induction l as [|a l IH]; intros k; cbn; auto. rewrite Nat.sub_diag. f_equal. rewrite <- (IH (S k)).
  rewrite !flat_map_concat_map. f_equal. apply map_ext_in. intros p Hp. apply in_seq in Hp.
  replace (p - k) with (S (p - S k)) by lia. reflexivity.
Qed.
Lemma tbl_init : forall c, tbl c [] = concat (bodies c).
Proof.
  intros c. unfold tbl. cbn [memb existsb]. rewrite <- (fm_nth_seq_gen (bodies c) 0).
  apply flat_map_ext. intros p. now rewrite Nat.sub_0_r.
Qed.
Lemma total_init : forall c progs x, total c (init c progs) x = cnt x (submit_ids progs ++ concat (bodies c)).
Proof.
  intros c progs x. unfold total, rest_tok. cbn [init threads gq lqs finished started map]. rewrite tbl_init, cnt_app.
  assert (A : cnt x (flat_map q_tok (repeat empty_queue (nworkers c))) = 0) by (induction (nworkers c); cbn; auto).
  rewrite A. rewrite !flat_map_app, !cnt_app.
  assert (B : cnt x (flat_map thr_tok (map mk_ext progs)) = cnt x (submit_ids progs)).
  { unfold submit_ids. induction progs as [|p progs IH]; cbn; auto. rewrite !cnt_app, IH.
    unfold thr_tok, pend_ops, sub_ids. cbn. rewrite ?cnt_app. cbn. lia. }
  assert (C : forall l, cnt x (flat_map thr_tok (map mk_worker l)) = 0) by (induction l; cbn; auto).
  assert (D : cnt x (flat_map thr_tok (if has_balancer c then [mk_bal] else [])) = 0) by (destruct (has_balancer c); reflexivity).
  rewrite B, C, D. cbn. lia.
Qed.

Lemma ex_nodup_started : forall c progs s, NoDup (submit_ids progs ++ concat (bodies c)) -> Reach c progs s ->
  NoDup (map fst (started s)).
Proof.
  intros c progs s Hwf Hr. eapply ci_nodup. eapply ex_counts; eauto.
  intros x. rewrite total_init. apply nodup_cnt. exact Hwf.
Qed.


(* ======================================================================================== *)
(* only accepted tasks start                                                                  *)
Definition ticket_of (p : pc) : option (nat * item) :=
  match p with
  | EFill p it => Some (p, it)
  | EStopFill _ p => Some (p, IMark stop_marker_type)
  | WFill _ _ p ch => Some (p, IFun ch)
  | BFill _ p it => Some (p, it)
  | _ => None
  end.

Lemma ticket_dispatch : forall it, ticket_of (dispatch it) = None.
Proof. intros it. unfold dispatch. destruct (_ =? _)%Z; [destruct it; reflexivity|]. destruct (_ =? _)%Z; reflexivity. Qed.
Lemma held_dispatch : forall it id, In id (held_ids (dispatch it)) -> it = IFun id.
Proof.
  intros it id. destruct it as [i|c]; [rewrite dispatch_fun; cbn; intros [->|[]]; reflexivity|].
  rewrite held_dispatch_mark. intros [].
Qed.

Lemma step_acc : forall c s t s', step c s t = Some s' ->
  exists th th' og ol, nth_error (threads s) t = Some th /\ threads s' = set_nth t th' (threads s) /\
    gq_rel (gq s) (gq s') og /\ lq_rel s (lqs s') ol /\
    (forall id, In id (accepted s) -> In id (accepted s')) /\
    (forall p it, ticket_of (tpc th') = Some (p, it) -> ticket_of (tpc th) = Some (p, it) \/
                  (og = GApp it /\ p = length (slots (gq s)))) /\
    (forall p, og = GFill p -> exists it, ticket_of (tpc th) = Some (p, it) /\
                  forall id, it = IFun id -> In id (accepted s') \/ exists k, tpc th = BFill k p it) /\
    (forall w id, ol = LPush w id -> In id (accepted s')) /\
    (forall id, In id (held_ids (tpc th')) -> In id (held_ids (tpc th)) \/ (exists q, og = GPop q (IFun id)) \/
                  (exists k q', ol = LPop k (IFun id) q')) /\
    (forall k p id, tpc th' = BFill k p (IFun id) -> tpc th = BTake k (IFun id)).
Proof.
  intros c s t s' H. destr_step H; kill_gen; simp_st;
    rewrite ?stop_loop_eq; steal_cases; unfold after_sweep;
    repeat match goal with |- context [if ?b then _ else _] => destruct b eqn:? end;
    eexists; eexists;
    (first [ exists GSame; eexists; split; [reflexivity|]; split; [reflexivity|]; split; [reflexivity|]
           | eexists (GApp _); eexists; split; [reflexivity|]; split; [reflexivity|]; split; [reflexivity|]
           | eexists (GFill _); eexists; split; [reflexivity|]; split; [reflexivity|]; split; [reflexivity|]
           | exists GTake; eexists; split; [reflexivity|]; split; [reflexivity|]; split; [reflexivity|]
           | eexists (GPop _ _); eexists; split; [reflexivity|]; split; [reflexivity|]; split; [eassumption|] ]);
    (first [ instantiate (1 := LSame); split; [reflexivity|]
           | instantiate (1 := LPop _ _ _); split; [split; [eassumption|reflexivity]|]
           | instantiate (1 := LPush _ _); split; [reflexivity|] ]);
    repeat match goal with it : item |- _ => destruct it end;
    cbn [tpc trole goto next_op note_accept accepted];
    repeat match goal with H : tpc _ = _ |- _ => rewrite H end;
    rewrite ?ticket_dispatch;
    repeat split; intros;
    repeat match goal with
           | H : GPop _ _ = GPop _ _ |- _ => injection H as ? ?; subst
           | H : GApp _ = GApp _ |- _ => injection H as ?; subst
           | H : GFill _ = GFill _ |- _ => injection H as ?; subst
           | H : LPop _ _ _ = LPop _ _ _ |- _ => injection H as ? ? ?; subst
           | H : LPush _ _ = LPush _ _ |- _ => injection H as ? ?; subst
           | H : In _ (held_ids (dispatch _)) |- _ => apply held_dispatch in H; subst
           | H : Some _ = Some _ |- _ => inversion H; subst; clear H
           | H : IFun _ = IFun _ |- _ => injection H as ?; subst
           | H : BFill _ _ _ = BFill _ _ _ |- _ => inversion H; subst; clear H
           | H : dispatch ?i = BFill _ _ _ |- _ => exfalso; pose proof (dispatch_worker_pc 0 i) as X; rewrite H in X; discriminate
           end;
    cbn [ticket_of held_ids In] in *; rewrite ?In_ins;
    repeat match goal with H : Some _ = Some _ |- _ => inversion H; subst; clear H end;
    repeat match goal with
           | H : False |- _ => destruct H
           | H : _ \/ False |- _ => destruct H as [H|[]]
           end;
    subst; try discriminate; eauto 8;
    try (eexists; split; [reflexivity|]; intros ? Hx; first [discriminate Hx | injection Hx as <-; left; apply In_ins; auto]).
Qed.



Lemma items_rel : forall g g' o, gq_rel g g' o -> items g' = items g \/ exists it, o = GApp it /\ items g' = items g ++ [it].
Proof.
  intros g g' [|it|p| |q it] H; cbn in H; subst; auto.
  - right. exists it. split; auto. unfold items, app_slot; cbn. now rewrite map_app.
  - left. apply items_fill.
  - left. apply items_pop_ready in H. tauto.
Qed.
Lemma app_pend_inv : forall (l : list slot) x p y, nth_error (l ++ [SPend x]) p = Some y -> (forall z, y <> SPend z) ->
  nth_error l p = Some y.
Proof.
  intros l x p y H Hy. destruct (lt_dec p (length l)) as [Hlt|Hge]; [now rewrite nth_error_app1 in H|].
  rewrite nth_error_app2 in H by lia. destruct (p - length l) as [|k]; [|destruct k; discriminate].
  injection H as <-. exfalso. eapply Hy. reflexivity.
Qed.
Lemma try_pop_slots : forall q it q', try_pop q = Some (it, q') ->
  nth_error (slots q) (npop q) = Some (SFull it) /\ slots q' = set_nth (npop q) (SDone it) (slots q).
Proof.
  intros q it q' H. unfold try_pop in H. destruct (nth_error (slots q) (npop q)) as [[x|x|x]|] eqn:E; try discriminate.
  injection H as <- <-. auto.
Qed.
Lemma lq_of_in : forall s k x, In x (slots (lq_of s k)) -> In (lq_of s k) (lqs s).
Proof.
  intros s k x H. unfold lq_of in *. destruct (nth_in_or_default k (lqs s) empty_queue) as [Hin|Heq]; auto.
  rewrite Heq in H. destruct H.
Qed.

Record AccInv (s : st) : Prop := {
  a_tk : forall t th p it, nth_error (threads s) t = Some th -> ticket_of (tpc th) = Some (p, it) ->
         nth_error (items (gq s)) p = Some it;
  a_gq : forall p id, (nth_error (slots (gq s)) p = Some (SFull (IFun id)) \/ nth_error (slots (gq s)) p = Some (SDone (IFun id))) ->
         In id (accepted s);
  a_lq : forall q x id, In q (lqs s) -> In x (slots q) -> slot_item x = IFun id -> In id (accepted s);
  a_held : forall t th id, nth_error (threads s) t = Some th ->
           In id (held_ids (tpc th)) \/ (exists k p, tpc th = BFill k p (IFun id)) -> In id (accepted s);
  a_started : forall id, In id (map fst (started s)) -> In id (accepted s)
}.

Lemma ex_accepted : forall c progs s, Reach c progs s -> AccInv s.
Proof.
  intros c progs. apply (reach_ind c progs AccInv).
  - constructor.
    + intros t th p it H Hp. apply nth_error_In, init_threads_in in H.
      destruct H as [[_ E]|[(w0 & _ & E)|[_ E]]]; rewrite E in Hp; discriminate.
    + cbn. intros [|p] id [H|H]; discriminate.
    + cbn. intros q x id Hq. apply repeat_spec in Hq. subst. intros [].
    + intros t th id H Hp. apply nth_error_In, init_threads_in in H.
      destruct H as [[_ E]|[(w0 & _ & E)|[_ E]]]; rewrite E in Hp; destruct Hp as [[]|(k & p & X)]; discriminate.
    + cbn. intros id [].
  - intros s t s' Hr IH Hs.
    destruct (step_acc _ _ _ _ Hs) as (th & th' & og & ol & Hn & Ht & Hg & Hl & Hmono & Htk & Hfill & Hpush & Hheld & Hbf).
    assert (Hitems : forall p it, nth_error (items (gq s)) p = Some it -> nth_error (items (gq s')) p = Some it).
    { intros p it H. destruct (items_rel _ _ _ Hg) as [->|(x & _ & ->)]; auto. rewrite nth_error_app1; auto. eapply nth_error_lt; eauto. }
    constructor.
    + intros t0 th0 p it Hn0 Htk0. rewrite Ht in Hn0. apply nth_error_set_nth in Hn0. destruct Hn0 as [[-> ->]|[_ Hn0]].
      * destruct (Htk _ _ Htk0) as [Hold|[-> ->]]; [apply Hitems; eapply a_tk; eauto|].
        cbn in Hg. rewrite Hg. unfold items, app_slot; cbn. rewrite map_app, nth_error_app2, map_length, Nat.sub_diag; auto.
        rewrite map_length. lia.
      * apply Hitems. eapply a_tk; eauto.
    + intros p id Hsl. destruct og as [|x|p0| |q x]; cbn in Hg.
      * rewrite Hg in Hsl. apply Hmono. eapply a_gq; eauto.
      * rewrite Hg in Hsl. cbn in Hsl. apply Hmono. eapply (a_gq _ IH p).
        destruct Hsl as [H|H]; [left|right]; (eapply app_pend_inv; [exact H | intros z; discriminate]).
      * rewrite Hg in Hsl. destruct (fill_slots (gq s) p0) as [E|(y & Hy & E)]; rewrite E in Hsl.
        -- apply Hmono. eapply a_gq; eauto.
        -- destruct (Nat.eq_dec p0 p) as [->|Hne].
           ++ rewrite nth_error_set_nth_eq in Hsl by (eapply nth_error_lt; eauto).
              destruct Hsl as [H|H]; [|discriminate]. injection H as ->.
              destruct (Hfill _ eq_refl) as (it & Htk0 & Hacc).
              pose proof (a_tk _ IH _ _ _ _ Hn Htk0) as Hit. unfold items in Hit. rewrite nth_error_map, Hy in Hit. cbn in Hit.
              injection Hit as <-. destruct (Hacc _ eq_refl) as [X|(k & X)]; auto.
              apply Hmono. eapply a_held; eauto.
           ++ rewrite nth_error_set_nth_neq in Hsl by auto. apply Hmono. eapply a_gq; eauto.
      * rewrite Hg in Hsl. cbn in Hsl. apply Hmono. eapply a_gq; eauto.
      * apply pop_ready_inv in Hg. destruct Hg as (Hq & E & _). rewrite E in Hsl. destruct (Nat.eq_dec q p) as [->|Hne].
        -- rewrite nth_error_set_nth_eq in Hsl by (eapply nth_error_lt; eauto).
           destruct Hsl as [H|H]; [discriminate|]. injection H as ->. apply Hmono. eapply a_gq; eauto.
        -- rewrite nth_error_set_nth_neq in Hsl by auto. apply Hmono. eapply a_gq; eauto.
    + intros q x id Hq Hx Hit. destruct ol as [|k it q'|w id']; cbn in Hl.
      * rewrite Hl in Hq. apply Hmono. eapply a_lq; eauto.
      * destruct Hl as [Hp Hl']. rewrite Hl' in Hq. apply In_set_nth in Hq. destruct Hq as [->|Hq]; [|apply Hmono; eapply a_lq; eauto].
        destruct (try_pop_slots _ _ _ Hp) as [Hfull E]. rewrite E in Hx. apply In_set_nth in Hx. apply Hmono.
        destruct Hx as [->|Hx].
        -- cbn in Hit. subst it. apply nth_error_In in Hfull. eapply (a_lq _ IH (lq_of s k)); eauto using lq_of_in.
        -- eapply (a_lq _ IH (lq_of s k)); eauto using lq_of_in.
      * rewrite Hl in Hq. apply In_set_nth in Hq. destruct Hq as [->|Hq]; [|apply Hmono; eapply a_lq; eauto].
        cbn in Hx. apply in_app_or in Hx. destruct Hx as [Hx|[<-|[]]].
        -- apply Hmono. eapply (a_lq _ IH (lq_of s w)); eauto using lq_of_in.
        -- cbn in Hit. injection Hit as <-. eapply Hpush; eauto.
    + intros t0 th0 id Hn0 Hh. rewrite Ht in Hn0. apply nth_error_set_nth in Hn0. destruct Hn0 as [[-> ->]|[_ Hn0]].
      * destruct Hh as [Hh|(k & p & Hpc)].
        -- destruct (Hheld _ Hh) as [X|[(q & ->)|(k & q' & ->)]].
           ++ apply Hmono. eapply a_held; eauto.
           ++ cbn in Hg. apply pop_ready_inv in Hg. destruct Hg as (Hq & _). apply Hmono. eapply a_gq; eauto.
           ++ cbn in Hl. destruct Hl as [Hp _]. destruct (try_pop_slots _ _ _ Hp) as [Hfull _]. apply nth_error_In in Hfull.
              apply Hmono. eapply (a_lq _ IH (lq_of s k)); eauto using lq_of_in.
        -- apply Hmono. eapply (a_held _ IH _ th); [exact Hn|]. left. rewrite (Hbf _ _ _ Hpc). cbn. auto.
      * apply Hmono. eapply a_held; eauto.
    + intros id Hin. destruct (step_started _ _ _ _ Hs) as [E|(th1 & id0 & w & Hn1 & _ & Hpc & E)]; rewrite E in Hin.
      * apply Hmono. eapply a_started; eauto.
      * rewrite map_app in Hin. apply in_app_or in Hin. destruct Hin as [Hin|[<-|[]]].
        -- apply Hmono. eapply a_started; eauto.
        -- apply Hmono. eapply (a_held _ IH _ th1); [exact Hn1|]. left. rewrite Hpc. cbn. auto.
Qed.

Lemma ex_started_accepted : forall c progs s id w, Reach c progs s -> In (id, w) (started s) -> In id (accepted s).
Proof.
  intros c progs s id w Hr Hin. eapply a_started; [eapply ex_accepted; eauto|]. apply in_map_iff. exists (id, w). auto.
Qed.

(* exactly once, part 1: a task starts at most once, only if its submission was accepted, and on a worker *)
Lemma ex_run_once : forall c progs s, NoDup (submit_ids progs ++ concat (bodies c)) -> Reach c progs s ->
  NoDup (map fst (started s)) /\ (forall id w, In (id, w) (started s) -> In id (accepted s) /\ w < nworkers c).
Proof.
  intros c progs s Hwf Hr. split; [eapply ex_nodup_started; eauto|].
  intros id w Hin. split; [eapply ex_started_accepted; eauto | eapply ex_started_on_worker; eauto].
Qed.

(* ======================================================================================== *)
(* refused submissions: enqueue_task reports success on both of its paths (regenerated results), so the pool
   never refuses; a submission that had been refused would be one that never starts *)
Lemma step_refused : forall c s t s', step c s t = Some s' -> refused s' = refused s.
Proof.
  intros c s t s' H. destr_step H; simp_st;
    repeat match goal with |- context [note_accept _ ?i _] => is_var i; destruct i end; reflexivity.
Qed.
Lemma ex_none_refused : forall c progs s, Reach c progs s -> refused s = [].
Proof.
  intros c progs. apply (reach_ind c progs (fun s => refused s = [])); [reflexivity|].
  intros s t s' _ IH Hs. now rewrite (step_refused _ _ _ _ Hs).
Qed.
Lemma ex_failed_never_runs : forall c progs s id, Reach c progs s -> In id (refused s) -> ~ In id (map fst (started s)).
Proof. intros c progs s id Hr Hin. rewrite (ex_none_refused _ _ _ Hr) in Hin. destruct Hin. Qed.

(* ======================================================================================== *)
(* at most one task is taken per steal scan: the callback passed to for_each is invoked once per storage block and
   begins with the regenerated guard `if (steal_success) return;`, so after a successful try_pop every later block
   is skipped and the stolen task is dispatched - it is never overwritten by a second steal or by the global pop *)
Lemma dispatch_not_held : forall it r cu it0, dispatch it <> WStealHeld r cu it0.
Proof. intros it r cu it0. unfold dispatch. destruct (_ =? _)%Z; [destruct it; discriminate|]. destruct (_ =? _)%Z; discriminate. Qed.
Lemma step_no_held : forall c s t s', step c s t = Some s' ->
  exists th th', nth_error (threads s) t = Some th /\ threads s' = set_nth t th' (threads s) /\
                 forall r cu it, tpc th' <> WStealHeld r cu it.
Proof.
  intros c s t s' H. destr_step H; kill_gen; simp_st;
    rewrite ?stop_loop_eq; steal_cases; unfold after_sweep;
    repeat match goal with |- context [if ?b then _ else _] => destruct b eqn:? end;
    eexists; eexists; (split; [reflexivity|]; split; [reflexivity|]);
    intros r0 cu0 it0; cbn [tpc goto next_op]; try discriminate; apply dispatch_not_held.
Qed.
Lemma ex_one_task_per_scan : forall c progs s, Reach c progs s ->
  forall t th r cu it, nth_error (threads s) t = Some th -> tpc th <> WStealHeld r cu it.
Proof.
  intros c progs. apply (reach_ind c progs (fun s => forall t th r cu it, nth_error (threads s) t = Some th -> tpc th <> WStealHeld r cu it)).
  - intros t th r cu it H Hp. apply nth_error_In, init_threads_in in H.
    destruct H as [[_ E]|[(w0 & _ & E)|[_ E]]]; rewrite E in Hp; discriminate.
  - intros s t s' _ IH Hs t0 th0 r cu it Hn0.
    destruct (step_no_held _ _ _ _ Hs) as (th & th' & Hn & Ht & Hno).
    rewrite Ht in Hn0. apply nth_error_set_nth in Hn0. destruct Hn0 as [[-> ->]|[_ Hn0]]; eauto.
Qed.

(* non-vacuity: one worker, local capacity 1, task 0 spawns task 1; submit 0 then stop() *)
Definition demo_cfg : config :=
  {| nworkers := 1; gcap := 1; lcap := 1; stealing := 0; interval := -1; bodies := [[1]; []]; blocks := [[0]] |}.
Definition demo_progs : list (list op) := [[OSubmit 0; OStop]].
Definition demo_sched : list nat := concat (repeat [0; 1] 30).
Lemma ex_demo : let s := run st (step demo_cfg) (init demo_cfg demo_progs) demo_sched in
  stop_returned s = true /\ finished s = [0; 1] /\ map fst (started s) = [0; 1] /\ acc_local s = [1] /\ acc_before s = [0].
Proof. vm_compute. repeat split; reflexivity. Qed.
Lemma ex_demo_reach : Reach demo_cfg demo_progs (run st (step demo_cfg) (init demo_cfg demo_progs) demo_sched).
Proof. exists demo_sched. reflexivity. Qed.
Lemma ex_demo_wf : 1 <= nworkers demo_cfg /\ NoDup (submit_ids demo_progs ++ concat (bodies demo_cfg)).
Proof. split; [cbn; lia|]. cbn. repeat constructor; cbn; intuition discriminate. Qed.
