(* Proofs about EXModel (property C07).  Reach c progs s = s is reachable from the initial state of the
   configuration c and the client programs progs under SOME schedule. *)
From Coq Require Import ZArith List Bool Arith Lia.
Require Import Verif.Base.Atomics Verif.Gen.Gen_executor Verif.Conc.Machine Verif.EX.EXModel.
Import ListNotations.

Definition Reach (c : config) (progs : list (list op)) (s : st) : Prop := reachable st (step c) (init c progs) s.

(* ======================================================================================== *)
(* facts about the regenerated decision expressions (the only place their bodies are used)   *)
Lemma gen_stop_is_exit : stop_marker_type = worker_exits_on. Proof. reflexivity. Qed.
Lemma gen_wake_not_exit : wakeup_marker_type <> worker_exits_on. Proof. discriminate. Qed.
Lemma gen_fun_is_run : invoke_task_type = worker_runs_on. Proof. reflexivity. Qed.
Lemma gen_run_not_exit : worker_runs_on <> worker_exits_on. Proof. discriminate. Qed.
Lemma gen_push_more : forall i n, stop_push_more i n = (i <? n)%Z. Proof. reflexivity. Qed.
Lemma gen_first_marker : stop_first_marker = 0%Z. Proof. reflexivity. Qed.
Lemma gen_stop_early : stop_returns_early 1 = false /\ stop_returns_early 0 = true. Proof. split; reflexivity. Qed.
Lemma gen_balance_continues : balance_continues 1 = true /\ balance_continues 0 = false. Proof. split; reflexivity. Qed.
Lemma gen_local_first : worker_local_first 0 = true /\ worker_local_first 1 = false. Proof. split; reflexivity. Qed.
Lemma gen_pop_needed : global_pop_needed 0 = true /\ global_pop_needed 1 = false. Proof. split; reflexivity. Qed.
Lemma gen_local_room : forall sz l, local_enabled l && local_has_room sz l = true -> (sz < l)%Z.
Proof. intros sz l H. apply andb_prop in H. destruct H as [_ H]. unfold local_has_room in H. now apply Z.ltb_lt in H. Qed.
Lemma gen_refusal : execute_failed base_invoke_result = true /\ execute_failed enqueue_result = false /\
                    execute_failed enqueue_local_result = false.
Proof. repeat split; reflexivity. Qed.

Definition orders_ok : bool :=
  match sites_start, sites_stop, sites_keep_balance, sites_newthread_invoke, sites_newthread_join with
  | [(KLoad, a1, _); (KStore, a2, _)], [(KLoad, b1, _); (KStore, b2, _)], [(KLoad, c1, _)],
    [(KFadd, d1, _); (KFsub, d2, _)], [(KLoad, e1, _)] =>
    has_acquire a1 && has_release a2 && has_acquire b1 && has_release b2 && has_acquire c1 &&
    has_release d1 && has_release d2 && has_acquire e1
  | _, _, _, _, _ => false
  end.
Lemma ex_orders_ok : orders_ok = true. Proof. vm_compute. reflexivity. Qed.

(* ======================================================================================== *)
(* lists                                                                                      *)
Lemma set_nth_length : forall A (l : list A) n x, length (set_nth n x l) = length l.
Proof. induction l as [|y l IH]; intros [|n] x; cbn; auto. Qed.
Lemma nth_error_set_nth_eq : forall A (l : list A) n x, n < length l -> nth_error (set_nth n x l) n = Some x.
Proof. induction l as [|y l IH]; intros [|n] x H; cbn in *; try lia; auto. apply IH. lia. Qed.
Lemma nth_error_set_nth_neq : forall A (l : list A) n m x, n <> m -> nth_error (set_nth n x l) m = nth_error l m.
Proof. induction l as [|y l IH]; intros [|n] [|m] x H; cbn; auto; try congruence. Qed.
Lemma nth_error_set_nth : forall A (l : list A) n m x y, nth_error (set_nth n x l) m = Some y ->
  (n = m /\ y = x) \/ (n <> m /\ nth_error l m = Some y).
Proof.
  intros A l n m x y H. destruct (Nat.eq_dec n m) as [->|Hne].
  - left. split; auto. assert (m < length l).
    { apply nth_error_Some_lt in H || (assert (nth_error (set_nth m x l) m <> None) by congruence). rewrite <- (set_nth_length _ l m x). apply nth_error_Some. congruence. }
    rewrite nth_error_set_nth_eq in H by auto. congruence.
  - right. split; auto. now rewrite nth_error_set_nth_neq in H.
Qed.
Lemma map_set_nth : forall A B (f : A -> B) l n x, map f (set_nth n x l) = set_nth n (f x) (map f l).
Proof. induction l as [|y l IH]; intros [|n] x; cbn; auto. now rewrite IH. Qed.
Lemma set_nth_same : forall A (l : list A) n y, nth_error l n = Some y -> set_nth n y l = l.
Proof. induction l as [|z l IH]; intros [|n] y H; cbn in *; try congruence. now rewrite IH. Qed.
Lemma nth_error_lt : forall A (l : list A) n y, nth_error l n = Some y -> n < length l.
Proof. intros. apply nth_error_Some. congruence. Qed.

Lemma In_ins : forall x y l, In x (ins y l) <-> x = y \/ In x l.
Proof.
  induction l as [|z l IH]; cbn; [intuition|]. destruct (y <=? z); cbn; [intuition|]. rewrite IH. intuition.
Qed.

(* ======================================================================================== *)
(* case analysis of one step                                                                  *)
Ltac destr_step H :=
  unfold step, step_ext, step_worker, step_bal, take_push, take_pop in H;
  repeat match type of H with
         | context [match ?x with _ => _ end] => let E := fresh "E" in destruct x eqn:E; try discriminate H
         end;
  try discriminate H; inversion H; subst; clear H.

(* every step changes exactly the stepping thread, keeps its role, the thread layout and the queue count *)
Lemma step_shape : forall c s t s', step c s t = Some s' ->
  exists th th', nth_error (threads s) t = Some th /\ threads s' = set_nth t th' (threads s) /\
                 trole th' = trole th /\ nex s' = nex s /\ length (lqs s') = length (lqs s).
Proof.
  intros c s t s' H. destr_step H; unfold stop_join_next, note_accept;
    repeat match goal with
           | |- context [if ?b then _ else _] => destruct b
           | |- context [match ?b with _ => _ end] => destruct b
           end;
    (eexists; eexists; split; [first [reflexivity | eassumption]|]; cbn; rewrite ?set_nth_length; auto).
Qed.

(* ======================================================================================== *)
(* thread layout: roles never change                                                          *)
Definition roles (c : config) (progs : list (list op)) : list role := map trole (threads (init c progs)).
Definition Layout (c : config) (progs : list (list op)) (s : st) : Prop :=
  map trole (threads s) = roles c progs /\ nex s = length progs /\ length (lqs s) = nworkers c.

Lemma layout_reach : forall c progs s, Reach c progs s -> Layout c progs s.
Proof.
  intros c progs. apply inv_reachable.
  - repeat split; cbn. now rewrite repeat_length.
  - intros s t s' [H1 [H2 H3]] Hs. destruct (step_shape _ _ _ _ Hs) as (th & th' & Hn & Ht & Hr & Hx & Hl).
    repeat split; try congruence. rewrite Ht, map_set_nth, Hr, set_nth_same; auto.
    now rewrite nth_error_map, Hn.
Qed.

Lemma roles_eq : forall c progs, roles c progs =
  repeat RExt (length progs) ++ map RWorker (seq 0 (nworkers c)) ++ (if has_balancer c then [RBal] else []).
Proof.
  intros. unfold roles, init; cbn. rewrite !map_app, !map_map. cbn. f_equal; [|f_equal].
  - induction progs; cbn; congruence.
  - now destruct (has_balancer c).
Qed.

Lemma role_at : forall c progs s t th, Layout c progs s -> nth_error (threads s) t = Some th ->
  match trole th with
  | RExt => t < length progs
  | RWorker w => t = length progs + w /\ w < nworkers c
  | RBal => t = length progs + nworkers c /\ has_balancer c = true
  end.
Proof.
  intros c progs s t th [H _] Hn. assert (Hr : nth_error (roles c progs) t = Some (trole th)).
  { rewrite <- H, nth_error_map, Hn. reflexivity. }
  rewrite roles_eq in Hr. destruct (lt_dec t (length progs)) as [Hlt|Hge].
  - rewrite nth_error_app1 in Hr by now rewrite repeat_length.
    apply nth_error_In, repeat_spec in Hr. now rewrite Hr.
  - rewrite nth_error_app2 in Hr by (rewrite repeat_length; lia). rewrite repeat_length in Hr.
    destruct (lt_dec (t - length progs) (nworkers c)) as [Hlt2|Hge2].
    + rewrite nth_error_app1 in Hr by now rewrite map_length, seq_length.
      rewrite nth_error_map in Hr. destruct (nth_error (seq 0 (nworkers c)) (t - length progs)) eqn:E; [|discriminate].
      cbn in Hr. injection Hr as <-. apply nth_error_nth with (d := 0) in E. rewrite seq_nth in E by auto. lia.
    + rewrite nth_error_app2 in Hr by (rewrite map_length, seq_length; lia). rewrite map_length, seq_length in Hr.
      destruct (has_balancer c); [|destruct (t - length progs - nworkers c); discriminate].
      destruct (t - length progs - nworkers c) as [|k] eqn:E; cbn in Hr; [|destruct k; discriminate].
      injection Hr as <-. split; auto. lia.
Qed.

(* ======================================================================================== *)
(* tasks start only on worker threads (inside the RunnerScope opened by keep_execute)          *)
Lemma step_started : forall c s t s', step c s t = Some s' ->
  started s' = started s \/
  exists th id w, nth_error (threads s) t = Some th /\ trole th = RWorker w /\ tpc th = WBegin id /\
                  started s' = started s ++ [(id, w)].
Proof.
  intros c s t s' H. destr_step H; unfold stop_join_next, note_accept;
    repeat match goal with
           | |- context [if ?b then _ else _] => destruct b
           | |- context [match ?b with _ => _ end] => destruct b
           end; cbn; auto.
  right. eauto 8.
Qed.

(* induction over reachable states with reachability of the predecessor available *)
Lemma reach_ind : forall c progs (P : st -> Prop), P (init c progs) ->
  (forall s t s', Reach c progs s -> P s -> step c s t = Some s' -> P s') ->
  forall s, Reach c progs s -> P s.
Proof.
  intros c progs P H0 Hstep s Hr.
  enough (Reach c progs s /\ P s) by tauto. revert s Hr. apply inv_reachable.
  - split; [exists []; reflexivity | exact H0].
  - intros s t s' [Hr Hp] Hs. split; [eapply reachable_step; eauto | eauto].
Qed.

Lemma ex_started_on_worker : forall c progs s id w, Reach c progs s -> In (id, w) (started s) -> w < nworkers c.
Proof.
  intros c progs s id w Hr. revert id w. pattern s. revert s Hr. apply reach_ind.
  - intros ? ? [].
  - intros s t s' Hr IH Hs.
    destruct (step_started _ _ _ _ Hs) as [->|(th & id0 & w0 & Hn & Hrole & _ & ->)]; auto.
    intros id w Hin. apply in_app_or in Hin. destruct Hin as [Hin|[Heq|[]]]; eauto.
    injection Heq as <- <-. pose proof (role_at _ _ _ _ _ (layout_reach _ _ _ Hr) Hn) as R. rewrite Hrole in R. tauto.
Qed.

(* ======================================================================================== *)
(* projections of the ghost updates                                                           *)
Lemma na_threads : forall s it b, threads (note_accept s it b) = threads s. Proof. intros s [|] b; reflexivity. Qed.
Lemma na_gq : forall s it b, gq (note_accept s it b) = gq s. Proof. intros s [|] b; reflexivity. Qed.
Lemma na_lqs : forall s it b, lqs (note_accept s it b) = lqs s. Proof. intros s [|] b; reflexivity. Qed.
Lemma na_nex : forall s it b, nex (note_accept s it b) = nex s. Proof. intros s [|] b; reflexivity. Qed.
Lemma na_running : forall s it b, running (note_accept s it b) = running s. Proof. intros s [|] b; reflexivity. Qed.
Lemma na_started : forall s it b, started (note_accept s it b) = started s. Proof. intros s [|] b; reflexivity. Qed.
Lemma na_finished : forall s it b, finished (note_accept s it b) = finished s. Proof. intros s [|] b; reflexivity. Qed.
Lemma na_stop_called : forall s it b, stop_called (note_accept s it b) = stop_called s. Proof. intros s [|] b; reflexivity. Qed.
Lemma na_stop_returned : forall s it b, stop_returned (note_accept s it b) = stop_returned s. Proof. intros s [|] b; reflexivity. Qed.

Ltac simp_st :=
  unfold stop_join_next in *;
  repeat match goal with
         | |- context [if ?b then set_thread _ _ _ else _] => destruct b eqn:?
         | H : context [if ?b then set_thread _ _ _ else _] |- _ => destruct b eqn:?
         end;
  cbn [threads gq lqs running nex started finished accepted acc_before acc_local stop_called stop_returned log_at_stop
       set_thread set_gq set_lq set_running note_start note_finish note_stop_called note_stop_returned
       trole tpc prog opi goto next_op] in *;
  rewrite ?na_threads, ?na_gq, ?na_lqs, ?na_nex, ?na_running, ?na_started, ?na_finished, ?na_stop_called,
          ?na_stop_returned in *;
  cbn [threads gq lqs running nex started finished accepted acc_before acc_local stop_called stop_returned log_at_stop
       set_thread set_gq set_lq set_running note_start note_finish note_stop_called note_stop_returned
       trole tpc prog opi goto next_op] in *.

(* a thread of the successor state is the stepping thread with its new pc, or an untouched one *)
Ltac split_thread Hn :=
  apply nth_error_set_nth in Hn; destruct Hn as [[? ?]|[? Hn]]; subst.

Definition stop_pc (p : pc) : bool :=
  match p with EStopStore | EStopJoinBal | EStopPush _ | EStopFill _ _ | EStopJoin _ => true | _ => false end.
Definition phase1 (p : pc) : bool := match p with EStopPush _ | EStopFill _ _ | EStopJoin _ => true | _ => false end.
Definition role_pc_ok (r : role) (p : pc) : bool :=
  match r, p with
  | RExt, (EIdle | EFill _ _ | EStopStore | EStopJoinBal | EStopPush _ | EStopFill _ _ | EStopJoin _) => true
  | RWorker _, (WLoop | WSteal _ | WTake | WPop _ | WBegin _ | WRun _ _ | WGTake _ _ _ | WFill _ _ _ _ | WExit) => true
  | RBal, (BCheck | BSweep _ | BTake _ _ | BFill _ _ _ | BExit) => true
  | _, _ => false
  end.

Lemma dispatch_worker_pc : forall w it, role_pc_ok (RWorker w) (dispatch it) = true.
Proof. intros w it. unfold dispatch. destruct (item_code it =? worker_runs_on)%Z; [destruct it; reflexivity|]. destruct (_ =? _)%Z; reflexivity. Qed.

Lemma init_threads_in : forall c progs th, In th (threads (init c progs)) ->
  (trole th = RExt /\ tpc th = EIdle) \/ (exists w, trole th = RWorker w /\ tpc th = WLoop) \/ (trole th = RBal /\ tpc th = BCheck).
Proof.
  intros c progs th H. cbn in H. apply in_app_or in H. destruct H as [H|H].
  - apply in_map_iff in H. destruct H as (p & <- & _). auto.
  - apply in_app_or in H. destruct H as [H|H].
    + apply in_map_iff in H. destruct H as (w & <- & _). right. left. exists w. split; reflexivity.
    + destruct (has_balancer c); [|destruct H]. destruct H as [<-|[]]. auto.
Qed.

Lemma ex_role_pc : forall c progs s, Reach c progs s ->
  forall t th, nth_error (threads s) t = Some th -> role_pc_ok (trole th) (tpc th) = true.
Proof.
  intros c progs. apply (reach_ind c progs (fun s => forall t th, nth_error (threads s) t = Some th -> role_pc_ok (trole th) (tpc th) = true)).
  - intros t th H. apply nth_error_In, init_threads_in in H. destruct H as [[-> ->]|[(w & -> & ->)|[-> ->]]]; reflexivity.
  - intros s t s' _ IH Hs t0 th0 Hn. destr_step Hs; simp_st; split_thread Hn; eauto; cbn;
      repeat match goal with H : trole _ = _ |- _ => rewrite H end; auto using dispatch_worker_pc;
      unfold stop_loop, after_steal, after_sweep;
      repeat match goal with |- context [if ?b then _ else _] => destruct b end; auto.
Qed.

(* ======================================================================================== *)
(* items recorded in the slots never change; STOP markers                                     *)
Definition slot_item (x : slot) : item := match x with SPend it | SFull it | SDone it => it end.
Definition items (q : queue) : list item := map slot_item (slots q).
Definition is_stop (it : item) : bool := (item_code it =? worker_exits_on)%Z.
Definition nostop (q : queue) : bool := forallb (fun it => negb (is_stop it)) (items q).

Lemma items_fill : forall q p, items (fill q p) = items q.
Proof.
  intros q p. unfold items, fill; cbn. destruct (nth_error (slots q) p) as [[it|it|it]|] eqn:E; auto.
  rewrite map_set_nth. apply set_nth_same. rewrite nth_error_map, E. reflexivity.
Qed.
Lemma items_pop_ready : forall q k it q', pop_ready q k = Some (it, q') -> items q' = items q /\ npop q' = npop q.
Proof.
  intros q k it q' H. unfold pop_ready in H. destruct (nth_error (slots q) k) as [[x|x|x]|] eqn:E; try discriminate.
  injection H as <- <-. split; auto. unfold items; cbn. rewrite map_set_nth. apply set_nth_same. rewrite nth_error_map, E. reflexivity.
Qed.
Lemma nostop_app : forall q it, nostop {| slots := slots q ++ [SPend it]; npop := npop q |} = nostop q && negb (is_stop it).
Proof. intros. unfold nostop, items; cbn. rewrite map_app, forallb_app. cbn. now rewrite andb_true_r. Qed.
Lemma nostop_npop : forall q n, nostop {| slots := slots q; npop := n |} = nostop q.
Proof. reflexivity. Qed.
Lemma nostop_fill : forall q p, nostop (fill q p) = nostop q.
Proof. intros. unfold nostop. now rewrite items_fill. Qed.
Lemma nostop_pop_ready : forall q k it q', pop_ready q k = Some (it, q') -> nostop q' = nostop q.
Proof. intros q k it q' H. unfold nostop. apply items_pop_ready in H. now rewrite (proj1 H). Qed.
Lemma fun_not_stop : forall id, is_stop (IFun id) = false. Proof. reflexivity. Qed.
Lemma wake_not_stop : is_stop (IMark wakeup_marker_type) = false. Proof. reflexivity. Qed.
Lemma marker_is_stop : is_stop (IMark stop_marker_type) = true. Proof. reflexivity. Qed.


(* ======================================================================================== *)
(* stop(): a thread inside stop() has set stop_called                                         *)
Lemma stop_pc_dispatch : forall it, stop_pc (dispatch it) = false.
Proof. intros it. unfold dispatch. destruct (_ =? _)%Z; [destruct it; reflexivity|]. destruct (_ =? _)%Z; reflexivity. Qed.

Ltac by_old IH := eapply IH; [eassumption | match goal with H : tpc _ = _ |- _ => rewrite H; reflexivity end].

Lemma ex_stop_called : forall c progs s, Reach c progs s ->
  (forall t th, nth_error (threads s) t = Some th -> stop_pc (tpc th) = true -> stop_called s = true) /\
  (stop_returned s = true -> stop_called s = true).
Proof.
  intros c progs. apply (reach_ind c progs (fun s =>
    (forall t th, nth_error (threads s) t = Some th -> stop_pc (tpc th) = true -> stop_called s = true) /\
    (stop_returned s = true -> stop_called s = true))).
  - split; [|discriminate]. intros t th H Hp. apply nth_error_In, init_threads_in in H.
    destruct H as [[_ E]|[(w & _ & E)|[_ E]]]; rewrite E in Hp; discriminate.
  - intros s t s' _ [IH1 IH2] Hs.
    destr_step Hs; simp_st; (split; [intros tx thx Hn Hp; split_thread Hn; eauto; cbn in Hp; rewrite ?stop_pc_dispatch in Hp;
      unfold after_steal, after_sweep in *; repeat match type of Hp with context [if ?b then _ else _] => destruct b end;
      try discriminate; try reflexivity; by_old IH1 | ]);
      try (intros Hret; first [reflexivity | now auto | by_old IH1]).
Qed.



(* ======================================================================================== *)
(* one case analysis of `step` for the facts the stop()-sequencing invariants need            *)
Lemma phase1_dispatch : forall it, phase1 (dispatch it) = false.
Proof. intros it. unfold dispatch. destruct (_ =? _)%Z; [destruct it; reflexivity|]. destruct (_ =? _)%Z; reflexivity. Qed.
Lemma dispatch_not_join : forall it k, dispatch it <> EStopJoin k.
Proof. intros it k. unfold dispatch. destruct (_ =? _)%Z; [destruct it; discriminate|]. destruct (_ =? _)%Z; discriminate. Qed.

Definition markers_begun (s : st) : Prop :=
  stop_returned s = true \/ exists t th, nth_error (threads s) t = Some th /\ phase1 (tpc th) = true.

Lemma step_facts : forall c s t s', step c s t = Some s' ->
  exists th th', nth_error (threads s) t = Some th /\ threads s' = set_nth t th' (threads s) /\ trole th' = trole th /\
    nex s' = nex s /\
    (stop_returned s = true -> stop_returned s' = true) /\
    (stop_returned s' = true -> stop_returned s = true \/ phase1 (tpc th) = true) /\
    (phase1 (tpc th) = true -> phase1 (tpc th') = true \/ stop_returned s' = true) /\
    (phase1 (tpc th') = true -> phase1 (tpc th) = true \/ (has_balancer c = false /\ trole th = RExt) \/
                                (pc_of s (bal_tid c s) = Some BExit /\ trole th = RExt)) /\
    tpc th <> BExit /\ tpc th <> WExit /\
    (nostop (gq s) = true -> nostop (gq s') = true \/ phase1 (tpc th') = true \/
                             exists k it, tpc th = BTake k it /\ is_stop it = true) /\
    (lqs s' = lqs s \/ (exists k it q', try_pop (lq_of s k) = Some (it, q') /\ lqs s' = set_nth k q' (lqs s)) \/
                       (exists w id, lqs s' = set_nth w (local_push (lq_of s w) (IFun id)) (lqs s))) /\
    (forall k it, tpc th' = BTake k it -> exists q', try_pop (lq_of s k) = Some (it, q')) /\
    (forall k p it, tpc th' = BFill k p it -> tpc th = BTake k it) /\
    (forall k', tpc th' = EStopJoin k' -> k' = 0 \/ exists k, k' = S k /\ tpc th = EStopJoin k /\ pc_of s (worker_tid s k) = Some WExit) /\
    (stop_returned s' = true -> stop_returned s = true \/ nworkers c = 0 \/
        exists k, tpc th = EStopJoin k /\ pc_of s (worker_tid s k) = Some WExit /\ nworkers c <= S k).
Proof.
  intros c s t s' H. destr_step H; simp_st;
    (eexists; eexists; split; [first [reflexivity | eassumption]|]; split; [reflexivity|]; split; [reflexivity|]; split; [reflexivity|]);
    cbn [tpc trole goto next_op];
    repeat match goal with H : tpc _ = _ |- _ => rewrite H end;
    rewrite ?phase1_dispatch, ?nostop_app, ?nostop_fill, ?fun_not_stop, ?wake_not_stop, ?andb_true_r;
    unfold stop_loop, after_steal, after_sweep;
    repeat match goal with |- context [if ?b then _ else _] => destruct b eqn:? end;
    cbn [phase1];
    repeat split; try discriminate; try (intros; discriminate); auto; try tauto.
  all: try (intros k' Hk; injection Hk as <-; auto; fail).
  all: try (intros k' Hk; injection Hk as <-; right; eexists; repeat split; eauto; fail).
  all: try (intros k' Hk; exfalso; eapply dispatch_not_join; eauto; fail).
  all: try (intros _; right; left; now apply Nat.eqb_eq).
  all: try (intros _; right; right; eexists; repeat split; eauto; now apply Nat.ltb_ge).
  all: try (intros Hn; left; erewrite nostop_pop_ready; eauto; fail).
  all: try (intros Hn; rewrite Hn; cbn; destruct (is_stop _) eqn:Es; cbn; eauto 6; fail).
  all: try (intros ? ? Hk; inversion Hk; subst; eauto; fail).
  all: try (intros ? ? ? Hk; inversion Hk; subst; eauto; fail).
  all: try (right; left; eauto 6; fail).
  all: try (right; right; eauto 6; fail).
  all: try (intros ? ? Hk; match type of Hk with dispatch ?i = _ => pose proof (dispatch_worker_pc 0 i) as X; rewrite Hk in X; discriminate end).
  all: try (intros ? ? ? Hk; match type of Hk with dispatch ?i = _ => pose proof (dispatch_worker_pc 0 i) as X; rewrite Hk in X; discriminate end).
Qed.


(* ======================================================================================== *)
(* local queues only ever hold FUNCTION tasks, so does the balance thread                     *)
Definition fun_item (it : item) : Prop := exists id, it = IFun id.
Definition lq_funs (q : queue) : Prop := forall x, In x (slots q) -> fun_item (slot_item x).

Lemma In_set_nth : forall A (l : list A) n x y, In y (set_nth n x l) -> y = x \/ In y l.
Proof. induction l as [|z l IH]; intros [|n] x y H; cbn in *; auto; destruct H; auto. apply IH in H. tauto. Qed.
Lemma Forall_set_nth : forall A (P : A -> Prop) l n x, Forall P l -> P x -> Forall P (set_nth n x l).
Proof. induction l as [|z l IH]; intros [|n] x Hl Hx; cbn; auto; inversion Hl; subst; constructor; auto. Qed.
Lemma lq_of_funs : forall s k, Forall lq_funs (lqs s) -> lq_funs (lq_of s k).
Proof.
  intros s k H. unfold lq_of. destruct (nth_in_or_default k (lqs s) empty_queue) as [Hin|Heq].
  - rewrite Forall_forall in H. auto.
  - rewrite Heq. intros x [].
Qed.
Lemma try_pop_funs : forall q it q', try_pop q = Some (it, q') -> lq_funs q -> fun_item it /\ lq_funs q'.
Proof.
  intros q it q' H Hq. unfold try_pop in H. destruct (nth_error (slots q) (npop q)) as [[x|x|x]|] eqn:E; try discriminate.
  injection H as <- <-. pose proof (Hq _ (nth_error_In _ _ E)) as Hx. split; auto.
  intros y Hy. cbn in Hy. apply In_set_nth in Hy. destruct Hy as [->|Hy]; auto.
Qed.
Lemma local_push_funs : forall q id, lq_funs q -> lq_funs (local_push q (IFun id)).
Proof. intros q id Hq x Hx. cbn in Hx. apply in_app_or in Hx. destruct Hx as [Hx|[<-|[]]]; auto. exists id. reflexivity. Qed.

Lemma ex_local_funs : forall c progs s, Reach c progs s ->
  Forall lq_funs (lqs s) /\
  (forall t th k it, nth_error (threads s) t = Some th -> tpc th = BTake k it -> fun_item it).
Proof.
  intros c progs. apply (reach_ind c progs (fun s => Forall lq_funs (lqs s) /\
    (forall t th k it, nth_error (threads s) t = Some th -> tpc th = BTake k it -> fun_item it))).
  - split.
    + cbn. apply Forall_forall. intros q Hq. apply repeat_spec in Hq. subst. intros x [].
    + intros t th k it H Hp. apply nth_error_In, init_threads_in in H.
      destruct H as [[_ E]|[(w & _ & E)|[_ E]]]; rewrite E in Hp; discriminate.
  - intros s t s' _ [IH1 IH2] Hs.
    destruct (step_facts _ _ _ _ Hs) as (th & th' & Hn & Ht & _ & _ & _ & _ & _ & _ & _ & _ & _ & Hl & Hbt & _).
    split.
    + destruct Hl as [->|[(k & it & q' & Hp & ->)|(w & id & ->)]]; auto.
      * apply Forall_set_nth; auto. eapply try_pop_funs; eauto using lq_of_funs.
      * apply Forall_set_nth; auto. apply local_push_funs. auto using lq_of_funs.
    + intros t0 th0 k it Hn0 Hp. rewrite Ht in Hn0. apply nth_error_set_nth in Hn0. destruct Hn0 as [[-> ->]|[_ Hn0]]; eauto.
      destruct (Hbt _ _ Hp) as (q' & Hq'). eapply try_pop_funs; eauto using lq_of_funs.
Qed.

(* ======================================================================================== *)
(* once a marker may have been pushed the balance thread has exited                           *)
Lemma ex_bal_exited : forall c progs s, Reach c progs s -> markers_begun s ->
  forall t th, nth_error (threads s) t = Some th -> trole th = RBal -> tpc th = BExit.
Proof.
  intros c progs. apply (reach_ind c progs (fun s => markers_begun s ->
    forall t th, nth_error (threads s) t = Some th -> trole th = RBal -> tpc th = BExit)).
  - intros [H|(t & th & H & Hp)]; [discriminate|]. apply nth_error_In, init_threads_in in H.
    destruct H as [[_ E]|[(w & _ & E)|[_ E]]]; rewrite E in Hp; discriminate.
  - intros s t s' Hr IH Hs Hb tb thb Hnb Hrb. pose proof (layout_reach _ _ _ Hr) as Hlay.
    destruct (step_facts _ _ _ _ Hs) as (th & th' & Hn & Ht & Hrole & Hnex & _ & Hret & _ & Hph & Hnb1 & _).
    rewrite Ht in Hnb.
    assert (Hcases : markers_begun s \/ (has_balancer c = false /\ trole th = RExt) \/
                     (pc_of s (bal_tid c s) = Some BExit /\ trole th = RExt)).
    { destruct Hb as [Hb|(t1 & th1 & Hn1 & Hp1)].
      - destruct (Hret Hb) as [X|X]; [left; left; exact X | left; right; eauto].
      - rewrite Ht in Hn1. apply nth_error_set_nth in Hn1. destruct Hn1 as [[-> ->]|[_ Hn1]]; [|left; right; eauto].
        destruct (Hph Hp1) as [X|[X|X]]; [left; right; eauto | right; left; exact X | right; right; exact X]. }
    apply nth_error_set_nth in Hnb. destruct Hnb as [[-> ->]|[Hne Hnb]].
    + (* the stepping thread is the balance thread *)
      rewrite Hrole in Hrb. destruct Hcases as [Hold|[[_ X]|[_ X]]]; try congruence.
      exfalso. apply Hnb1. eapply IH; eauto.
    + destruct Hcases as [Hold|[[X _]|[X _]]]; [eapply IH; eauto| |].
      * pose proof (role_at _ _ _ _ _ Hlay Hnb) as R. rewrite Hrb in R. destruct R; congruence.
      * pose proof (role_at _ _ _ _ _ Hlay Hnb) as R. rewrite Hrb in R. destruct R as [-> _].
        unfold pc_of, bal_tid in X. destruct Hlay as (_ & Hnx & _). rewrite Hnx, Hnb in X. cbn in X. congruence.
Qed.

(* no STOP marker is in the global queue before the marker loop of stop() has begun *)
Lemma ex_nostop : forall c progs s, Reach c progs s -> nostop (gq s) = true \/ markers_begun s.
Proof.
  intros c progs. apply (reach_ind c progs (fun s => nostop (gq s) = true \/ markers_begun s)).
  - left. reflexivity.
  - intros s t s' Hr IH Hs.
    destruct (step_facts _ _ _ _ Hs) as (th & th' & Hn & Ht & Hrole & Hnex & Hmono & _ & Hph & _ & _ & _ & Hns & _).
    assert (Hlen : t < length (threads s)) by (eapply nth_error_lt; eauto).
    destruct IH as [IH|[IH|(t1 & th1 & Hn1 & Hp1)]].
    + destruct (Hns IH) as [X|[X|(k & it & Hp & Hst)]]; auto.
      * right. right. exists t, th'. rewrite Ht, nth_error_set_nth_eq; auto.
      * exfalso. destruct (ex_local_funs _ _ _ Hr) as [_ Hb]. destruct (Hb _ _ _ _ Hn Hp) as (id & ->). discriminate.
    + right. left. auto.
    + right. destruct (Nat.eq_dec t t1) as [<-|Hne].
      * rewrite Hn in Hn1. injection Hn1 as <-. destruct (Hph Hp1) as [X|X]; [right|left; exact X].
        exists t, th'. rewrite Ht, nth_error_set_nth_eq; auto.
      * right. exists t1, th1. rewrite Ht, nth_error_set_nth_neq; auto.
Qed.

(* a task accepted before stop() was called is ahead of every STOP marker: none exists yet *)
Lemma ex_nostop_before_stop : forall c progs s, Reach c progs s -> stop_called s = false -> nostop (gq s) = true.
Proof.
  intros c progs s Hr Hc. destruct (ex_stop_called _ _ _ Hr) as [H1 H2].
  destruct (ex_nostop _ _ _ Hr) as [X|[X|(t & th & Hn & Hp)]]; auto.
  - rewrite H2 in Hc; auto. discriminate.
  - rewrite (H1 t th Hn) in Hc; [discriminate|]. destruct (tpc th); try discriminate; reflexivity.
Qed.

(* while the balance thread is alive no STOP marker has been pushed: what it moves stays ahead of all of them *)
Lemma ex_nostop_while_balancing : forall c progs s t th, Reach c progs s ->
  nth_error (threads s) t = Some th -> trole th = RBal -> tpc th <> BExit -> nostop (gq s) = true.
Proof.
  intros c progs s t th Hr Hn Hrole Hpc. destruct (ex_nostop _ _ _ Hr) as [X|X]; auto.
  exfalso. apply Hpc. eapply ex_bal_exited; eauto.
Qed.

(* ======================================================================================== *)
(* stop() joins every worker: when it returns all workers have exited                         *)
Definition worker_exited (s : st) (j : nat) : Prop := pc_of s (worker_tid s j) = Some WExit.

Lemma exited_step : forall c s t s' j, step c s t = Some s' -> worker_exited s j -> worker_exited s' j.
Proof.
  intros c s t s' j Hs He. destruct (step_facts _ _ _ _ Hs) as (th & th' & Hn & Ht & _ & Hnex & _ & _ & _ & _ & _ & Hw & _).
  unfold worker_exited, pc_of, worker_tid in *. rewrite Hnex, Ht.
  destruct (Nat.eq_dec t (nex s + j)) as [->|Hne]; [|now rewrite nth_error_set_nth_neq].
  rewrite Hn in He. cbn in He. congruence.
Qed.

Lemma ex_joined : forall c progs s, Reach c progs s ->
  (forall t th k, nth_error (threads s) t = Some th -> tpc th = EStopJoin k -> forall j, j < k -> worker_exited s j) /\
  (stop_returned s = true -> forall j, j < nworkers c -> worker_exited s j).
Proof.
  intros c progs. apply (reach_ind c progs (fun s =>
    (forall t th k, nth_error (threads s) t = Some th -> tpc th = EStopJoin k -> forall j, j < k -> worker_exited s j) /\
    (stop_returned s = true -> forall j, j < nworkers c -> worker_exited s j))).
  - split; [|discriminate]. intros t th k H Hp. apply nth_error_In, init_threads_in in H.
    destruct H as [[_ E]|[(w & _ & E)|[_ E]]]; rewrite E in Hp; discriminate.
  - intros s t s' Hr [IH1 IH2] Hs.
    destruct (step_facts _ _ _ _ Hs) as (th & th' & Hn & Ht & _ & Hnex & _ & _ & _ & _ & _ & _ & _ & _ & _ & _ & Hj & Hret).
    split.
    + intros t0 th0 k Hn0 Hp j Hlt. rewrite Ht in Hn0. apply nth_error_set_nth in Hn0. destruct Hn0 as [[-> ->]|[_ Hn0]].
      * destruct (Hj _ Hp) as [->|(k0 & -> & Hp0 & Hex)]; [lia|].
        eapply exited_step; eauto. destruct (Nat.eq_dec j k0) as [->|]; [exact Hex|]. eapply IH1; eauto. lia.
      * eapply exited_step; eauto.
    + intros Hr' j Hlt. eapply exited_step; eauto. destruct (Hret Hr') as [X|[X|(k & Hp & Hex & Hle)]]; auto; [lia|].
      destruct (Nat.eq_dec j k) as [->|]; [exact Hex|]. eapply IH1; eauto. lia.
Qed.

(* ======================================================================================== *)
(* what is proved of "stop() drains" (see Properties_C07.v for the part that is not)          *)
Lemma ex_stop_returns_after_exit : forall c progs s, Reach c progs s -> stop_returned s = true ->
  (forall j, j < nworkers c -> worker_exited s j) /\
  (forall t th, nth_error (threads s) t = Some th -> trole th = RBal -> tpc th = BExit).
Proof.
  intros c progs s Hr Hret. split.
  - apply (proj2 (ex_joined _ _ _ Hr) Hret).
  - apply (ex_bal_exited _ _ _ Hr). left. exact Hret.
Qed.

(* non-vacuity: one worker, local capacity 1, task 0 spawns task 1; submit 0 then stop() *)
Definition demo_cfg : config :=
  {| nworkers := 1; gcap := 1; lcap := 1; stealing := 0; interval := -1; bodies := [[1]; []] |}.
Definition demo_progs : list (list op) := [[OSubmit 0; OStop]].
Definition demo_sched : list nat := concat (repeat [0; 1] 30).
Lemma ex_demo : let s := run st (step demo_cfg) (init demo_cfg demo_progs) demo_sched in
  stop_returned s = true /\ finished s = [0; 1] /\ map fst (started s) = [0; 1] /\ acc_local s = [1] /\ acc_before s = [0].
Proof. vm_compute. repeat split; reflexivity. Qed.
Lemma ex_demo_reach : Reach demo_cfg demo_progs (run st (step demo_cfg) (init demo_cfg demo_progs) demo_sched).
Proof. exists demo_sched. reflexivity. Qed.
