(* Executable interleaving model of babylon::ThreadPoolExecutor (src/babylon/executor.cpp) over an ABSTRACT
   bounded queue.  No proofs here.

   Queue abstraction (what property C01 establishes for ConcurrentBoundedQueue): a queue is the list of its
   slots indexed by push ticket.  A blocking push is two steps - take the next push ticket (fetch_add on
   _next_push_index; the slot becomes SPend), then write the slot once the pop `capacity` tickets earlier has
   released it (SFull).  A blocking pop is two steps - take the next pop ticket (fetch_add on _next_pop_index),
   then receive exactly the item of that ticket once it has been written (SDone).  try_pop is one step: it
   succeeds iff the slot at the pop index is written.  The owner-only local push (push<false,false,false> after
   the size() test) is one step.  Every item is therefore delivered to exactly one popper, in ticket order.

   Threads: external client threads (programs are data, quantified in the theorems), `nworkers` workers running
   keep_execute, and the balance thread running keep_balance when a balance interval is set.  One step = one
   queue operation step as above / one atomic operation on _running / one join, plus the local computation up
   to the next one.  Tasks are identified by numbers; task i, when run, submits the tasks `nth i bodies` in
   order (task graphs).  Every decision expression is taken from Gen_executor (regenerated from the source).
   Ghost fields: started (task, worker) in start order, finished, accepted*, stop_called/stop_returned. *)
From Coq Require Import ZArith List Bool Arith.
Require Import Verif.Gen.Gen_executor.
Import ListNotations.
Local Open Scope Z_scope.

Inductive item := IFun (id : nat) | IMark (code : Z).
Definition item_code (it : item) : Z := match it with IFun _ => invoke_task_type | IMark c => c end.

Inductive slot := SPend (it : item) | SFull (it : item) | SDone (it : item).
Record queue := { slots : list slot; npop : nat }.
Definition empty_queue : queue := {| slots := []; npop := 0 |}.

Fixpoint set_nth {A} (n : nat) (x : A) (l : list A) : list A :=
  match l, n with
  | [], _ => []
  | _ :: r, O => x :: r
  | y :: r, S n' => y :: set_nth n' x r
  end.

(* ghost sets are kept sorted so that states differing only in the order of bookkeeping coincide *)
Fixpoint ins (x : nat) (l : list nat) : list nat :=
  match l with
  | [] => [x]
  | y :: r => if (x <=? y)%nat then x :: l else y :: ins x r
  end.

(* absl::bit_ceil *)
Definition bit_ceil (n : Z) : Z := if n <=? 1 then 1 else 2 ^ Z.log2_up n.

Record config := {
  nworkers : nat;            (* _worker_number *)
  gcap : Z;                  (* _global_capacity *)
  lcap : Z;                  (* _local_capacity *)
  stealing : Z;              (* _enable_work_stealing as 0/1 *)
  interval : Z;              (* _balance_interval.count(), negative = unset *)
  bodies : list (list nat);  (* task id -> tasks it submits while running *)
  blocks : list (list nat)   (* for_each over _local_task_queues: one callback invocation per storage block (128
                                thread ids); the workers whose local queue lies in each block, in scan order *)
}.
Definition global_slots (c : config) : nat := Z.to_nat (bit_ceil (global_reserve (gcap c))).
Definition has_balancer (c : config) : bool := balance_enabled (interval c).
Definition body_of (c : config) (id : nat) : list nat := nth id (bodies c) [].

(* ---- queue operations ------------------------------------------------------------------------------------ *)
Definition take_push (q : queue) (it : item) : nat * queue :=
  (length (slots q), {| slots := slots q ++ [SPend it]; npop := npop q |}).
Definition slot_released (q : queue) (cap p : nat) : bool :=
  if (p <? cap)%nat then true else match nth_error (slots q) (p - cap) with Some (SDone _) => true | _ => false end.
(* the ticket holder writes its item: the slot already records which item that is *)
Definition fill (q : queue) (p : nat) : queue :=
  {| slots := match nth_error (slots q) p with
              | Some (SPend it) => set_nth p (SFull it) (slots q)
              | _ => slots q
              end;
     npop := npop q |}.
Definition take_pop (q : queue) : nat * queue := (npop q, {| slots := slots q; npop := S (npop q) |}).
Definition pop_ready (q : queue) (k : nat) : option (item * queue) :=
  match nth_error (slots q) k with
  | Some (SFull it) => Some (it, {| slots := set_nth k (SDone it) (slots q); npop := npop q |})
  | _ => None
  end.
Definition try_pop (q : queue) : option (item * queue) :=
  match nth_error (slots q) (npop q) with
  | Some (SFull it) => Some (it, {| slots := set_nth (npop q) (SDone it) (slots q); npop := S (npop q) |})
  | _ => None
  end.
Definition local_push (q : queue) (it : item) : queue := {| slots := slots q ++ [SFull it]; npop := npop q |}.
Definition queue_size (q : queue) : Z := Z.of_nat (length (slots q) - npop q).

(* ---- threads ---------------------------------------------------------------------------------------------- *)
Inductive op := OSubmit (id : nat) | OWake | OStop | OJoinExt.
Inductive role := RExt | RWorker (w : nat) | RBal.

Inductive pc :=
| EIdle                                            (* external thread between operations *)
| EFill (p : nat) (it : item)                      (* enqueue_task / wakeup: push ticket p taken *)
| EStopStore                                       (* stop: _running loaded (true); next: store false *)
| EStopJoinBal                                     (* stop: _balance_thread.join() (before the marker loop) *)
| EStopJoinBalLate                                 (* the same join placed after the marker loop (not the current source) *)
| EStopPush (i : Z)                                (* stop: marker loop, about to take the ticket of marker i *)
| EStopFill (i : Z) (p : nat)
| EStopJoin (k : nat)                              (* stop: joining worker k *)
| WLoop                                            (* keep_execute: try_pop on the own local queue *)
| WSteal (rest : list (list nat)) (cur : list nat) (* for_each: blocks still to visit, queues left in the current block *)
| WStealHeld (rest : list (list nat)) (cur : list nat) (it : item)   (* still scanning although `it` was stolen
                                                      (only without the per-block guard) *)
| WTake                                            (* global pop: fetch_add on the pop index *)
| WPop (q : nat)                                   (* waiting for the item of pop ticket q *)
| WBegin (id : nat)                                (* task.function() about to start *)
| WRun (id : nat) (rest : list nat)                (* inside the task: children still to submit *)
| WGTake (id : nat) (rest : list nat) (child : nat)       (* enqueue_task chose the global queue *)
| WFill (id : nat) (rest : list nat) (p : nat) (child : nat)
| WExit
| BCheck                                           (* keep_balance: load _running *)
| BSweep (k : nat)                                 (* try_pop on worker k's local queue *)
| BTake (k : nat) (it : item)                      (* inside the try_pop callback: enqueue_task -> global ticket *)
| BFill (k : nat) (p : nat) (it : item)
| BExit.

Record thread := { trole : role; prog : list op; opi : nat; tpc : pc }.

Record st := {
  gq : queue; lqs : list queue; running : bool; threads : list thread; nex : nat;
  started : list (nat * nat); finished : list nat;
  accepted : list nat; acc_before : list nat; acc_local : list nat; refused : list nat;
  stop_called : bool; stop_returned : bool; log_at_stop : nat
}.

Definition mk_ext (p : list op) : thread := {| trole := RExt; prog := p; opi := 0; tpc := EIdle |}.
Definition mk_worker (w : nat) : thread := {| trole := RWorker w; prog := []; opi := 0; tpc := WLoop |}.
Definition mk_bal : thread := {| trole := RBal; prog := []; opi := 0; tpc := BCheck |}.

Definition init (c : config) (progs : list (list op)) : st :=
  {| gq := empty_queue; lqs := repeat empty_queue (nworkers c); running := true;
     threads := map mk_ext progs ++ map mk_worker (seq 0 (nworkers c)) ++ (if has_balancer c then [mk_bal] else []);
     nex := length progs; started := []; finished := []; accepted := []; acc_before := []; acc_local := []; refused := [];
     stop_called := false; stop_returned := false; log_at_stop := 0 |}.

(* ---- state updates ---------------------------------------------------------------------------------------- *)
Definition goto (th : thread) (p : pc) : thread := {| trole := trole th; prog := prog th; opi := opi th; tpc := p |}.
Definition next_op (th : thread) : thread := {| trole := trole th; prog := prog th; opi := S (opi th); tpc := EIdle |}.

Definition set_thread (s : st) (t : nat) (th : thread) : st :=
  {| gq := gq s; lqs := lqs s; running := running s; threads := set_nth t th (threads s); nex := nex s;
     started := started s; finished := finished s; accepted := accepted s; acc_before := acc_before s;
     acc_local := acc_local s; refused := refused s; stop_called := stop_called s; stop_returned := stop_returned s; log_at_stop := log_at_stop s |}.
Definition set_gq (s : st) (q : queue) : st :=
  {| gq := q; lqs := lqs s; running := running s; threads := threads s; nex := nex s;
     started := started s; finished := finished s; accepted := accepted s; acc_before := acc_before s;
     acc_local := acc_local s; refused := refused s; stop_called := stop_called s; stop_returned := stop_returned s; log_at_stop := log_at_stop s |}.
Definition set_lq (s : st) (w : nat) (q : queue) : st :=
  {| gq := gq s; lqs := set_nth w q (lqs s); running := running s; threads := threads s; nex := nex s;
     started := started s; finished := finished s; accepted := accepted s; acc_before := acc_before s;
     acc_local := acc_local s; refused := refused s; stop_called := stop_called s; stop_returned := stop_returned s; log_at_stop := log_at_stop s |}.
Definition set_running (s : st) (b : bool) : st :=
  {| gq := gq s; lqs := lqs s; running := b; threads := threads s; nex := nex s;
     started := started s; finished := finished s; accepted := accepted s; acc_before := acc_before s;
     acc_local := acc_local s; refused := refused s; stop_called := stop_called s; stop_returned := stop_returned s; log_at_stop := log_at_stop s |}.
(* ghost updates *)
Definition note_accept (s : st) (it : item) (loc : bool) : st :=
  match it with
  | IMark _ => s
  | IFun id =>
    {| gq := gq s; lqs := lqs s; running := running s; threads := threads s; nex := nex s;
       started := started s; finished := finished s; accepted := ins id (accepted s);
       acc_before := if stop_called s then acc_before s else ins id (acc_before s);
       acc_local := if loc then ins id (acc_local s) else acc_local s; refused := refused s;
       stop_called := stop_called s; stop_returned := stop_returned s; log_at_stop := log_at_stop s |}
  end.
(* a submission whose enqueue_task reported failure: execute() returns an invalid future, submit() non-zero *)
Definition note_refuse (s : st) (it : item) : st :=
  match it with
  | IMark _ => s
  | IFun id =>
    {| gq := gq s; lqs := lqs s; running := running s; threads := threads s; nex := nex s;
       started := started s; finished := finished s; accepted := accepted s; acc_before := acc_before s;
       acc_local := acc_local s; refused := ins id (refused s);
       stop_called := stop_called s; stop_returned := stop_returned s; log_at_stop := log_at_stop s |}
  end.
(* enqueue_task returned r: the caller tests it with the generated execute()/submit() failure test *)
Definition submit_done (s : st) (it : item) (loc : bool) (r : Z) : st :=
  if execute_failed r then note_refuse s it else note_accept s it loc.
Definition note_start (s : st) (id w : nat) : st :=
  {| gq := gq s; lqs := lqs s; running := running s; threads := threads s; nex := nex s;
     started := started s ++ [(id, w)]; finished := finished s; accepted := accepted s; acc_before := acc_before s;
     acc_local := acc_local s; refused := refused s; stop_called := stop_called s; stop_returned := stop_returned s; log_at_stop := log_at_stop s |}.
Definition note_finish (s : st) (id : nat) : st :=
  {| gq := gq s; lqs := lqs s; running := running s; threads := threads s; nex := nex s;
     started := started s; finished := ins id (finished s); accepted := accepted s; acc_before := acc_before s;
     acc_local := acc_local s; refused := refused s; stop_called := stop_called s; stop_returned := stop_returned s; log_at_stop := log_at_stop s |}.
Definition note_stop_called (s : st) : st :=
  {| gq := gq s; lqs := lqs s; running := running s; threads := threads s; nex := nex s;
     started := started s; finished := finished s; accepted := accepted s; acc_before := acc_before s;
     acc_local := acc_local s; refused := refused s; stop_called := true; stop_returned := stop_returned s; log_at_stop := log_at_stop s |}.
Definition note_stop_returned (s : st) : st :=
  {| gq := gq s; lqs := lqs s; running := running s; threads := threads s; nex := nex s;
     started := started s; finished := finished s; accepted := accepted s; acc_before := acc_before s;
     acc_local := acc_local s; refused := refused s; stop_called := stop_called s; stop_returned := true; log_at_stop := length (started s) |}.

Definition b2z (b : bool) : Z := if b then 1 else 0.
Definition lq_of (s : st) (w : nat) : queue := nth w (lqs s) empty_queue.

(* what a worker does with the task it obtained: the switch in keep_execute *)
Definition dispatch (it : item) : pc :=
  if item_code it =? worker_runs_on then match it with IFun id => WBegin id | IMark _ => WLoop end
  else if item_code it =? worker_exits_on then WExit
  else WLoop.

(* ---- external threads -------------------------------------------------------------------------------------- *)
Definition thread_done (th : thread) : bool :=
  match trole th, tpc th with
  | RExt, EIdle => (length (prog th) <=? opi th)%nat
  | RWorker _, WExit => true
  | RBal, BExit => true
  | _, _ => false
  end.
Definition ext_done (th : thread) : bool := match trole th with RExt => thread_done th | _ => true end.
Definition others_done (s : st) (t : nat) : bool :=
  forallb ext_done (firstn t (threads s)) && forallb ext_done (skipn (S t) (threads s)).
Definition pc_of (s : st) (t : nat) : option pc := option_map tpc (nth_error (threads s) t).
Definition worker_tid (s : st) (k : nat) : nat := (nex s + k)%nat.
Definition bal_tid (c : config) (s : st) : nat := (nex s + nworkers c)%nat.

(* stop(): after the balance thread is joined, the marker loop, then the worker joins *)
(* where _balance_thread.join() stands relative to the marker loop (regenerated statement order) *)
Definition early_join (c : config) : bool := has_balancer c && (stop_joins_balancer_first =? 1).
Definition late_join (c : config) : bool := has_balancer c && negb (stop_joins_balancer_first =? 1).
Definition stop_loop (c : config) (i : Z) : pc :=
  if stop_push_more i (Z.of_nat (nworkers c)) then EStopPush i
  else if late_join c then EStopJoinBalLate else EStopJoin 0.
Definition stop_join_next (c : config) (s : st) (t : nat) (th : thread) (k : nat) : st :=
  if (S k <? nworkers c)%nat then set_thread s t (goto th (EStopJoin (S k)))
  else set_thread (note_stop_returned s) t (next_op th).

Definition step_ext (c : config) (s : st) (t : nat) (th : thread) : option st :=
  match tpc th with
  | EIdle =>
    match nth_error (prog th) (opi th) with
    | None => None
    | Some (OSubmit id) =>               (* enqueue_task outside the pool: fetch_add on the global push index *)
      let '(p, q) := take_push (gq s) (IFun id) in
      Some (set_thread (set_gq s q) t (goto th (EFill p (IFun id))))
    | Some OWake =>
      let it := IMark wakeup_marker_type in
      let '(p, q) := take_push (gq s) it in
      Some (set_thread (set_gq s q) t (goto th (EFill p it)))
    | Some OStop =>                      (* load _running *)
      let s1 := note_stop_called s in
      if stop_returns_early (b2z (running s)) then Some (set_thread s1 t (next_op th))
      else Some (set_thread s1 t (goto th EStopStore))
    | Some OJoinExt => if others_done s t then Some (set_thread s t (next_op th)) else None
    end
  | EFill p it =>
    if slot_released (gq s) (global_slots c) p
    then Some (set_thread (submit_done (set_gq s (fill (gq s) p)) it false enqueue_result) t (next_op th))
    else None
  | EStopStore =>
    let s1 := set_running s false in
    if early_join c then Some (set_thread s1 t (goto th EStopJoinBal))
    else Some (set_thread s1 t (goto th (stop_loop c stop_first_marker)))
  | EStopJoinBal =>
    match pc_of s (bal_tid c s) with
    | Some BExit => Some (set_thread s t (goto th (stop_loop c stop_first_marker)))
    | _ => None
    end
  | EStopJoinBalLate =>
    match pc_of s (bal_tid c s) with
    | Some BExit => Some (set_thread s t (goto th (EStopJoin 0)))
    | _ => None
    end
  | EStopPush i =>
    let '(p, q) := take_push (gq s) (IMark stop_marker_type) in
    Some (set_thread (set_gq s q) t (goto th (EStopFill i p)))
  | EStopFill i p =>
    if slot_released (gq s) (global_slots c) p
    then Some (set_thread (set_gq s (fill (gq s) p)) t (goto th (stop_loop c (i + 1))))
    else None
  | EStopJoin k =>
    if (nworkers c =? 0)%nat then Some (set_thread (note_stop_returned s) t (next_op th))
    else match pc_of s (worker_tid s k) with
         | Some WExit => Some (stop_join_next c s t th k)
         | _ => None
         end
  | _ => None
  end.

(* ---- workers ------------------------------------------------------------------------------------------------ *)
(* the callback passed to for_each begins with `if (steal_success) return;` (regenerated): once a task has been
   stolen the remaining blocks are skipped *)
Definition guard_on : bool := (steal_block_guard =? 1).
(* next block whose queues are scanned *)
Fixpoint advance (rest : list (list nat)) (ss : bool) : option (list (list nat) * list nat) :=
  match rest with
  | [] => None
  | blk :: r => if guard_on && ss then advance r ss
                else match blk with [] => advance r ss | _ :: _ => Some (r, blk) end
  end.
Definition no_steal : pc := if global_pop_needed 0 then WTake else WLoop.
Definition scan_start (c : config) : pc :=
  match advance (blocks c) false with None => no_steal | Some (r, b) => WSteal r b end.
(* try_pop failed: steal_success = false; next queue of the block, next block, or the global pop *)
Definition after_fail (rest : list (list nat)) (cur : list nat) : pc :=
  match cur with
  | _ :: _ => WSteal rest cur
  | [] => match advance rest false with None => no_steal | Some (r, b) => WSteal r b end
  end.
(* try_pop succeeded: steal_success = true, the callback returns; for_each goes on with the next block *)
Definition after_success (rest : list (list nat)) (it : item) : pc :=
  match advance rest true with
  | None => if global_pop_needed 1 then WTake else dispatch it
  | Some (r, b) => WStealHeld r b it
  end.
Definition held_fail (rest : list (list nat)) (cur : list nat) (it : item) : pc :=
  match cur with
  | _ :: _ => WStealHeld rest cur it
  | [] => match advance rest false with
          | None => if global_pop_needed 0 then WTake else dispatch it    (* the global pop overwrites `it` *)
          | Some (r, b) => WStealHeld r b it
          end
  end.

Definition step_worker (c : config) (s : st) (t w : nat) (th : thread) : option st :=
  match tpc th with
  | WLoop =>
    match try_pop (lq_of s w) with
    | Some (it, q) =>
      if worker_local_first 1                                                   (* never: the generated test is "not popped" *)
      then Some (set_thread (set_lq s w q) t (goto th (if steal_enabled (stealing c) then scan_start c else WTake)))
      else Some (set_thread (set_lq s w q) t (goto th (dispatch it)))
    | None =>
      if worker_local_first 0
      then Some (set_thread s t (goto th (if steal_enabled (stealing c) then scan_start c else WTake)))
      else Some (set_thread s t (goto th WLoop))
    end
  | WSteal rest [] => Some (set_thread s t (goto th (after_fail rest [])))
  | WSteal rest (k :: cur) =>
    match try_pop (lq_of s k) with
    | Some (it, q) => Some (set_thread (set_lq s k q) t (goto th (after_success rest it)))
    | None => Some (set_thread s t (goto th (after_fail rest cur)))
    end
  | WStealHeld rest cur it0 =>            (* reachable only when the guard is missing; `it0` may be overwritten *)
    if guard_on then None
    else match cur with
         | [] => Some (set_thread s t (goto th (held_fail rest [] it0)))
         | k :: cur' =>
           match try_pop (lq_of s k) with
           | Some (it, q) => Some (set_thread (set_lq s k q) t (goto th (after_success rest it)))
           | None => Some (set_thread s t (goto th (held_fail rest cur' it0)))
           end
         end
  | WTake =>
    let '(q, g) := take_pop (gq s) in Some (set_thread (set_gq s g) t (goto th (WPop q)))
  | WPop q =>
    match pop_ready (gq s) q with
    | Some (it, g) => Some (set_thread (set_gq s g) t (goto th (dispatch it)))
    | None => None
    end
  | WBegin id => Some (set_thread (note_start s id w) t (goto th (WRun id (body_of c id))))
  | WRun id [] => Some (set_thread (note_finish s id) t (goto th WLoop))
  | WRun id (ch :: rest) =>              (* enqueue_task inside the pool: is_running_in() holds *)
    if local_enabled (lcap c) && local_has_room (queue_size (lq_of s w)) (lcap c)
    then Some (set_thread (submit_done (set_lq s w (local_push (lq_of s w) (IFun ch))) (IFun ch) true enqueue_local_result) t (goto th (WRun id rest)))
    else Some (set_thread s t (goto th (WGTake id rest ch)))
  | WGTake id rest ch =>
    let '(p, q) := take_push (gq s) (IFun ch) in
    Some (set_thread (set_gq s q) t (goto th (WFill id rest p ch)))
  | WFill id rest p ch =>
    if slot_released (gq s) (global_slots c) p
    then Some (set_thread (submit_done (set_gq s (fill (gq s) p)) (IFun ch) false enqueue_result) t (goto th (WRun id rest)))
    else None
  | _ => None
  end.

(* ---- balance thread ----------------------------------------------------------------------------------------- *)
Definition after_sweep (c : config) (k : nat) : pc := if (S k <? nworkers c)%nat then BSweep (S k) else BCheck.

Definition step_bal (c : config) (s : st) (t : nat) (th : thread) : option st :=
  match tpc th with
  | BCheck =>                             (* load _running; sleep_for only delays and is not a step of its own *)
    if balance_continues (b2z (running s))
    then Some (set_thread s t (goto th (if (0 <? nworkers c)%nat then BSweep 0 else BCheck)))
    else Some (set_thread s t (goto th BExit))
  | BSweep k =>
    match try_pop (lq_of s k) with
    | Some (it, q) => Some (set_thread (set_lq s k q) t (goto th (BTake k it)))
    | None => Some (set_thread s t (goto th (after_sweep c k)))
    end
  | BTake k it =>
    let '(p, q) := take_push (gq s) it in Some (set_thread (set_gq s q) t (goto th (BFill k p it)))
  | BFill k p it =>
    if slot_released (gq s) (global_slots c) p
    then Some (set_thread (set_gq s (fill (gq s) p)) t (goto th (BSweep k)))
    else None
  | _ => None
  end.

Definition step (c : config) (s : st) (t : nat) : option st :=
  match nth_error (threads s) t with
  | None => None
  | Some th =>
    match trole th with
    | RExt => step_ext c s t th
    | RWorker w => step_worker c s t w th
    | RBal => step_bal c s t th
    end
  end.

Definition all_done (s : st) : bool := forallb thread_done (threads s).

(* observable outcome as the implementation driver prints it: run order, accepted-but-never-run, started after
   stop() returned *)
Definition never_run (s : st) : list nat :=
  filter (fun id => negb (existsb (fun e => Nat.eqb (fst e) id) (started s))) (accepted s).
Definition outcome (s : st) : list nat * list nat * nat :=
  (map fst (started s), never_run s, if stop_returned s then (length (started s) - log_at_stop s)%nat else O).
