(* C07: nested BasicExecutor::RunnerScope objects on one thread (basic_executor.h).
   The thread-local "current executor" is an option nat.  A RunnerScope of executor e: the constructor remembers the
   previous current executor in _old_current (regenerated flag scope_saves_current: the member initialiser reads
   BasicExecutor::current()) and sets current := e (scope_sets_current); the destructor writes the remembered value
   back (scope_restores_saved).  When a flag is 0 the model does what the code then does: nothing is remembered /
   nullptr is written.  A well-bracketed use of scopes on one thread is a tree:
     Done | Nest e inner rest  =  { RunnerScope s{e}; inner }  rest
   ThreadPoolExecutor::keep_execute holds one scope for the life of the worker; InplaceExecutor::invoke and
   AlwaysUseNewThreadExecutor open one around each call: everything a pool task does is such a tree run with
   current = Some pool. *)
From Coq Require Import ZArith List Bool.
Require Import Verif.Gen.Gen_executor.
Import ListNotations.
Local Open Scope Z_scope.

Inductive scopes : Type :=
| Done : scopes
| Nest : nat -> scopes -> scopes -> scopes.

Definition ctor_saved (cur : option nat) : option nat := if scope_saves_current =? 1 then cur else None.
Definition ctor_current (e : nat) (cur : option nat) : option nat := if scope_sets_current =? 1 then Some e else cur.
Definition dtor_current (saved : option nat) : option nat := if scope_restores_saved =? 1 then saved else None.

(* current executor of the thread after the whole tree *)
Fixpoint run_scopes (p : scopes) (cur : option nat) : option nat :=
  match p with
  | Done => cur
  | Nest e inner rest =>
      let saved := ctor_saved cur in
      let _inside := run_scopes inner (ctor_current e cur) in
      run_scopes rest (dtor_current saved)
  end.

(* what is_running_in would see: (executor whose scope is innermost by construction, current executor observed) at
   the start of every scope body and after every scope's end, at every nesting depth *)
Fixpoint marks (p : scopes) (owner : option nat) (cur : option nat) : list (option nat * option nat) :=
  match p with
  | Done => [(owner, cur)]
  | Nest e inner rest =>
      (owner, cur) :: marks inner (Some e) (ctor_current e cur) ++ marks rest owner (dtor_current (ctor_saved cur))
  end.

Lemma gen_scope : (scope_saves_current =? 1) = true /\ (scope_restores_saved =? 1) = true /\ (scope_sets_current =? 1) = true.
Proof. repeat split; reflexivity. Qed.

Lemma dtor_ctor : forall cur, dtor_current (ctor_saved cur) = cur.
Proof.
  intro cur. unfold dtor_current, ctor_saved.
  rewrite (proj1 gen_scope), (proj1 (proj2 gen_scope)). reflexivity.
Qed.

Lemma ctor_sets : forall e cur, ctor_current e cur = Some e.
Proof. intros. unfold ctor_current. rewrite (proj2 (proj2 gen_scope)). reflexivity. Qed.

Lemma run_scopes_restores : forall p cur, run_scopes p cur = cur.
Proof.
  induction p as [|e inner IHi rest IHr]; intro cur; cbn [run_scopes].
  - reflexivity.
  - rewrite dtor_ctor. apply IHr.
Qed.

Lemma marks_agree : forall p owner, Forall (fun m => fst m = snd m) (marks p owner owner).
Proof.
  induction p as [|e inner IHi rest IHr]; intro owner; cbn [marks].
  - constructor; [reflexivity | constructor].
  - constructor; [reflexivity|]. apply Forall_app. split.
    + rewrite ctor_sets. apply IHi.
    + rewrite dtor_ctor. apply IHr.
Qed.

Lemma nested_scopes_restore : forall e p,
  run_scopes p (Some e) = Some e /\
  run_scopes (Nest e p Done) None = None /\
  Forall (fun m => fst m = snd m) (marks p (Some e) (Some e)).
Proof.
  intros e p. split; [apply run_scopes_restores|]. split; [apply run_scopes_restores|]. apply marks_agree.
Qed.

(* non-vacuity: a pool task (executor 7) that calls the in-place executor (3), which re-enters itself, then 5 *)
Lemma ex_scope_demo :
  marks (Nest 3 (Nest 3 Done Done) (Nest 5 Done Done)) (Some 7%nat) (Some 7%nat) =
  [(Some 7, Some 7); (Some 3, Some 3); (Some 3, Some 3); (Some 3, Some 3); (Some 7, Some 7); (Some 5, Some 5); (Some 7, Some 7)]%nat.
Proof. reflexivity. Qed.
