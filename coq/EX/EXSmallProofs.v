(* Proofs about the InplaceExecutor and AlwaysUseNewThreadExecutor models (property C07). *)
From Coq Require Import ZArith List Bool Arith Lia.
Require Import Verif.Gen.Gen_executor Verif.Conc.Machine Verif.EX.EXModel Verif.EX.EXProofs Verif.EX.EXSmallModel.
Import ListNotations.

(* ======================================================================================== *)
(* regenerated facts                                                                          *)
Lemma gen_inplace : (inplace_scope_first =? 1)%Z = true /\ inplace_result = 0%Z. Proof. split; reflexivity. Qed.
Lemma gen_newthread : (newthread_counts_before_spawn =? 1)%Z = true /\ (newthread_scope_first =? 1)%Z = true /\
  newthread_uncounts_after_run = 1%Z /\ newthread_result = 0%Z /\ (forall r, newthread_join_waits r = negb (r =? 0)%Z).
Proof. repeat split; reflexivity. Qed.

(* ======================================================================================== *)
(* InplaceExecutor                                                                            *)
Fixpoint task_ind' (P : task -> Prop) (H : forall id ch, Forall P ch -> P (Task id ch)) (t : task) : P t :=
  match t with
  | Task id ch => H id ch ((fix go (l : list task) : Forall P l :=
                              match l with [] => Forall_nil P | c :: r => Forall_cons c (task_ind' P H c) (go r) end) ch)
  end.

Definition in_scope_log (ids : list nat) : list (nat * bool) := map (fun id => (id, true)) ids.
Definition ok_rets (ids : list nat) : list (nat * Z) := map (fun id => (id, 0%Z)) ids.

Lemma inplace_spec : forall t me s,
  icur (inplace_invoke me t s) = icur s /\
  ilog (inplace_invoke me t s) = ilog s ++ in_scope_log (preorder t) /\
  irets (inplace_invoke me t s) = irets s ++ ok_rets (postorder t).
Proof.
  induction t as [id ch IH] using task_ind'. intros me s. cbn [inplace_invoke preorder postorder].
  unfold enter_scope, leave_scope. rewrite (proj1 gen_inplace), (proj2 gen_inplace). cbn [icur ilog irets].
  set (s2 := {| icur := Some me; ilog := ilog s ++ [(id, cur_is {| icur := Some me; ilog := ilog s; irets := irets s |} me)]; irets := irets s |}).
  assert (Hs2 : icur s2 = Some me /\ ilog s2 = ilog s ++ [(id, true)] /\ irets s2 = irets s).
  { subst s2. cbn. unfold cur_is. cbn. rewrite Nat.eqb_refl. auto. }
  clearbody s2. destruct Hs2 as (Hc & Hl & Hr).
  assert (Hall : forall st,
    let st' := (fix run_all (l : list task) (st : istate) : istate :=
                  match l with [] => st | c :: r => run_all r (inplace_invoke me c st) end) ch st in
    icur st' = icur st /\
    ilog st' = ilog st ++ in_scope_log ((fix all (l : list task) : list nat := match l with [] => [] | c :: r => preorder c ++ all r end) ch) /\
    irets st' = irets st ++ ok_rets ((fix all (l : list task) : list nat := match l with [] => [] | c :: r => postorder c ++ all r end) ch)).
  { induction IH as [|c r Hc0 _ IHr]; intros st; cbn.
    - unfold in_scope_log, ok_rets. cbn. now rewrite !app_nil_r.
    - destruct (Hc0 me st) as (A1 & A2 & A3). destruct (IHr (inplace_invoke me c st)) as (B1 & B2 & B3). cbn in B1, B2, B3.
      rewrite B1, B2, B3, A1, A2, A3. unfold in_scope_log, ok_rets. rewrite !map_app, !app_assoc. auto. }
  destruct (Hall s2) as (A1 & A2 & A3). cbn in A1, A2, A3. cbn.
  rewrite A2, A3, Hl, Hr. unfold in_scope_log, ok_rets. cbn. rewrite map_app. cbn. rewrite <- !app_assoc. auto.
Qed.

(* each submission yields exactly one run: the occurrences in the log are the occurrences in the task tree *)
Lemma inplace_runs_each_once : forall t me s id,
  count_occ Nat.eq_dec (map fst (ilog (inplace_invoke me t s))) id =
  count_occ Nat.eq_dec (map fst (ilog s)) id + count_occ Nat.eq_dec (preorder t) id.
Proof.
  intros t me s id. destruct (inplace_spec t me s) as (_ & -> & _). rewrite map_app, count_occ_app. f_equal.
  unfold in_scope_log. rewrite map_map. cbn. now rewrite map_id.
Qed.

(* ======================================================================================== *)
(* AlwaysUseNewThreadExecutor                                                                 *)
Definition NReach (bodies : list (list nat)) (progs : list (list nop)) (s : nst) : Prop :=
  reachable nst (nstep bodies) (ninit progs) s.

Lemma nreach_ind : forall bodies progs (P : nst -> Prop), P (ninit progs) ->
  (forall s t s', NReach bodies progs s -> P s -> nstep bodies s t = Some s' -> P s') ->
  forall s, NReach bodies progs s -> P s.
Proof.
  intros bodies progs P H0 Hstep s Hr.
  enough (NReach bodies progs s /\ P s) by tauto. revert s Hr. apply inv_reachable.
  - split; [exists []; reflexivity | exact H0].
  - intros s t s' [Hr Hp] Hs. split; [eapply reachable_step; eauto | eauto].
Qed.

Definition units (p : npc) : nat :=
  match p with NSpawn _ | TBegin _ | TRun _ _ | TUncount _ => 1 | TSpawn _ _ _ => 2 | _ => 0 end.
Definition inflight (p : npc) : list nat :=
  match p with NSpawn id | TBegin id | TRun id _ => [id] | TSpawn id _ ch => [id; ch] | _ => [] end.
Definition past_begin (p : npc) : bool :=
  match p with TRun _ _ | TSpawn _ _ _ | TUncount _ | TDone => true | _ => false end.
Definition client_pc (p : npc) : bool := match p with NIdle | NSpawn _ => true | _ => false end.
Fixpoint usum (l : list nthread) : nat := match l with [] => 0 | th :: r => units (npcv th) + usum r end.

Lemma usum_app : forall a b, usum (a ++ b) = usum a + usum b.
Proof. induction a as [|x a IH]; intros b; cbn; auto. rewrite IH. lia. Qed.
Lemma usum_set_nth : forall l t x y, nth_error l t = Some x -> usum (set_nth t y l) + units (npcv x) = usum l + units (npcv y).
Proof.
  induction l as [|z l IH]; intros [|t] x y H; cbn in *; try discriminate.
  - injection H as ->. lia.
  - specialize (IH _ _ y H). lia.
Qed.
Lemma usum_zero : forall l t x, usum l = 0 -> nth_error l t = Some x -> units (npcv x) = 0.
Proof.
  induction l as [|z l IH]; intros [|t] x H Hn; cbn in *; try discriminate.
  - injection Hn as ->. lia.
  - eapply IH; eauto. lia.
Qed.
Lemma units_zero_inflight : forall p, units p = 0 -> inflight p = [].
Proof. intros p H. destruct p; cbn in *; auto; discriminate. Qed.

Ltac destr_nstep H :=
  unfold nstep in H;
  repeat match type of H with
         | context [match ?x with _ => _ end] => let E := fresh "E" in destruct x eqn:E; try discriminate H
         end;
  try discriminate H; inversion H; subst; clear H.

Ltac nsimp :=
  cbn [nrunning nthreads nstarted nfinished ncounted njoin_ok with_thread with_running spawn note_nstart note_nfinish
       note_join npcv nprog nopi ngoto nnext] in *;
  unfold count_if_first, mk_task_thread in *;
  rewrite ?(proj1 gen_newthread), ?(proj1 (proj2 gen_newthread)) in *;
  cbn [nrunning nthreads nstarted nfinished ncounted njoin_ok with_thread with_running spawn note_nstart note_nfinish
       note_join npcv nprog nopi ngoto nnext] in *.

Record NInv (nclients : nat) (s : nst) : Prop := {
  ni_count : nrunning s = Z.of_nat (usum (nthreads s));
  ni_flight : forall id, In id (ncounted s) -> In id (nfinished s) \/ In id (flat_map (fun th => inflight (npcv th)) (nthreads s));
  ni_join : njoin_ok s = true;
  ni_started : forall id t sc, In (id, t, sc) (nstarted s) ->
               sc = true /\ nclients <= t /\ exists th, nth_error (nthreads s) t = Some th /\ past_begin (npcv th) = true;
  ni_nodup : NoDup (map (fun e => snd (fst e)) (nstarted s));
  ni_clients : nclients <= length (nthreads s) /\
               forall t th, nth_error (nthreads s) t = Some th -> t < nclients -> client_pc (npcv th) = true
}.

Lemma ninit_threads : forall progs t th, nth_error (nthreads (ninit progs)) t = Some th -> npcv th = NIdle.
Proof. intros progs t th H. cbn in H. apply nth_error_In, in_map_iff in H. destruct H as (p & <- & _). reflexivity. Qed.

Lemma app1_some : forall A (l : list A) z t x, nth_error l t = Some x -> nth_error (l ++ [z]) t = Some x.
Proof. intros. rewrite nth_error_app1; auto. eapply nth_error_lt; eauto. Qed.

Definition flight (l : list nthread) : list nat := flat_map (fun th => inflight (npcv th)) l.
Lemma flight_step : forall (Q : nat -> Prop) l extra t x y, nth_error l t = Some x ->
  (forall j, In j (inflight (npcv x)) -> In j (inflight (npcv y)) \/ In j (flight extra) \/ Q j) ->
  forall i, In i (flight l) -> Q i \/ In i (flight (set_nth t y (l ++ extra))).
Proof.
  intros Q l extra t x y Hn Hx i Hi. unfold flight in *.
  assert (Hn' : nth_error (l ++ extra) t = Some x) by (rewrite nth_error_app1; auto; eapply nth_error_lt; eauto).
  assert (Hi' : In i (flat_map (fun th => inflight (npcv th)) (l ++ extra))) by (rewrite flat_map_app; apply in_or_app; auto).
  destruct (in_fm_set_nth_old _ (fun th => inflight (npcv th)) _ _ _ y _ Hn' Hi') as [H|H]; auto.
  destruct (Hx _ H) as [A|[A|A]]; auto.
  - right. apply in_fm_set_nth_new; auto. rewrite app_length. apply nth_error_lt in Hn. lia.
  - right. apply in_flat_map in A. destruct A as (z & Hz & Hiz). apply in_flat_map. exists z. split; auto.
    apply In_nth_error in Hz. destruct Hz as (k & Hk). eapply nth_error_In.
    rewrite nth_error_set_nth_neq with (m := length l + k); [rewrite nth_error_app2 by lia; replace (length l + k - length l) with k by lia; eauto|].
    apply nth_error_lt in Hn. lia.
Qed.

Lemma flight_new : forall l t x y z i, nth_error l t = Some x -> In i (inflight (npcv z)) ->
  In i (flight (set_nth t y (l ++ [z]))).
Proof.
  intros l t x y z i Hn Hi. unfold flight. apply in_flat_map. exists z. split; auto. eapply nth_error_In.
  rewrite nth_error_set_nth_neq with (m := length l); [rewrite nth_error_app2, Nat.sub_diag; [reflexivity|lia]|].
  apply nth_error_lt in Hn. lia.
Qed.

Lemma usum_zero_flight : forall l, usum l = 0 -> flight l = [].
Proof.
  induction l as [|x l IH]; cbn; auto. intros H. unfold flight in *. cbn. rewrite IH by lia.
  rewrite units_zero_inflight by lia. reflexivity.
Qed.
Lemma memn_in : forall i l, In i l -> memn i l = true.
Proof. intros i l H. unfold memn. apply existsb_exists. exists i. split; auto. apply Nat.eqb_refl. Qed.
Lemma nth_new : forall (l ex : list nthread) t y x t0 z, nth_error l t = Some x ->
  nth_error (set_nth t y (l ++ ex)) t0 = Some z ->
  (t0 = t /\ z = y) \/ (t0 <> t /\ nth_error l t0 = Some z) \/ (length l <= t0 /\ In z ex).
Proof.
  intros l ex t y x t0 z Hn H. apply nth_error_set_nth in H. destruct H as [[-> ->]|[Hne H]]; auto.
  right. destruct (lt_dec t0 (length l)) as [Hlt|Hge].
  - left. rewrite nth_error_app1 in H; auto.
  - right. rewrite nth_error_app2 in H by lia. split; [lia|]. eapply nth_error_In; eauto.
Qed.

Lemma ex_ninv : forall bodies progs s, NReach bodies progs s -> NInv (length progs) s.
Proof.
  intros bodies progs. apply (nreach_ind bodies progs (NInv (length progs))).
  - constructor.
    + cbn. induction progs; cbn; auto.
    + cbn. intros ? [].
    + reflexivity.
    + cbn. intros ? ? ? [].
    + cbn. constructor.
    + cbn. rewrite map_length. split; auto. intros t th H _. now rewrite (ninit_threads _ _ _ H).
  - intros s t s' _ IH Hs. destruct IH as [Hc Hf Hj Hst Hnd [Hlen Hcl]].
    constructor.
    + (* count *)
      destr_nstep Hs; nsimp; auto;
        first [ match goal with |- context [set_nth ?t ?y (?l ++ [?z])] =>
                  pose proof (usum_set_nth _ _ _ y (app1_some _ _ z _ _ E)) as X; rewrite usum_app in X end
              | match goal with |- context [set_nth ?t ?y ?l] => pose proof (usum_set_nth _ _ _ y E) as X end ];
        cbn [usum units npcv ngoto nnext] in X; rewrite E0 in X; cbn [units] in X; lia.
    + (* in flight *)
      fold (flight (nthreads s)) in Hf.
      destr_nstep Hs; nsimp; auto; intros i Hi;
        match goal with
        | |- context [set_nth ?t ?y (?l ++ ?ex)] => fold (flight (set_nth t y (l ++ ex)))
        | |- context [set_nth ?t ?y ?l] => rewrite <- (app_nil_r l); fold (flight (set_nth t y (l ++ [])))
        end;
        try (destruct Hi as [<-|Hi]; [right; eapply flight_new; [exact E | cbn; auto] |]);
        (destruct (Hf _ Hi) as [F|F]; [left; cbn; auto|]);
        match goal with
        | |- In ?i ?fin \/ In ?i (flight (set_nth ?t ?y (?l ++ ?ex))) =>
          destruct (flight_step (fun j => In j fin) l ex t _ y E) with (i := i) as [X|X]; auto;
          intros jx Hjx; rewrite E0 in Hjx; cbn in Hjx;
          repeat match goal with H : _ \/ _ |- _ => destruct H | H : False |- _ => destruct H end; subst; cbn; auto
        end.
    + (* join *)
      destr_nstep Hs; nsimp; auto. rewrite Hj. cbn. apply forallb_forall. intros i Hi.
      match goal with H : newthread_join_waits _ = false |- _ => rename H into E2 end.
      rewrite (proj2 (proj2 (proj2 (proj2 gen_newthread)))) in E2. apply negb_false_iff, Z.eqb_eq in E2.
      assert (Hz : usum (nthreads s) = 0) by lia.
      destruct (Hf _ Hi) as [F|F]; [apply memn_in; auto|]. fold (flight (nthreads s)) in F. rewrite usum_zero_flight in F by auto. destruct F.
    + (* started *)
      assert (Hold : forall i t0 sc l' , In (i, t0, sc) (nstarted s) ->
                (forall th0, nth_error (nthreads s) t0 = Some th0 -> past_begin (npcv th0) = true ->
                   exists th1, nth_error l' t0 = Some th1 /\ past_begin (npcv th1) = true) ->
                sc = true /\ length progs <= t0 /\ exists th, nth_error l' t0 = Some th /\ past_begin (npcv th) = true).
      { intros i t0 sc l' Hin Hl. destruct (Hst _ _ _ Hin) as (-> & Hge & th0 & Hn0 & Hp0). eauto. }
      assert (Hkeep : forall t0 th0 y ex, nth_error (nthreads s) t0 = Some th0 -> past_begin (npcv th0) = true ->
                (forall x, nth_error (nthreads s) t = Some x -> past_begin (npcv x) = true -> past_begin (npcv y) = true) ->
                exists th1, nth_error (set_nth t y (nthreads s ++ ex)) t0 = Some th1 /\ past_begin (npcv th1) = true).
      { intros t0 th0 y ex Hn0 Hp0 Hy. destruct (Nat.eq_dec t0 t) as [->|Hne].
        - exists y. split; [apply nth_error_set_nth_eq; rewrite app_length; apply nth_error_lt in Hn0; lia | eauto].
        - exists th0. split; auto. rewrite nth_error_set_nth_neq by auto. rewrite nth_error_app1; auto. eapply nth_error_lt; eauto. }
      destr_nstep Hs; nsimp; auto; intros i t0 sc Hin;
        try (apply in_app_or in Hin; destruct Hin as [Hin|[Hin|[]]]);
        try (injection Hin as <- <- <-; split; [reflexivity|]; split;
                [ destruct (le_lt_dec (length progs) t) as [|Hlt]; auto; pose proof (Hcl _ _ E Hlt) as X; rewrite E0 in X; discriminate
                | eexists; split; [apply nth_error_set_nth_eq; eapply nth_error_lt; eauto | reflexivity] ]);
        try (match goal with
             | |- context [set_nth ?t ?y (?l ++ ?ex)] => idtac
             | |- context [set_nth ?t ?y ?l] => rewrite <- (app_nil_r l)
             end;
             eapply Hold; [exact Hin|]; intros th0 Hn0 Hp0; eapply Hkeep; eauto;
             intros x Hx Hpx; try rewrite E in Hx; injection Hx as <-; rewrite E0 in Hpx; cbn in Hpx; try discriminate; reflexivity).
    + (* one task per thread *)
      destr_nstep Hs; nsimp; auto. rewrite map_app. cbn. apply nodup_snoc; auto. intros Hin.
      apply in_map_iff in Hin. destruct Hin as ([[i t1] sc] & Heq & Hin). cbn in Heq. subst t1.
      destruct (Hst _ _ _ Hin) as (_ & _ & th0 & Hn0 & Hp0). rewrite E in Hn0. injection Hn0 as <-. rewrite E0 in Hp0. discriminate.
    + (* clients *)
      destr_nstep Hs; nsimp; auto; (split; [rewrite set_nth_length, ?app_length; lia|]); intros t0 th0 Hn0 Hlt0;
        match goal with
        | H : nth_error (set_nth _ _ (_ ++ _)) _ = _ |- _ => idtac
        | H : nth_error (set_nth ?t ?y ?l) ?k = _ |- _ => rewrite <- (app_nil_r l) in H
        end;
        (destruct (nth_new _ _ _ _ _ _ _ E Hn0) as [[-> ->]|[[Hne Hold]|[Hge _]]]; [|eauto|lia]);
        pose proof (Hcl _ _ E Hlt0) as X; rewrite E0 in X; try discriminate; reflexivity.
Qed.




(* join(): whenever _running is observed 0 every accepted task (and, transitively, what it spawned: a child is
   counted before its parent uncounts itself) has finished; every join() that returned found exactly that *)
Lemma ex_newthread_idle_means_done : forall bodies progs s, NReach bodies progs s -> nrunning s = 0%Z ->
  forall id, In id (ncounted s) -> In id (nfinished s).
Proof.
  intros bodies progs s Hr H0 id Hin. destruct (ex_ninv _ _ _ Hr) as [Hc Hf _ _ _ _].
  destruct (Hf _ Hin) as [F|F]; auto. fold (flight (nthreads s)) in F. rewrite usum_zero_flight in F by lia. destruct F.
Qed.
Lemma ex_newthread_join_ok : forall bodies progs s, NReach bodies progs s -> njoin_ok s = true.
Proof. intros bodies progs s Hr. apply (ni_join _ _ (ex_ninv _ _ _ Hr)). Qed.
(* one thread per task: a thread starts at most one task, it is a thread created by invoke (not a client), and
   the task observes is_running_in() *)
Lemma ex_newthread_one_thread_each : forall bodies progs s, NReach bodies progs s ->
  NoDup (map (fun e => snd (fst e)) (nstarted s)) /\
  forall id t sc, In (id, t, sc) (nstarted s) -> sc = true /\ length progs <= t.
Proof.
  intros bodies progs s Hr. destruct (ex_ninv _ _ _ Hr) as [_ _ _ Hst Hnd _]. split; auto.
  intros id t sc Hin. destruct (Hst _ _ _ Hin) as (A & B & _). auto.
Qed.

(* non-vacuity *)
Definition ndemo_bodies : list (list nat) := [[1]; []].
Definition ndemo_progs : list (list nop) := [[NSubmit 0; NJoin]].
Definition ndemo_sched : list nat := concat (repeat [0; 1; 2] 12).
Lemma ex_ndemo : let s := run nst (nstep ndemo_bodies) (ninit ndemo_progs) ndemo_sched in
  NReach ndemo_bodies ndemo_progs s /\ nrunning s = 0%Z /\ nfinished s = [1; 0] /\ ncounted s = [1; 0] /\
  nstarted s = [(0, 1, true); (1, 2, true)] /\ map nopi (nthreads s) = [2; 0; 0].
Proof. split; [exists ndemo_sched; reflexivity|]. vm_compute. repeat split; reflexivity. Qed.
Lemma ex_idemo : inplace_invoke 7 (Task 0 [Task 1 [Task 3 []]; Task 2 []]) {| icur := Some 9; ilog := []; irets := [] |} =
  {| icur := Some 9; ilog := [(0, true); (1, true); (3, true); (2, true)]; irets := [(3, 0%Z); (1, 0%Z); (2, 0%Z); (0, 0%Z)] |}.
Proof. vm_compute. reflexivity. Qed.
