(* Executable models of the two degenerate executors of src/babylon/executor.cpp (property C07).  No proofs here.

   InplaceExecutor::invoke        RunnerScope scope {*this}; function(); return 0;
   AlwaysUseNewThreadExecutor     invoke: _running.fetch_add(1); std::thread([..]{ RunnerScope scope {*this};
                                          captured_function(); _running.fetch_sub(1); }).detach(); return 0;
                                  join:   while (_running.load() > 0) usleep(1000);      ~: join()

   The statement orders inside these bodies and their results are regenerated (Gen_executor: inplace_scope_first,
   inplace_result, newthread_counts_before_spawn, newthread_scope_first, newthread_uncounts_after_run,
   newthread_result, newthread_join_waits) and the models follow them. *)
From Coq Require Import ZArith List Bool Arith.
Require Import Verif.Gen.Gen_executor Verif.EX.EXModel.
Import ListNotations.
Local Open Scope Z_scope.

(* ================================================================================================ *)
(* InplaceExecutor: a task is its id and the tasks it submits (to the same executor) while it runs  *)
Inductive task := Task (id : nat) (children : list task).

Record istate := {
  icur : option nat;               (* BasicExecutor::current(): the executor this thread reports to run in *)
  ilog : list (nat * bool);        (* task id, value of is_running_in() observed inside the task *)
  irets : list (nat * Z)           (* task id, value returned by invoke (0 = accepted; future ready at return) *)
}.

Definition cur_is (s : istate) (me : nat) : bool := match icur s with Some e => Nat.eqb e me | None => false end.
Definition enter_scope (me : nat) (s : istate) : istate :=
  if inplace_scope_first =? 1 then {| icur := Some me; ilog := ilog s; irets := irets s |} else s.
Definition leave_scope (old : option nat) (s : istate) : istate :=
  if inplace_scope_first =? 1 then {| icur := old; ilog := ilog s; irets := irets s |} else s.

(* invoke(function) of executor `me` on the calling thread; the function of task `id` observes is_running_in()
   and then submits its children one after the other (re-entrant invoke) *)
Fixpoint inplace_invoke (me : nat) (t : task) (s : istate) : istate :=
  match t with
  | Task id ch =>
    let old := icur s in
    let s1 := enter_scope me s in
    let s2 := {| icur := icur s1; ilog := ilog s1 ++ [(id, cur_is s1 me)]; irets := irets s1 |} in
    let s3 := (fix run_all (l : list task) (st : istate) : istate :=
                 match l with [] => st | c :: r => run_all r (inplace_invoke me c st) end) ch s2 in
    let s4 := leave_scope old s3 in
    {| icur := icur s4; ilog := ilog s4; irets := irets s4 ++ [(id, inplace_result)] |}
  end.

Fixpoint preorder (t : task) : list nat :=
  match t with Task id ch => id :: (fix all (l : list task) : list nat := match l with [] => [] | c :: r => preorder c ++ all r end) ch end.
Fixpoint postorder (t : task) : list nat :=
  match t with Task id ch => (fix all (l : list task) : list nat := match l with [] => [] | c :: r => postorder c ++ all r end) ch ++ [id] end.

(* ================================================================================================ *)
(* AlwaysUseNewThreadExecutor: interleaving machine; client threads submit tasks and call join();   *)
(* task `id` submits the tasks `nth id bodies []` while it runs                                      *)
Inductive nop := NSubmit (id : nat) | NJoin.

Inductive npc :=
| NIdle                                   (* client between operations *)
| NSpawn (id : nat)                       (* invoke: about to create the thread of task id *)
| TCount (id : nat)                       (* task thread counting itself (only if the count is inside the thread) *)
| TBegin (id : nat)                       (* RunnerScope / captured_function() about to start *)
| TRun (id : nat) (rest : list nat)       (* inside the task: children still to submit *)
| TSpawn (id : nat) (rest : list nat) (child : nat)
| TUncount (id : nat)                     (* function returned (future set); fetch_sub pending *)
| TDone.

Record nthread := { nprog : list nop; nopi : nat; npcv : npc }.

Record nst := {
  nrunning : Z;                           (* _running *)
  nthreads : list nthread;
  nstarted : list (nat * nat * bool);     (* task id, thread that runs it, is_running_in() inside the task *)
  nfinished : list nat;
  ncounted : list nat;                    (* tasks whose invoke has returned (accepted) *)
  njoin_ok : bool                         (* every join() returned so far found all tasks counted before it finished *)
}.

Definition nbody (bodies : list (list nat)) (id : nat) : list nat := nth id bodies [].
Definition mk_client (p : list nop) : nthread := {| nprog := p; nopi := 0; npcv := NIdle |}.
Definition mk_task_thread (id : nat) : nthread :=
  {| nprog := []; nopi := 0; npcv := if newthread_counts_before_spawn =? 1 then TBegin id else TCount id |}.
Definition ninit (progs : list (list nop)) : nst :=
  {| nrunning := 0; nthreads := map mk_client progs; nstarted := []; nfinished := []; ncounted := []; njoin_ok := true |}.

Definition ngoto (th : nthread) (p : npc) : nthread := {| nprog := nprog th; nopi := nopi th; npcv := p |}.
Definition nnext (th : nthread) : nthread := {| nprog := nprog th; nopi := S (nopi th); npcv := NIdle |}.

Definition with_thread (s : nst) (t : nat) (th : nthread) : nst :=
  {| nrunning := nrunning s; nthreads := set_nth t th (nthreads s); nstarted := nstarted s; nfinished := nfinished s;
     ncounted := ncounted s; njoin_ok := njoin_ok s |}.
Definition with_running (s : nst) (r : Z) : nst :=
  {| nrunning := r; nthreads := nthreads s; nstarted := nstarted s; nfinished := nfinished s;
     ncounted := ncounted s; njoin_ok := njoin_ok s |}.
Definition spawn (s : nst) (id : nat) : nst :=
  {| nrunning := nrunning s; nthreads := nthreads s ++ [mk_task_thread id]; nstarted := nstarted s; nfinished := nfinished s;
     ncounted := id :: ncounted s; njoin_ok := njoin_ok s |}.
Definition note_nstart (s : nst) (id t : nat) : nst :=
  {| nrunning := nrunning s; nthreads := nthreads s; nstarted := nstarted s ++ [(id, t, newthread_scope_first =? 1)];
     nfinished := nfinished s; ncounted := ncounted s; njoin_ok := njoin_ok s |}.
Definition note_nfinish (s : nst) (id : nat) : nst :=
  {| nrunning := nrunning s; nthreads := nthreads s; nstarted := nstarted s; nfinished := id :: nfinished s;
     ncounted := ncounted s; njoin_ok := njoin_ok s |}.
Definition memn (id : nat) (l : list nat) : bool := existsb (Nat.eqb id) l.
Definition note_join (s : nst) : nst :=
  {| nrunning := nrunning s; nthreads := nthreads s; nstarted := nstarted s; nfinished := nfinished s;
     ncounted := ncounted s; njoin_ok := njoin_ok s && forallb (fun id => memn id (nfinished s)) (ncounted s) |}.

(* invoke from pc-state `after`: count first (or not), then the spawn step *)
Definition count_if_first (s : nst) : nst :=
  if newthread_counts_before_spawn =? 1 then with_running s (nrunning s + 1) else s.

Definition nstep (bodies : list (list nat)) (s : nst) (t : nat) : option nst :=
  match nth_error (nthreads s) t with
  | None => None
  | Some th =>
    match npcv th with
    | NIdle =>
      match nth_error (nprog th) (nopi th) with
      | None => None
      | Some (NSubmit id) => Some (with_thread (count_if_first s) t (ngoto th (NSpawn id)))
      | Some NJoin =>                       (* load _running *)
        if newthread_join_waits (nrunning s) then Some s      (* usleep, look again *)
        else Some (with_thread (note_join s) t (nnext th))
      end
    | NSpawn id => Some (with_thread (spawn s id) t (nnext th))
    | TCount id => Some (with_thread (with_running s (nrunning s + 1)) t (ngoto th (TBegin id)))
    | TBegin id => Some (with_thread (note_nstart s id t) t (ngoto th (TRun id (nbody bodies id))))
    | TRun id [] => Some (with_thread (note_nfinish s id) t (ngoto th (TUncount id)))
    | TRun id (ch :: rest) => Some (with_thread (count_if_first s) t (ngoto th (TSpawn id rest ch)))
    | TSpawn id rest ch => Some (with_thread (spawn s ch) t (ngoto th (TRun id rest)))
    | TUncount id => Some (with_thread (with_running s (nrunning s - 1)) t (ngoto th TDone))
    | TDone => None
    end
  end.
