
(** val negb : bool -> bool **)

let negb = function
| true -> false
| false -> true

type nat =
| O
| S of nat

(** val fst : ('a1 * 'a2) -> 'a1 **)

let fst = function
| (x, _) -> x

(** val length : 'a1 list -> nat **)

let rec length = function
| [] -> O
| _ :: l' -> S (length l')

(** val app : 'a1 list -> 'a1 list -> 'a1 list **)

let rec app l m =
  match l with
  | [] -> m
  | a :: l1 -> a :: (app l1 m)

type comparison =
| Eq
| Lt
| Gt

(** val compOpp : comparison -> comparison **)

let compOpp = function
| Eq -> Eq
| Lt -> Gt
| Gt -> Lt

module Coq__1 = struct
 (** val add : nat -> nat -> nat **)
 let rec add n0 m =
   match n0 with
   | O -> m
   | S p -> S (add p m)
end
include Coq__1

type positive =
| XI of positive
| XO of positive
| XH

type n =
| N0
| Npos of positive

type z =
| Z0
| Zpos of positive
| Zneg of positive

(** val eqb : bool -> bool -> bool **)

let eqb b1 b2 =
  if b1 then b2 else if b2 then false else true

module Nat =
 struct
  (** val add : nat -> nat -> nat **)

  let rec add n0 m =
    match n0 with
    | O -> m
    | S p -> S (add p m)

  (** val mul : nat -> nat -> nat **)

  let rec mul n0 m =
    match n0 with
    | O -> O
    | S p -> add m (mul p m)

  (** val eqb : nat -> nat -> bool **)

  let rec eqb n0 m =
    match n0 with
    | O -> (match m with
            | O -> true
            | S _ -> false)
    | S n' -> (match m with
               | O -> false
               | S m' -> eqb n' m')

  (** val leb : nat -> nat -> bool **)

  let rec leb n0 m =
    match n0 with
    | O -> true
    | S n' -> (match m with
               | O -> false
               | S m' -> leb n' m')

  (** val ltb : nat -> nat -> bool **)

  let ltb n0 m =
    leb (S n0) m

  (** val pow : nat -> nat -> nat **)

  let rec pow n0 = function
  | O -> S O
  | S m0 -> mul n0 (pow n0 m0)
 end

module Pos =
 struct
  (** val succ : positive -> positive **)

  let rec succ = function
  | XI p -> XO (succ p)
  | XO p -> XI p
  | XH -> XO XH

  (** val add : positive -> positive -> positive **)

  let rec add x y =
    match x with
    | XI p ->
      (match y with
       | XI q -> XO (add_carry p q)
       | XO q -> XI (add p q)
       | XH -> XO (succ p))
    | XO p ->
      (match y with
       | XI q -> XI (add p q)
       | XO q -> XO (add p q)
       | XH -> XI p)
    | XH -> (match y with
             | XI q -> XO (succ q)
             | XO q -> XI q
             | XH -> XO XH)

  (** val add_carry : positive -> positive -> positive **)

  and add_carry x y =
    match x with
    | XI p ->
      (match y with
       | XI q -> XI (add_carry p q)
       | XO q -> XO (add_carry p q)
       | XH -> XI (succ p))
    | XO p ->
      (match y with
       | XI q -> XO (add_carry p q)
       | XO q -> XI (add p q)
       | XH -> XO (succ p))
    | XH ->
      (match y with
       | XI q -> XI (succ q)
       | XO q -> XO (succ q)
       | XH -> XI XH)

  (** val pred_double : positive -> positive **)

  let rec pred_double = function
  | XI p -> XI (XO p)
  | XO p -> XI (pred_double p)
  | XH -> XH

  (** val pred_N : positive -> n **)

  let pred_N = function
  | XI p -> Npos (XO p)
  | XO p -> Npos (pred_double p)
  | XH -> N0

  (** val mul : positive -> positive -> positive **)

  let rec mul x y =
    match x with
    | XI p -> add y (XO (mul p y))
    | XO p -> XO (mul p y)
    | XH -> y

  (** val iter : ('a1 -> 'a1) -> 'a1 -> positive -> 'a1 **)

  let rec iter f x = function
  | XI n' -> f (iter f (iter f x n') n')
  | XO n' -> iter f (iter f x n') n'
  | XH -> f x

  (** val div2 : positive -> positive **)

  let div2 = function
  | XI p0 -> p0
  | XO p0 -> p0
  | XH -> XH

  (** val div2_up : positive -> positive **)

  let div2_up = function
  | XI p0 -> succ p0
  | XO p0 -> p0
  | XH -> XH

  (** val compare_cont : comparison -> positive -> positive -> comparison **)

  let rec compare_cont r x y =
    match x with
    | XI p ->
      (match y with
       | XI q -> compare_cont r p q
       | XO q -> compare_cont Gt p q
       | XH -> Gt)
    | XO p ->
      (match y with
       | XI q -> compare_cont Lt p q
       | XO q -> compare_cont r p q
       | XH -> Gt)
    | XH -> (match y with
             | XH -> r
             | _ -> Lt)

  (** val compare : positive -> positive -> comparison **)

  let compare =
    compare_cont Eq

  (** val eqb : positive -> positive -> bool **)

  let rec eqb p q =
    match p with
    | XI p0 -> (match q with
                | XI q0 -> eqb p0 q0
                | _ -> false)
    | XO p0 -> (match q with
                | XO q0 -> eqb p0 q0
                | _ -> false)
    | XH -> (match q with
             | XH -> true
             | _ -> false)

  (** val coq_Nsucc_double : n -> n **)

  let coq_Nsucc_double = function
  | N0 -> Npos XH
  | Npos p -> Npos (XI p)

  (** val coq_Ndouble : n -> n **)

  let coq_Ndouble = function
  | N0 -> N0
  | Npos p -> Npos (XO p)

  (** val coq_lor : positive -> positive -> positive **)

  let rec coq_lor p q =
    match p with
    | XI p0 ->
      (match q with
       | XI q0 -> XI (coq_lor p0 q0)
       | XO q0 -> XI (coq_lor p0 q0)
       | XH -> p)
    | XO p0 ->
      (match q with
       | XI q0 -> XI (coq_lor p0 q0)
       | XO q0 -> XO (coq_lor p0 q0)
       | XH -> XI p0)
    | XH -> (match q with
             | XO q0 -> XI q0
             | _ -> q)

  (** val coq_land : positive -> positive -> n **)

  let rec coq_land p q =
    match p with
    | XI p0 ->
      (match q with
       | XI q0 -> coq_Nsucc_double (coq_land p0 q0)
       | XO q0 -> coq_Ndouble (coq_land p0 q0)
       | XH -> Npos XH)
    | XO p0 ->
      (match q with
       | XI q0 -> coq_Ndouble (coq_land p0 q0)
       | XO q0 -> coq_Ndouble (coq_land p0 q0)
       | XH -> N0)
    | XH -> (match q with
             | XO _ -> N0
             | _ -> Npos XH)

  (** val ldiff : positive -> positive -> n **)

  let rec ldiff p q =
    match p with
    | XI p0 ->
      (match q with
       | XI q0 -> coq_Ndouble (ldiff p0 q0)
       | XO q0 -> coq_Nsucc_double (ldiff p0 q0)
       | XH -> Npos (XO p0))
    | XO p0 ->
      (match q with
       | XI q0 -> coq_Ndouble (ldiff p0 q0)
       | XO q0 -> coq_Ndouble (ldiff p0 q0)
       | XH -> Npos p)
    | XH -> (match q with
             | XO _ -> Npos XH
             | _ -> N0)

  (** val testbit : positive -> n -> bool **)

  let rec testbit p n0 =
    match p with
    | XI p0 -> (match n0 with
                | N0 -> true
                | Npos n1 -> testbit p0 (pred_N n1))
    | XO p0 -> (match n0 with
                | N0 -> false
                | Npos n1 -> testbit p0 (pred_N n1))
    | XH -> (match n0 with
             | N0 -> true
             | Npos _ -> false)

  (** val iter_op : ('a1 -> 'a1 -> 'a1) -> positive -> 'a1 -> 'a1 **)

  let rec iter_op op0 p a =
    match p with
    | XI p0 -> op0 a (iter_op op0 p0 (op0 a a))
    | XO p0 -> iter_op op0 p0 (op0 a a)
    | XH -> a

  (** val to_nat : positive -> nat **)

  let to_nat x =
    iter_op Coq__1.add x (S O)

  (** val of_succ_nat : nat -> positive **)

  let rec of_succ_nat = function
  | O -> XH
  | S x -> succ (of_succ_nat x)
 end

module N =
 struct
  (** val succ_pos : n -> positive **)

  let succ_pos = function
  | N0 -> XH
  | Npos p -> Pos.succ p

  (** val coq_lor : n -> n -> n **)

  let coq_lor n0 m =
    match n0 with
    | N0 -> m
    | Npos p -> (match m with
                 | N0 -> n0
                 | Npos q -> Npos (Pos.coq_lor p q))

  (** val ldiff : n -> n -> n **)

  let ldiff n0 m =
    match n0 with
    | N0 -> N0
    | Npos p -> (match m with
                 | N0 -> n0
                 | Npos q -> Pos.ldiff p q)

  (** val testbit : n -> n -> bool **)

  let testbit a n0 =
    match a with
    | N0 -> false
    | Npos p -> Pos.testbit p n0
 end

module Z =
 struct
  (** val double : z -> z **)

  let double = function
  | Z0 -> Z0
  | Zpos p -> Zpos (XO p)
  | Zneg p -> Zneg (XO p)

  (** val succ_double : z -> z **)

  let succ_double = function
  | Z0 -> Zpos XH
  | Zpos p -> Zpos (XI p)
  | Zneg p -> Zneg (Pos.pred_double p)

  (** val pred_double : z -> z **)

  let pred_double = function
  | Z0 -> Zneg XH
  | Zpos p -> Zpos (Pos.pred_double p)
  | Zneg p -> Zneg (XI p)

  (** val pos_sub : positive -> positive -> z **)

  let rec pos_sub x y =
    match x with
    | XI p ->
      (match y with
       | XI q -> double (pos_sub p q)
       | XO q -> succ_double (pos_sub p q)
       | XH -> Zpos (XO p))
    | XO p ->
      (match y with
       | XI q -> pred_double (pos_sub p q)
       | XO q -> double (pos_sub p q)
       | XH -> Zpos (Pos.pred_double p))
    | XH ->
      (match y with
       | XI q -> Zneg (XO q)
       | XO q -> Zneg (Pos.pred_double q)
       | XH -> Z0)

  (** val add : z -> z -> z **)

  let add x y =
    match x with
    | Z0 -> y
    | Zpos x' ->
      (match y with
       | Z0 -> x
       | Zpos y' -> Zpos (Pos.add x' y')
       | Zneg y' -> pos_sub x' y')
    | Zneg x' ->
      (match y with
       | Z0 -> x
       | Zpos y' -> pos_sub y' x'
       | Zneg y' -> Zneg (Pos.add x' y'))

  (** val opp : z -> z **)

  let opp = function
  | Z0 -> Z0
  | Zpos x0 -> Zneg x0
  | Zneg x0 -> Zpos x0

  (** val pred : z -> z **)

  let pred x =
    add x (Zneg XH)

  (** val sub : z -> z -> z **)

  let sub m n0 =
    add m (opp n0)

  (** val mul : z -> z -> z **)

  let mul x y =
    match x with
    | Z0 -> Z0
    | Zpos x' ->
      (match y with
       | Z0 -> Z0
       | Zpos y' -> Zpos (Pos.mul x' y')
       | Zneg y' -> Zneg (Pos.mul x' y'))
    | Zneg x' ->
      (match y with
       | Z0 -> Z0
       | Zpos y' -> Zneg (Pos.mul x' y')
       | Zneg y' -> Zpos (Pos.mul x' y'))

  (** val pow_pos : z -> positive -> z **)

  let pow_pos z0 =
    Pos.iter (mul z0) (Zpos XH)

  (** val pow : z -> z -> z **)

  let pow x = function
  | Z0 -> Zpos XH
  | Zpos p -> pow_pos x p
  | Zneg _ -> Z0

  (** val compare : z -> z -> comparison **)

  let compare x y =
    match x with
    | Z0 -> (match y with
             | Z0 -> Eq
             | Zpos _ -> Lt
             | Zneg _ -> Gt)
    | Zpos x' -> (match y with
                  | Zpos y' -> Pos.compare x' y'
                  | _ -> Gt)
    | Zneg x' ->
      (match y with
       | Zneg y' -> compOpp (Pos.compare x' y')
       | _ -> Lt)

  (** val leb : z -> z -> bool **)

  let leb x y =
    match compare x y with
    | Gt -> false
    | _ -> true

  (** val ltb : z -> z -> bool **)

  let ltb x y =
    match compare x y with
    | Lt -> true
    | _ -> false

  (** val eqb : z -> z -> bool **)

  let eqb x y =
    match x with
    | Z0 -> (match y with
             | Z0 -> true
             | _ -> false)
    | Zpos p -> (match y with
                 | Zpos q -> Pos.eqb p q
                 | _ -> false)
    | Zneg p -> (match y with
                 | Zneg q -> Pos.eqb p q
                 | _ -> false)

  (** val to_nat : z -> nat **)

  let to_nat = function
  | Zpos p -> Pos.to_nat p
  | _ -> O

  (** val of_nat : nat -> z **)

  let of_nat = function
  | O -> Z0
  | S n1 -> Zpos (Pos.of_succ_nat n1)

  (** val of_N : n -> z **)

  let of_N = function
  | N0 -> Z0
  | Npos p -> Zpos p

  (** val pos_div_eucl : positive -> z -> z * z **)

  let rec pos_div_eucl a b =
    match a with
    | XI a' ->
      let (q, r) = pos_div_eucl a' b in
      let r' = add (mul (Zpos (XO XH)) r) (Zpos XH) in
      if ltb r' b
      then ((mul (Zpos (XO XH)) q), r')
      else ((add (mul (Zpos (XO XH)) q) (Zpos XH)), (sub r' b))
    | XO a' ->
      let (q, r) = pos_div_eucl a' b in
      let r' = mul (Zpos (XO XH)) r in
      if ltb r' b
      then ((mul (Zpos (XO XH)) q), r')
      else ((add (mul (Zpos (XO XH)) q) (Zpos XH)), (sub r' b))
    | XH -> if leb (Zpos (XO XH)) b then (Z0, (Zpos XH)) else ((Zpos XH), Z0)

  (** val div_eucl : z -> z -> z * z **)

  let div_eucl a b =
    match a with
    | Z0 -> (Z0, Z0)
    | Zpos a' ->
      (match b with
       | Z0 -> (Z0, a)
       | Zpos _ -> pos_div_eucl a' b
       | Zneg b' ->
         let (q, r) = pos_div_eucl a' (Zpos b') in
         (match r with
          | Z0 -> ((opp q), Z0)
          | _ -> ((opp (add q (Zpos XH))), (add b r))))
    | Zneg a' ->
      (match b with
       | Z0 -> (Z0, a)
       | Zpos _ ->
         let (q, r) = pos_div_eucl a' b in
         (match r with
          | Z0 -> ((opp q), Z0)
          | _ -> ((opp (add q (Zpos XH))), (sub b r)))
       | Zneg b' -> let (q, r) = pos_div_eucl a' (Zpos b') in (q, (opp r)))

  (** val modulo : z -> z -> z **)

  let modulo a b =
    let (_, r) = div_eucl a b in r

  (** val odd : z -> bool **)

  let odd = function
  | Z0 -> false
  | Zpos p -> (match p with
               | XO _ -> false
               | _ -> true)
  | Zneg p -> (match p with
               | XO _ -> false
               | _ -> true)

  (** val div2 : z -> z **)

  let div2 = function
  | Z0 -> Z0
  | Zpos p -> (match p with
               | XH -> Z0
               | _ -> Zpos (Pos.div2 p))
  | Zneg p -> Zneg (Pos.div2_up p)

  (** val testbit : z -> z -> bool **)

  let testbit a = function
  | Z0 -> odd a
  | Zpos p ->
    (match a with
     | Z0 -> false
     | Zpos a0 -> Pos.testbit a0 (Npos p)
     | Zneg a0 -> negb (N.testbit (Pos.pred_N a0) (Npos p)))
  | Zneg _ -> false

  (** val shiftl : z -> z -> z **)

  let shiftl a = function
  | Z0 -> a
  | Zpos p -> Pos.iter (mul (Zpos (XO XH))) a p
  | Zneg p -> Pos.iter div2 a p

  (** val shiftr : z -> z -> z **)

  let shiftr a n0 =
    shiftl a (opp n0)

  (** val coq_land : z -> z -> z **)

  let coq_land a b =
    match a with
    | Z0 -> Z0
    | Zpos a0 ->
      (match b with
       | Z0 -> Z0
       | Zpos b0 -> of_N (Pos.coq_land a0 b0)
       | Zneg b0 -> of_N (N.ldiff (Npos a0) (Pos.pred_N b0)))
    | Zneg a0 ->
      (match b with
       | Z0 -> Z0
       | Zpos b0 -> of_N (N.ldiff (Npos b0) (Pos.pred_N a0))
       | Zneg b0 ->
         Zneg (N.succ_pos (N.coq_lor (Pos.pred_N a0) (Pos.pred_N b0))))

  (** val lnot : z -> z **)

  let lnot a =
    pred (opp a)
 end

(** val nth : nat -> 'a1 list -> 'a1 -> 'a1 **)

let rec nth n0 l default =
  match n0 with
  | O -> (match l with
          | [] -> default
          | x :: _ -> x)
  | S m -> (match l with
            | [] -> default
            | _ :: t -> nth m t default)

(** val nth_error : 'a1 list -> nat -> 'a1 option **)

let rec nth_error l = function
| O -> (match l with
        | [] -> None
        | x :: _ -> Some x)
| S n1 -> (match l with
           | [] -> None
           | _ :: l0 -> nth_error l0 n1)

(** val concat : 'a1 list list -> 'a1 list **)

let rec concat = function
| [] -> []
| x :: l0 -> app x (concat l0)

(** val map : ('a1 -> 'a2) -> 'a1 list -> 'a2 list **)

let rec map f = function
| [] -> []
| a :: t -> (f a) :: (map f t)

(** val existsb : ('a1 -> bool) -> 'a1 list -> bool **)

let rec existsb f = function
| [] -> false
| a :: l0 -> (||) (f a) (existsb f l0)

(** val forallb : ('a1 -> bool) -> 'a1 list -> bool **)

let rec forallb f = function
| [] -> true
| a :: l0 -> (&&) (f a) (forallb f l0)

(** val filter : ('a1 -> bool) -> 'a1 list -> 'a1 list **)

let rec filter f = function
| [] -> []
| x :: l0 -> if f x then x :: (filter f l0) else filter f l0

(** val firstn : nat -> 'a1 list -> 'a1 list **)

let rec firstn n0 l =
  match n0 with
  | O -> []
  | S n1 -> (match l with
             | [] -> []
             | a :: l0 -> a :: (firstn n1 l0))

(** val skipn : nat -> 'a1 list -> 'a1 list **)

let rec skipn n0 l =
  match n0 with
  | O -> l
  | S n1 -> (match l with
             | [] -> []
             | _ :: l0 -> skipn n1 l0)

(** val repeat : 'a1 -> nat -> 'a1 list **)

let rec repeat x = function
| O -> []
| S k -> x :: (repeat x k)

(** val push_ver : z -> z -> z **)

let push_ver slot_bits index =
  Z.shiftl (Z.shiftr index slot_bits) (Zpos XH)

(** val pop_ver : z -> z -> z **)

let pop_ver slot_bits index =
  Z.add (push_ver slot_bits index) (Zpos XH)

(** val slot_index : z -> z -> z **)

let slot_index =
  Z.coq_land

(** val slot_index_try : z -> z -> z **)

let slot_index_try =
  Z.coq_land

(** val slot_index_n : z -> z -> z **)

let slot_index_n =
  Z.coq_land

(** val slot_index_tryn : z -> z -> z **)

let slot_index_tryn =
  Z.coq_land

(** val slot_index_until : z -> z -> z **)

let slot_index_until =
  Z.coq_land

(** val push_n_round : z -> z -> z **)

let push_n_round index slot_mask =
  Z.coq_land (Z.add (Z.add index slot_mask) (Zpos XH)) (Z.lnot slot_mask)

(** val push_n_fits : z -> z -> z -> bool **)

let push_n_fits index num next_round_begin_index =
  Z.leb (Z.add index num) next_round_begin_index

(** val push_n_first : z -> z -> z -> z **)

let push_n_first index _ next_round_begin_index =
  Z.sub next_round_begin_index index

(** val push_n_second : z -> z -> z -> z **)

let push_n_second index num next_round_begin_index =
  Z.sub (Z.add index num) next_round_begin_index

(** val pop_n_round : z -> z -> z **)

let pop_n_round index slot_mask =
  Z.coq_land (Z.add (Z.add index slot_mask) (Zpos XH)) (Z.lnot slot_mask)

(** val pop_n_fits : z -> z -> z -> bool **)

let pop_n_fits index num next_round_begin_index =
  Z.leb (Z.add index num) next_round_begin_index

(** val pop_n_first : z -> z -> z -> z **)

let pop_n_first index _ next_round_begin_index =
  Z.sub next_round_begin_index index

(** val pop_n_second : z -> z -> z -> z **)

let pop_n_second index num next_round_begin_index =
  Z.sub (Z.add index num) next_round_begin_index

(** val try_push_n_end : z -> z -> z **)

let try_push_n_end =
  Z.add

(** val try_push_n_round : z -> z -> z **)

let try_push_n_round index slot_mask =
  Z.coq_land (Z.add (Z.add index slot_mask) (Zpos XH)) (Z.lnot slot_mask)

(** val try_push_n_fits : z -> z -> bool **)

let try_push_n_fits =
  Z.leb

(** val try_push_n_whole : z -> z -> z **)

let try_push_n_whole index end_index =
  Z.sub end_index index

(** val try_push_n_first : z -> z -> z **)

let try_push_n_first index next_round_begin_index =
  Z.sub next_round_begin_index index

(** val try_push_n_short : z -> z -> bool **)

let try_push_n_short =
  Z.ltb

(** val try_push_n_second : z -> z -> z **)

let try_push_n_second =
  Z.sub

(** val try_pop_n_end : z -> z -> z **)

let try_pop_n_end =
  Z.add

(** val try_pop_n_round : z -> z -> z **)

let try_pop_n_round index slot_mask =
  Z.coq_land (Z.add (Z.add index slot_mask) (Zpos XH)) (Z.lnot slot_mask)

(** val try_pop_n_fits : z -> z -> bool **)

let try_pop_n_fits =
  Z.leb

(** val try_pop_n_whole : z -> z -> z **)

let try_pop_n_whole index end_index =
  Z.sub end_index index

(** val try_pop_n_first : z -> z -> z **)

let try_pop_n_first index next_round_begin_index =
  Z.sub next_round_begin_index index

(** val try_pop_n_short : z -> z -> bool **)

let try_pop_n_short =
  Z.ltb

(** val try_pop_n_second : z -> z -> z **)

let try_pop_n_second =
  Z.sub

(** val until_index : z -> z -> z **)

let until_index =
  Z.add

(** val until_try_num : z -> z **)

let until_try_num num =
  num

(** val fw_push_default_value : z **)

let fw_push_default_value =
  Z.add
    (Z.add (Z.mul (Zpos XH) (Zpos (XO (XO XH))))
      (Z.mul (Zpos XH) (Zpos (XO XH)))) (Zpos XH)

(** val fw_push_default_cb : z **)

let fw_push_default_cb =
  Z.add
    (Z.add (Z.mul (Zpos XH) (Zpos (XO (XO XH))))
      (Z.mul (Zpos XH) (Zpos (XO XH)))) (Zpos XH)

(** val fw_push_value : z -> z -> z -> z **)

let fw_push_value c w k =
  Z.add (Z.add (Z.mul c (Zpos (XO (XO XH)))) (Z.mul w (Zpos (XO XH)))) k

(** val fw_push_core : z -> z -> z **)

let fw_push_core w k =
  Z.add (Z.add (Z.mul w (Zpos (XO (XO XH)))) (Z.mul k (Zpos (XO XH)))) (Zpos
    XH)

(** val fw_try_push_value : z -> z -> z **)

let fw_try_push_value c k =
  Z.add (Z.mul c (Zpos (XO XH))) k

(** val fw_try_push_core : z -> z -> z **)

let fw_try_push_core c k =
  Z.add (Z.add (Z.mul c (Zpos (XO (XO XH)))) (Z.mul k (Zpos (XO XH)))) (Zpos
    XH)

(** val fw_push_n_default_it : z **)

let fw_push_n_default_it =
  Z.add
    (Z.add (Z.mul (Zpos XH) (Zpos (XO (XO XH))))
      (Z.mul (Zpos XH) (Zpos (XO XH)))) (Zpos XH)

(** val fw_push_n_default_cb : z **)

let fw_push_n_default_cb =
  Z.add
    (Z.add (Z.mul (Zpos XH) (Zpos (XO (XO XH))))
      (Z.mul (Zpos XH) (Zpos (XO XH)))) (Zpos XH)

(** val fw_push_n_it : z -> z -> z -> z **)

let fw_push_n_it c w k =
  Z.add (Z.add (Z.mul c (Zpos (XO (XO XH)))) (Z.mul w (Zpos (XO XH)))) k

(** val fw_push_n_core_whole : z -> z -> z **)

let fw_push_n_core_whole w k =
  Z.add (Z.add (Z.mul w (Zpos (XO (XO XH)))) (Z.mul k (Zpos (XO XH)))) (Zpos
    XH)

(** val fw_push_n_core_first : z -> z -> z **)

let fw_push_n_core_first w k =
  Z.add (Z.add (Z.mul w (Zpos (XO (XO XH)))) (Z.mul k (Zpos (XO XH)))) (Zpos
    XH)

(** val fw_push_n_core_second : z -> z -> z **)

let fw_push_n_core_second w k =
  Z.add (Z.add (Z.mul w (Zpos (XO (XO XH)))) (Z.mul k (Zpos (XO XH)))) (Zpos
    XH)

(** val fw_try_push_n_core_whole : z -> z -> z **)

let fw_try_push_n_core_whole c k =
  Z.add (Z.add (Z.mul c (Zpos (XO (XO XH)))) (Z.mul k (Zpos (XO XH)))) (Zpos
    XH)

(** val fw_try_push_n_core_first : z -> z -> z **)

let fw_try_push_n_core_first c k =
  Z.add (Z.add (Z.mul c (Zpos (XO (XO XH)))) (Z.mul k (Zpos (XO XH)))) (Zpos
    XH)

(** val fw_try_push_n_core_second : z -> z -> z **)

let fw_try_push_n_core_second c k =
  Z.add (Z.add (Z.mul c (Zpos (XO (XO XH)))) (Z.mul k (Zpos (XO XH)))) (Zpos
    XH)

(** val fw_pop_default_ref : z **)

let fw_pop_default_ref =
  Z.add
    (Z.add (Z.mul (Zpos XH) (Zpos (XO (XO XH))))
      (Z.mul (Zpos XH) (Zpos (XO XH)))) (Zpos XH)

(** val fw_pop_default_cb : z **)

let fw_pop_default_cb =
  Z.add
    (Z.add (Z.mul (Zpos XH) (Zpos (XO (XO XH))))
      (Z.mul (Zpos XH) (Zpos (XO XH)))) (Zpos XH)

(** val fw_pop_ptr : z -> z -> z -> z **)

let fw_pop_ptr c w k =
  Z.add (Z.add (Z.mul c (Zpos (XO (XO XH)))) (Z.mul w (Zpos (XO XH)))) k

(** val fw_pop_ref : z -> z -> z -> z **)

let fw_pop_ref c w k =
  Z.add (Z.add (Z.mul c (Zpos (XO (XO XH)))) (Z.mul w (Zpos (XO XH)))) k

(** val fw_pop_core : z -> z -> z **)

let fw_pop_core w k =
  Z.add (Z.add (Z.mul w (Zpos (XO (XO XH)))) (Z.mul k (Zpos (XO XH)))) Z0

(** val fw_pop_default_ptr : z **)

let fw_pop_default_ptr =
  Z.add
    (Z.add (Z.mul (Zpos XH) (Zpos (XO (XO XH))))
      (Z.mul (Zpos XH) (Zpos (XO XH)))) (Zpos XH)

(** val fw_try_pop_default_ref : z **)

let fw_try_pop_default_ref =
  Z.add (Z.mul (Zpos XH) (Zpos (XO XH))) (Zpos XH)

(** val fw_try_pop_default_cb : z **)

let fw_try_pop_default_cb =
  Z.add (Z.mul (Zpos XH) (Zpos (XO XH))) (Zpos XH)

(** val fw_try_pop_ref : z -> z -> z **)

let fw_try_pop_ref c k =
  Z.add (Z.mul c (Zpos (XO XH))) k

(** val fw_try_pop_core : z -> z -> z **)

let fw_try_pop_core c k =
  Z.add (Z.add (Z.mul c (Zpos (XO (XO XH)))) (Z.mul k (Zpos (XO XH)))) Z0

(** val fw_pop_n_default_it : z **)

let fw_pop_n_default_it =
  Z.add
    (Z.add (Z.mul (Zpos XH) (Zpos (XO (XO XH))))
      (Z.mul (Zpos XH) (Zpos (XO XH)))) (Zpos XH)

(** val fw_pop_n_default_cb : z **)

let fw_pop_n_default_cb =
  Z.add
    (Z.add (Z.mul (Zpos XH) (Zpos (XO (XO XH))))
      (Z.mul (Zpos XH) (Zpos (XO XH)))) (Zpos XH)

(** val fw_pop_n_it : z -> z -> z -> z **)

let fw_pop_n_it c w k =
  Z.add (Z.add (Z.mul c (Zpos (XO (XO XH)))) (Z.mul w (Zpos (XO XH)))) k

(** val fw_pop_n_core_whole : z -> z -> z **)

let fw_pop_n_core_whole w k =
  Z.add (Z.add (Z.mul w (Zpos (XO (XO XH)))) (Z.mul k (Zpos (XO XH)))) Z0

(** val fw_pop_n_core_first : z -> z -> z **)

let fw_pop_n_core_first w k =
  Z.add (Z.add (Z.mul w (Zpos (XO (XO XH)))) (Z.mul k (Zpos (XO XH)))) Z0

(** val fw_pop_n_core_second : z -> z -> z **)

let fw_pop_n_core_second w k =
  Z.add (Z.add (Z.mul w (Zpos (XO (XO XH)))) (Z.mul k (Zpos (XO XH)))) Z0

(** val fw_try_pop_n_core_whole : z -> z -> z **)

let fw_try_pop_n_core_whole c k =
  Z.add (Z.add (Z.mul c (Zpos (XO (XO XH)))) (Z.mul k (Zpos (XO XH)))) Z0

(** val fw_try_pop_n_core_first : z -> z -> z **)

let fw_try_pop_n_core_first c k =
  Z.add (Z.add (Z.mul c (Zpos (XO (XO XH)))) (Z.mul k (Zpos (XO XH)))) Z0

(** val fw_try_pop_n_core_second : z -> z -> z **)

let fw_try_pop_n_core_second c k =
  Z.add (Z.add (Z.mul c (Zpos (XO (XO XH)))) (Z.mul k (Zpos (XO XH)))) Z0

(** val fw_until_core : z -> z **)

let fw_until_core k =
  Z.add (Z.mul Z0 (Zpos (XO XH))) k

(** val wait_ready : z -> z -> bool **)

let wait_ready =
  Z.eqb

(** val block_no_waiter : z -> bool **)

let block_no_waiter word =
  Z.leb word (Zpos (XI (XI (XI (XI (XI (XI (XI (XI (XI (XI (XI (XI (XI (XI
    (XI XH))))))))))))))))

(** val block_wait_word : z -> z **)

let block_wait_word word =
  Z.add
    (Z.add word (Zpos (XI (XI (XI (XI (XI (XI (XI (XI (XI (XI (XI (XI (XI (XI
      (XI XH))))))))))))))))) (Zpos XH)

(** val block_cas_ready : z -> z -> bool **)

let block_cas_ready =
  Z.eqb

(** val block_reload_ready : z -> z -> bool **)

let block_reload_ready =
  Z.eqb

(** val block_elapsed : z -> z -> z **)

let block_elapsed begin_time_ns end_time_ns =
  Z.sub end_time_ns begin_time_ns

(** val block_expired : z -> bool **)

let block_expired wait_duration =
  Z.leb wait_duration Z0

(** val spin_ready : z -> z -> bool **)

let spin_ready =
  Z.eqb

(** val wakeup_no_waiter : z -> bool **)

let wakeup_no_waiter word =
  Z.leb word (Zpos (XI (XI (XI (XI (XI (XI (XI (XI (XI (XI (XI (XI (XI (XI
    (XI XH))))))))))))))))

(** val wakeup_moved_on : z -> z -> bool **)

let wakeup_moved_on version current_version =
  negb (Z.eqb version current_version)

(** val xchg_no_waiter : z -> bool **)

let xchg_no_waiter word =
  Z.leb word (Zpos (XI (XI (XI (XI (XI (XI (XI (XI (XI (XI (XI (XI (XI (XI
    (XI XH))))))))))))))))

(** val deal_next_version : z -> z **)

let deal_next_version expected_version =
  Z.add expected_version (Zpos XH)

(** val deal_next_version_nowake : z -> z **)

let deal_next_version_nowake expected_version =
  Z.add expected_version (Zpos XH)

(** val try_deal_not_ready : z -> z -> bool **)

let try_deal_not_ready expected_version version =
  negb (Z.eqb expected_version version)

(** val try_deal_same_index : z -> z -> bool **)

let try_deal_same_index =
  Z.eqb

(** val try_deal_next_index : z -> z **)

let try_deal_next_index index =
  Z.add index (Zpos XH)

(** val try_deal_next_version : z -> z **)

let try_deal_next_version expected_version =
  Z.add expected_version (Zpos XH)

(** val try_deal_next_version_nowake : z -> z **)

let try_deal_next_version_nowake expected_version =
  Z.add expected_version (Zpos XH)

(** val deal_n_next_version : z -> z **)

let deal_n_next_version expected_version =
  Z.add expected_version (Zpos XH)

(** val deal_n_wake_version : z -> z **)

let deal_n_wake_version expected_version =
  Z.add expected_version (Zpos XH)

(** val try_deal_n_not_ready : z -> z -> bool **)

let try_deal_n_not_ready expected_version version =
  negb (Z.eqb expected_version version)

(** val try_deal_n_none : z -> bool **)

let try_deal_n_none num =
  Z.eqb num Z0

(** val try_deal_n_next_index : z -> z -> z **)

let try_deal_n_next_index =
  Z.add

(** val try_deal_n_next_index_excl : z -> z -> z **)

let try_deal_n_next_index_excl =
  Z.add

(** val try_deal_n_next_version : z -> z **)

let try_deal_n_next_version expected_version =
  Z.add expected_version (Zpos XH)

(** val try_deal_n_wake_version : z -> z **)

let try_deal_n_wake_version expected_version =
  Z.add expected_version (Zpos XH)

type flags = { conc : bool; fwait : bool; fwake : bool }

type op =
| OPush of flags * z
| OPop of flags
| OTryPush of flags * z
| OTryPop of flags
| OPushN of flags * z list
| OPopN of flags * nat
| OTryPushN of flags * z list
| OTryPopN of flags * nat
| OPopUntil of flags * nat * z

type kind =
| KSingle
| KBatch
| KTry
| KTryN
| KUntil

(** val okind : op -> kind **)

let okind = function
| OPush (_, _) -> KSingle
| OPop _ -> KSingle
| OTryPush (_, _) -> KTry
| OTryPop _ -> KTry
| OPushN (_, _) -> KBatch
| OPopN (_, _) -> KBatch
| OPopUntil (_, _, _) -> KUntil
| _ -> KTryN

(** val is_push : op -> bool **)

let is_push = function
| OPush (_, _) -> true
| OTryPush (_, _) -> true
| OPushN (_, _) -> true
| OTryPushN (_, _) -> true
| _ -> false

(** val oflags : op -> flags **)

let oflags = function
| OPush (f, _) -> f
| OPop f -> f
| OTryPush (f, _) -> f
| OTryPop f -> f
| OPushN (f, _) -> f
| OPopN (f, _) -> f
| OTryPushN (f, _) -> f
| OTryPopN (f, _) -> f
| OPopUntil (f, _, _) -> f

(** val ovals : op -> z list **)

let ovals = function
| OPush (_, v) -> v :: []
| OTryPush (_, v) -> v :: []
| OPushN (_, vs) -> vs
| OTryPushN (_, vs) -> vs
| _ -> []

(** val onum : op -> nat **)

let onum = function
| OPushN (_, vs) -> length vs
| OPopN (_, n0) -> n0
| OTryPushN (_, vs) -> length vs
| OTryPopN (_, n0) -> n0
| OPopUntil (_, n0, _) -> n0
| _ -> S O

(** val oconc : op -> bool **)

let oconc o = match o with
| OPopUntil (_, _, _) -> false
| _ -> (oflags o).conc

(** val ofwait : op -> bool **)

let ofwait o =
  match okind o with
  | KSingle -> (oflags o).fwait
  | KBatch -> (oflags o).fwait
  | KUntil -> true
  | _ -> false

(** val is_single : op -> bool **)

let is_single o =
  match okind o with
  | KSingle -> true
  | KTry -> true
  | _ -> false

(** val is_timed : op -> bool **)

let is_timed = function
| OPopUntil (_, _, _) -> true
| _ -> false

type res = { r_cnt : nat; r_vals : z list; r_tks : (z * nat) list;
             r_full : bool; r_over : bool }

type pc =
| Idle
| TkStore of z
| WLoad of nat
| WCas of nat * z
| WFutex of nat * z
| WParked of nat * nat
| WReload of nat
| WSleep of nat
| WSpin of nat
| FenceA
| Callback
| FenceR
| Pub of nat
| PubWake of nat
| FenceSC
| WkLoad of nat
| WkCas of nat * z
| WkWake of nat * nat
| TryVer of z
| TryReidx of z
| TryCas of z
| TnVer of nat
| TnCas
| TnIdx

type loc = { seg_i : z; seg_n : nat; seg_req : nat; rest : (z * nat) option;
             vals : z list; got : z list; cnt : nat; tks : (z * nat) list;
             jfull : bool; jover : bool; uidx : z; tbegin : z; trem : 
             z; dl : z }

(** val loc0 : loc **)

let loc0 =
  { seg_i = Z0; seg_n = O; seg_req = O; rest = None; vals = []; got = [];
    cnt = O; tks = []; jfull = false; jover = false; uidx = Z0; tbegin = Z0;
    trem = Z0; dl = Z0 }

type thread = { prog : op list; opi : nat; tpc : pc; results : res list;
                lc : loc }

type slot = { ver : z; wf : bool; pay : z option; own : nat option }

(** val slot0 : slot **)

let slot0 =
  { ver = Z0; wf = false; pay = None; own = None }

type st = { kbits : nat; npush : z; npop : z; slots : slot list;
            threads : thread list; clock : z; pushed : (z * z) list;
            delivered : (z * z) list; err : bool }

(** val threads : st -> thread list **)

let threads s =
  s.threads

(** val clock : st -> z **)

let clock s =
  s.clock

(** val pushed : st -> (z * z) list **)

let pushed s =
  s.pushed

(** val delivered : st -> (z * z) list **)

let delivered s =
  s.delivered

(** val err : st -> bool **)

let err s =
  s.err

(** val capacity : st -> z **)

let capacity s =
  Z.pow (Zpos (XO XH)) (Z.of_nat s.kbits)

(** val mask : st -> z **)

let mask s =
  Z.sub (capacity s) (Zpos XH)

(** val mk_thread : op list -> thread **)

let mk_thread p =
  { prog = p; opi = O; tpc = Idle; results = []; lc = loc0 }

(** val init : nat -> op list list -> st **)

let init k progs =
  { kbits = k; npush = Z0; npop = Z0; slots =
    (repeat slot0 (Nat.pow (S (S O)) k)); threads = (map mk_thread progs);
    clock = Z0; pushed = []; delivered = []; err = false }

(** val set_nth : nat -> 'a1 -> 'a1 list -> 'a1 list **)

let rec set_nth n0 x = function
| [] -> []
| y :: r -> (match n0 with
             | O -> x :: r
             | S n' -> y :: (set_nth n' x r))

(** val with_threads : st -> thread list -> st **)

let with_threads s ths =
  { kbits = s.kbits; npush = s.npush; npop = s.npop; slots = s.slots;
    threads = ths; clock = s.clock; pushed = s.pushed; delivered =
    s.delivered; err = s.err }

(** val with_slots : st -> slot list -> st **)

let with_slots s sls =
  { kbits = s.kbits; npush = s.npush; npop = s.npop; slots = sls; threads =
    s.threads; clock = s.clock; pushed = s.pushed; delivered = s.delivered;
    err = s.err }

(** val with_next : st -> bool -> z -> st **)

let with_next s role v =
  { kbits = s.kbits; npush = (if role then v else s.npush); npop =
    (if role then s.npop else v); slots = s.slots; threads = s.threads;
    clock = s.clock; pushed = s.pushed; delivered = s.delivered; err = s.err }

(** val with_ghost :
    st -> slot list -> (z * z) list -> (z * z) list -> bool -> st **)

let with_ghost s sls ps ds e =
  { kbits = s.kbits; npush = s.npush; npop = s.npop; slots = sls; threads =
    s.threads; clock = s.clock; pushed = ps; delivered = ds; err = e }

(** val upd : st -> nat -> thread -> st **)

let upd s t th =
  with_threads s (set_nth t th s.threads)

(** val next_of : st -> bool -> z **)

let next_of s = function
| true -> s.npush
| false -> s.npop

(** val goto : thread -> pc -> thread **)

let goto th p =
  { prog = th.prog; opi = th.opi; tpc = p; results = th.results; lc = th.lc }

(** val goto_lc : thread -> pc -> loc -> thread **)

let goto_lc th p l =
  { prog = th.prog; opi = th.opi; tpc = p; results = th.results; lc = l }

(** val finish_op : thread -> res -> thread **)

let finish_op th r =
  { prog = th.prog; opi = (S th.opi); tpc = Idle; results =
    (app th.results (r :: [])); lc = loc0 }

(** val get_slot : st -> nat -> slot **)

let get_slot s sl =
  nth sl s.slots slot0

(** val set_slot : st -> nat -> slot -> st **)

let set_slot s sl x =
  with_slots s (set_nth sl x s.slots)

(** val word16 : z -> bool -> z **)

let word16 v w =
  Z.add
    (Z.modulo v (Zpos (XO (XO (XO (XO (XO (XO (XO (XO (XO (XO (XO (XO (XO (XO
      (XO (XO XH))))))))))))))))))
    (if w
     then Zpos (XO (XO (XO (XO (XO (XO (XO (XO (XO (XO (XO (XO (XO (XO (XO
            (XO XH))))))))))))))))
     else Z0)

(** val slot_word : slot -> z **)

let slot_word x =
  word16 x.ver x.wf

(** val kb : st -> z **)

let kb s =
  Z.of_nat s.kbits

(** val ever : st -> bool -> z -> z **)

let ever s role i =
  if role then push_ver (kb s) i else pop_ver (kb s) i

(** val slot_z : kind -> z -> z -> z **)

let slot_z k i m =
  match k with
  | KSingle -> slot_index i m
  | KBatch -> slot_index_n i m
  | KTry -> slot_index_try i m
  | _ -> slot_index_tryn i m

(** val next_ver : kind -> bool -> z -> z **)

let next_ver k wake e =
  match k with
  | KSingle ->
    if wake then deal_next_version e else deal_next_version_nowake e
  | KBatch -> deal_n_next_version e
  | KTry ->
    if wake then try_deal_next_version e else try_deal_next_version_nowake e
  | _ -> try_deal_n_next_version e

(** val wake_ver : kind -> z -> z **)

let wake_ver k e =
  match k with
  | KBatch -> deal_n_wake_version e
  | _ -> try_deal_n_wake_version e

(** val split : op -> z -> z -> z -> (z * nat) * (z * nat) option **)

let split o m i n0 =
  match okind o with
  | KSingle -> ((i, (Z.to_nat n0)), None)
  | KBatch ->
    if is_push o
    then let r = push_n_round i m in
         if push_n_fits i n0 r
         then ((i, (Z.to_nat n0)), None)
         else ((i, (Z.to_nat (push_n_first i n0 r))), (Some (r,
                (Z.to_nat (push_n_second i n0 r)))))
    else let r = pop_n_round i m in
         if pop_n_fits i n0 r
         then ((i, (Z.to_nat n0)), None)
         else ((i, (Z.to_nat (pop_n_first i n0 r))), (Some (r,
                (Z.to_nat (pop_n_second i n0 r)))))
  | KTry -> ((i, (Z.to_nat n0)), None)
  | _ ->
    if is_push o
    then let e = try_push_n_end i n0 in
         let r = try_push_n_round i m in
         if try_push_n_fits e r
         then ((i, (Z.to_nat (try_push_n_whole i e))), None)
         else ((i, (Z.to_nat (try_push_n_first i r))), (Some (r,
                (Z.to_nat (try_push_n_second e r)))))
    else let e = try_pop_n_end i n0 in
         let r = try_pop_n_round i m in
         if try_pop_n_fits e r
         then ((i, (Z.to_nat (try_pop_n_whole i e))), None)
         else ((i, (Z.to_nat (try_pop_n_first i r))), (Some (r,
                (Z.to_nat (try_pop_n_second e r)))))

(** val try_short : op -> nat -> nat -> bool **)

let try_short o done0 req =
  if is_push o
  then try_push_n_short (Z.of_nat done0) (Z.of_nat req)
  else try_pop_n_short (Z.of_nat done0) (Z.of_nat req)

(** val seg_slot : st -> op -> loc -> nat -> nat **)

let seg_slot s o l j =
  add (Z.to_nat (slot_z (okind o) l.seg_i (mask s))) j

(** val seg_ever : st -> op -> loc -> z **)

let seg_ever s o l =
  ever s (is_push o) l.seg_i

(** val wait_target : st -> op -> loc -> nat -> nat * z **)

let wait_target s o l j =
  match o with
  | OPopUntil (_, _, _) ->
    ((Z.to_nat (slot_index_until l.uidx (mask s))), (pop_ver (kb s) l.uidx))
  | _ -> ((seg_slot s o l j), (seg_ever s o l))

(** val ins : (z * z) -> (z * z) list -> (z * z) list **)

let rec ins x l = match l with
| [] -> x :: []
| y :: r -> if Z.leb (fst x) (fst y) then x :: l else y :: (ins x r)

(** val is_some : 'a1 option -> bool **)

let is_some = function
| Some _ -> true
| None -> false

(** val cb_push :
    nat -> slot list -> nat -> z -> z list -> (z * z) list -> bool -> (slot
    list * (z * z) list) * bool **)

let rec cb_push t sls base i vs ps e =
  match vs with
  | [] -> ((sls, ps), e)
  | v :: r ->
    let x = nth base sls slot0 in
    let bad =
      (||) ((||) (is_some x.own) (is_some x.pay))
        (negb (Nat.ltb base (length sls)))
    in
    cb_push t
      (set_nth base { ver = x.ver; wf = x.wf; pay = (Some v); own = (Some
        t) } sls) (S base) (Z.add i (Zpos XH)) r (ins (i, v) ps) ((||) e bad)

(** val cb_pop :
    nat -> slot list -> nat -> z -> nat -> (z * z) list -> z list -> bool ->
    ((slot list * (z * z) list) * z list) * bool **)

let rec cb_pop t sls base i n0 ds g e =
  match n0 with
  | O -> (((sls, ds), g), e)
  | S n' ->
    let x = nth base sls slot0 in
    let bad =
      (||) ((||) (is_some x.own) (negb (is_some x.pay)))
        (negb (Nat.ltb base (length sls)))
    in
    let v = match x.pay with
            | Some v -> v
            | None -> Z0 in
    cb_pop t
      (set_nth base { ver = x.ver; wf = x.wf; pay = None; own = (Some t) }
        sls) (S base) (Z.add i (Zpos XH)) n' (ins (i, v) ds)
      (app g (v :: [])) ((||) e bad)

(** val wake_thread : nat -> thread -> thread **)

let wake_thread sl th =
  match th.tpc with
  | WParked (j, sl') -> if Nat.eqb sl sl' then goto th (WReload j) else th
  | _ -> th

(** val wake_all : st -> nat -> st **)

let wake_all s sl =
  with_threads s (map (wake_thread sl) s.threads)

(** val mk_res : loc -> nat -> res **)

let mk_res l c =
  { r_cnt = c; r_vals = l.got; r_tks = l.tks; r_full = l.jfull; r_over =
    l.jover }

(** val set_seg : loc -> z -> nat -> (z * nat) option -> loc **)

let set_seg l i n0 r =
  { seg_i = i; seg_n = n0; seg_req = n0; rest = r; vals = l.vals; got =
    l.got; cnt = l.cnt; tks = l.tks; jfull = l.jfull; jover = l.jover; uidx =
    l.uidx; tbegin = l.tbegin; trem = l.trem; dl = l.dl }

(** val add_tk : loc -> loc **)

let add_tk l =
  { seg_i = l.seg_i; seg_n = l.seg_n; seg_req = l.seg_req; rest = l.rest;
    vals = l.vals; got = l.got; cnt = l.cnt; tks =
    (app l.tks ((l.seg_i, l.seg_n) :: [])); jfull = l.jfull; jover = l.jover;
    uidx = l.uidx; tbegin = l.tbegin; trem = l.trem; dl = l.dl }

(** val set_n : loc -> nat -> loc **)

let set_n l n0 =
  { seg_i = l.seg_i; seg_n = n0; seg_req = l.seg_req; rest = l.rest; vals =
    l.vals; got = l.got; cnt = l.cnt; tks = l.tks; jfull = l.jfull; jover =
    l.jover; uidx = l.uidx; tbegin = l.tbegin; trem = l.trem; dl = l.dl }

(** val set_just : loc -> bool -> bool -> loc **)

let set_just l f o =
  { seg_i = l.seg_i; seg_n = l.seg_n; seg_req = l.seg_req; rest = l.rest;
    vals = l.vals; got = l.got; cnt = l.cnt; tks = l.tks; jfull =
    ((||) l.jfull f); jover = ((||) l.jover o); uidx = l.uidx; tbegin =
    l.tbegin; trem = l.trem; dl = l.dl }

(** val set_io : loc -> z list -> z list -> loc **)

let set_io l vs g =
  { seg_i = l.seg_i; seg_n = l.seg_n; seg_req = l.seg_req; rest = l.rest;
    vals = vs; got = g; cnt = l.cnt; tks = l.tks; jfull = l.jfull; jover =
    l.jover; uidx = l.uidx; tbegin = l.tbegin; trem = l.trem; dl = l.dl }

(** val set_time : loc -> z -> z -> z -> z -> loc **)

let set_time l u b r d =
  { seg_i = l.seg_i; seg_n = l.seg_n; seg_req = l.seg_req; rest = l.rest;
    vals = l.vals; got = l.got; cnt = l.cnt; tks = l.tks; jfull = l.jfull;
    jover = l.jover; uidx = u; tbegin = b; trem = r; dl = d }

(** val add_cnt : loc -> loc **)

let add_cnt l =
  { seg_i = l.seg_i; seg_n = l.seg_n; seg_req = l.seg_req; rest = l.rest;
    vals = l.vals; got = l.got; cnt = (add l.cnt l.seg_n); tks = l.tks;
    jfull = l.jfull; jover = l.jover; uidx = l.uidx; tbegin = l.tbegin;
    trem = l.trem; dl = l.dl }

(** val after_wait : op -> loc -> nat -> pc **)

let after_wait o l j =
  if is_timed o
  then TnIdx
  else if Nat.ltb (S j) l.seg_n
       then WLoad (S j)
       else if is_single o then Callback else FenceA

(** val first_wait : op -> loc -> pc **)

let first_wait o l =
  if Nat.ltb O l.seg_n
  then WLoad O
  else if is_single o then Callback else FenceA

(** val slow_path : op -> nat -> z -> bool -> pc **)

let slow_path o j v w =
  if ofwait o
  then if block_no_waiter (word16 v w) then WCas (j, v) else WFutex (j, v)
  else WSleep j

(** val end_segment : st -> nat -> thread -> op -> st **)

let end_segment s t th o =
  let l = add_cnt th.lc in
  (match l.rest with
   | Some p ->
     let (i2, n2) = p in
     (match okind o with
      | KSingle -> upd s t (finish_op th (mk_res l l.cnt))
      | KBatch ->
        upd s t
          (goto_lc th (first_wait o (set_seg l i2 n2 None))
            (add_tk (set_seg l i2 n2 None)))
      | KTry -> upd s t (finish_op th (mk_res l l.cnt))
      | _ ->
        if try_short o l.seg_n l.seg_req
        then upd s t (finish_op th (mk_res l l.cnt))
        else upd s t
               (goto_lc th (if Nat.ltb O n2 then TnVer O else TnCas)
                 (set_seg l i2 n2 None)))
   | None -> upd s t (finish_op th (mk_res l l.cnt)))

(** val end_segment_zero : st -> nat -> thread -> op -> st **)

let end_segment_zero s t th o =
  end_segment s t (goto_lc th th.tpc (set_n th.lc O)) o

(** val after_pubs : st -> nat -> thread -> op -> st **)

let after_pubs s t th o =
  if (oflags o).fwake then upd s t (goto th FenceSC) else end_segment s t th o

(** val next_wk : st -> nat -> thread -> op -> nat -> st **)

let next_wk s t th o j =
  if Nat.ltb (S j) th.lc.seg_n
  then upd s t (goto th (WkLoad (S j)))
  else end_segment s t th o

(** val got_ticket : st -> nat -> thread -> op -> z -> st **)

let got_ticket s t th o i =
  let (p, r) = split o (mask s) i (Z.of_nat (onum o)) in
  let (i1, n1) = p in
  let l = add_tk (set_seg (set_io th.lc (ovals o) []) i1 n1 r) in
  upd s t (goto_lc th (first_wait o l) l)

(** val step_thread : st -> nat -> thread -> op -> st option **)

let step_thread s t th o =
  let l = th.lc in
  let role = is_push o in
  (match th.tpc with
   | Idle ->
     (match okind o with
      | KTry ->
        Some
          (upd s t
            (goto_lc th (TryVer (next_of s role)) (set_io l (ovals o) [])))
      | KTryN ->
        let i = next_of s role in
        let (p, r) = split o (mask s) i (Z.of_nat (onum o)) in
        let (i1, n1) = p in
        let l1 = set_seg (set_io l (ovals o) []) i1 n1 r in
        Some
        (upd s t (goto_lc th (if Nat.ltb O n1 then TnVer O else TnCas) l1))
      | KUntil ->
        let tmo = match o with
                  | OPopUntil (_, _, d) -> d
                  | _ -> Z0 in
        Some
        (upd s t
          (goto_lc th (WLoad O)
            (set_time l (until_index s.npop (Z.of_nat (onum o))) Z0 tmo Z0)))
      | _ ->
        let i = next_of s role in
        if oconc o
        then Some
               (got_ticket (with_next s role (Z.add i (Z.of_nat (onum o)))) t
                 th o i)
        else Some (upd s t (goto th (TkStore i))))
   | TkStore i ->
     Some
       (got_ticket (with_next s role (Z.add i (Z.of_nat (onum o)))) t th o i)
   | WLoad j ->
     let (sl, e) = wait_target s o l j in
     let x = get_slot s sl in
     if wait_ready x.ver e
     then Some (upd s t (goto th (after_wait o l j)))
     else Some
            (upd s t
              (goto_lc th (slow_path o j x.ver x.wf)
                (if is_timed o then set_time l l.uidx s.clock l.trem Z0 else l)))
   | WCas (j, cur) ->
     let (sl, e) = wait_target s o l j in
     let x = get_slot s sl in
     if Z.eqb (slot_word x) (word16 cur false)
     then let w' = negb (block_no_waiter (block_wait_word (slot_word x))) in
          Some
          (upd
            (set_slot s sl { ver = x.ver; wf = w'; pay = x.pay; own = x.own })
            t (goto th (WFutex (j, cur))))
     else if block_cas_ready x.ver e
          then Some (upd s t (goto th (after_wait o l j)))
          else Some
                 (upd s t
                   (goto th
                     (if block_no_waiter (slot_word x)
                      then WCas (j, x.ver)
                      else WFutex (j, x.ver))))
   | WFutex (j, cur) ->
     let (sl, _) = wait_target s o l j in
     let x = get_slot s sl in
     if Z.eqb (slot_word x) (word16 cur true)
     then Some
            (upd s t
              (goto_lc th (WParked (j, sl))
                (set_time l l.uidx l.tbegin l.trem (Z.add s.clock l.trem))))
     else Some (upd s t (goto th (WReload j)))
   | WParked (j, _) ->
     if (&&) (is_timed o) (Z.leb l.dl s.clock)
     then Some (upd s t (goto th (after_wait o l j)))
     else None
   | WReload j ->
     let (sl, e) = wait_target s o l j in
     let x = get_slot s sl in
     if block_reload_ready x.ver e
     then Some (upd s t (goto th (after_wait o l j)))
     else let nxt =
            if block_no_waiter (slot_word x)
            then WCas (j, x.ver)
            else WFutex (j, x.ver)
          in
          if is_timed o
          then let d = Z.sub l.trem (block_elapsed l.tbegin s.clock) in
               if block_expired d
               then Some (upd s t (goto th (after_wait o l j)))
               else Some
                      (upd s t
                        (goto_lc th nxt (set_time l l.uidx l.tbegin d l.dl)))
          else Some (upd s t (goto th nxt))
   | WSleep j -> Some (upd s t (goto th (WSpin j)))
   | WSpin j ->
     let (sl, e) = wait_target s o l j in
     let x = get_slot s sl in
     if spin_ready x.ver e
     then Some (upd s t (goto th (after_wait o l j)))
     else Some (upd s t (goto th (WSleep j)))
   | FenceA -> Some (upd s t (goto th Callback))
   | Callback ->
     let base = seg_slot s o l O in
     let nxt = if is_single o then Pub O else FenceR in
     if role
     then let (p, e) =
            cb_push t s.slots base l.seg_i (firstn l.seg_n l.vals) s.pushed
              s.err
          in
          let (sls, ps) = p in
          Some
          (upd (with_ghost s sls ps s.delivered e) t
            (goto_lc th nxt (set_io l (skipn l.seg_n l.vals) l.got)))
     else let (p, e) =
            cb_pop t s.slots base l.seg_i l.seg_n s.delivered l.got s.err
          in
          let (p0, g) = p in
          let (sls, ds) = p0 in
          Some
          (upd (with_ghost s sls s.pushed ds e) t
            (goto_lc th nxt (set_io l l.vals g)))
   | FenceR ->
     if Nat.ltb O l.seg_n
     then Some (upd s t (goto th (Pub O)))
     else Some (after_pubs s t th o)
   | Pub j ->
     let sl = seg_slot s o l j in
     let x = get_slot s sl in
     let e = seg_ever s o l in
     if is_single o
     then if (oflags o).fwake
          then let s1 =
                 set_slot s sl { ver = (next_ver (okind o) true e); wf =
                   false; pay = x.pay; own = None }
               in
               if xchg_no_waiter (slot_word x)
               then Some (end_segment s1 t th o)
               else Some (upd s1 t (goto th (PubWake sl)))
          else Some
                 (end_segment
                   (set_slot s sl { ver = (next_ver (okind o) false e); wf =
                     x.wf; pay = x.pay; own = None }) t th o)
     else let s1 =
            set_slot s sl { ver = (next_ver (okind o) true e); wf = x.wf;
              pay = x.pay; own = None }
          in
          if Nat.ltb (S j) l.seg_n
          then Some (upd s1 t (goto th (Pub (S j))))
          else Some (after_pubs s1 t th o)
   | PubWake sl -> Some (end_segment (wake_all s sl) t th o)
   | FenceSC ->
     if Nat.ltb O l.seg_n
     then Some (upd s t (goto th (WkLoad O)))
     else Some (end_segment s t th o)
   | WkLoad j ->
     let sl = seg_slot s o l j in
     let x = get_slot s sl in
     if wakeup_no_waiter (slot_word x)
     then Some (next_wk s t th o j)
     else if wakeup_moved_on x.ver (wake_ver (okind o) (seg_ever s o l))
          then Some (next_wk s t th o j)
          else Some (upd s t (goto th (WkCas (j, x.ver))))
   | WkCas (j, cur) ->
     let sl = seg_slot s o l j in
     let x = get_slot s sl in
     if Z.eqb (slot_word x) (word16 cur true)
     then Some
            (upd
              (set_slot s sl { ver = x.ver; wf = false; pay = x.pay; own =
                x.own }) t (goto th (WkWake (j, sl))))
     else Some (next_wk s t th o j)
   | WkWake (j, sl) -> Some (next_wk (wake_all s sl) t th o j)
   | TryVer i ->
     let sl = Z.to_nat (slot_z KTry i (mask s)) in
     let x = get_slot s sl in
     if try_deal_not_ready (ever s role i) x.ver
     then Some
            (upd s t
              (goto_lc th (TryReidx i)
                (set_just l (Z.eqb (next_of s role) i) false)))
     else Some (upd s t (goto th (TryCas i)))
   | TryReidx i ->
     let c = next_of s role in
     if try_deal_same_index c i
     then Some (upd s t (finish_op th (mk_res l O)))
     else Some (upd s t (goto th (TryVer c)))
   | TryCas i ->
     if (&&) (oconc o) (negb (Z.eqb (next_of s role) i))
     then Some (upd s t (goto th (TryVer (next_of s role))))
     else let l1 = add_tk (set_seg l i (S O) None) in
          Some
          (upd (with_next s role (try_deal_next_index i)) t
            (goto_lc th Callback l1))
   | TnVer j ->
     let sl = seg_slot s o l j in
     let x = get_slot s sl in
     if try_deal_n_not_ready (seg_ever s o l) x.ver
     then let l1 =
            set_just (set_n l j) (Z.eqb (next_of s role) l.seg_i)
              (negb (Z.eqb (next_of s role) l.seg_i))
          in
          if try_deal_n_none (Z.of_nat j)
          then Some (end_segment_zero s t (goto_lc th th.tpc l1) o)
          else Some (upd s t (goto_lc th TnCas l1))
     else if Nat.ltb (S j) l.seg_n
          then Some (upd s t (goto th (TnVer (S j))))
          else Some (upd s t (goto th TnCas))
   | TnCas ->
     if try_deal_n_none (Z.of_nat l.seg_n)
     then Some (end_segment_zero s t th o)
     else if match o with
             | OPopUntil (_, _, _) -> false
             | _ -> (oflags o).conc
          then if Z.eqb (next_of s role) l.seg_i
               then Some
                      (upd
                        (with_next s role
                          (try_deal_n_next_index l.seg_i (Z.of_nat l.seg_n)))
                        t (goto_lc th FenceA (add_tk l)))
               else Some
                      (end_segment_zero s t
                        (goto_lc th th.tpc (set_just l false true)) o)
          else Some
                 (upd
                   (with_next s role
                     (try_deal_n_next_index_excl l.seg_i (Z.of_nat l.seg_n)))
                   t (goto_lc th FenceA (add_tk l)))
   | TnIdx ->
     let i = next_of s role in
     let (p, r) = split o (mask s) i (until_try_num (Z.of_nat (onum o))) in
     let (i1, n1) = p in
     let l1 = set_seg l i1 n1 r in
     Some (upd s t (goto_lc th (if Nat.ltb O n1 then TnVer O else TnCas) l1)))

(** val step : st -> nat -> st option **)

let step s t =
  match nth_error s.threads t with
  | Some th ->
    (match nth_error th.prog th.opi with
     | Some o -> step_thread s t th o
     | None -> None)
  | None ->
    if Nat.eqb t (length s.threads)
    then Some { kbits = s.kbits; npush = s.npush; npop = s.npop; slots =
           s.slots; threads = s.threads; clock = (Z.add s.clock (Zpos XH));
           pushed = s.pushed; delivered = s.delivered; err = s.err }
    else None

(** val spin_idle : st -> nat -> bool **)

let spin_idle s t =
  match nth_error s.threads t with
  | Some th ->
    (match th.tpc with
     | WSleep j ->
       (match nth_error th.prog th.opi with
        | Some o ->
          let (sl, e) = wait_target s o th.lc j in
          negb (spin_ready (get_slot s sl).ver e)
        | None -> false)
     | _ -> false)
  | None -> false

(** val thread_done : thread -> bool **)

let thread_done th =
  match nth_error th.prog th.opi with
  | Some _ -> false
  | None -> true

(** val all_done : st -> bool **)

let all_done s =
  forallb thread_done s.threads

(** val timed_parked : thread -> bool **)

let timed_parked th =
  match th.tpc with
  | WParked (_, _) ->
    (match nth_error th.prog th.opi with
     | Some o -> is_timed o
     | None -> false)
  | _ -> false

(** val has_timed_parked : st -> bool **)

let has_timed_parked s =
  existsb timed_parked s.threads

(** val outcome : st -> res list list **)

let outcome s =
  map (fun t -> t.results) s.threads

(** val all_ops : op list list -> op list **)

let all_ops =
  concat

(** val side_ops : bool -> op list -> op list **)

let side_ops role p =
  filter (fun o -> eqb (is_push o) role) p

(** val threads_on_side : bool -> op list list -> nat **)

let threads_on_side role progs =
  length
    (filter (fun p ->
      negb (match side_ops role p with
            | [] -> true
            | _ :: _ -> false)) progs)

(** val excl_ok : bool -> op list list -> bool **)

let excl_ok role progs =
  (||) (forallb oconc (side_ops role (all_ops progs)))
    (Nat.leb (threads_on_side role progs) (S O))

(** val wake_ok : bool -> op list list -> bool **)

let wake_ok role progs =
  (||) (negb (existsb ofwait (side_ops role (all_ops progs))))
    (forallb (fun o -> (oflags o).fwake)
      (side_ops (negb role) (all_ops progs)))

(** val size_ok : nat -> op list list -> bool **)

let size_ok k progs =
  forallb (fun o -> Nat.leb (onum o) (Nat.pow (S (S O)) k)) (all_ops progs)

(** val usage_ok : nat -> op list list -> bool **)

let usage_ok k progs =
  (&&)
    ((&&)
      ((&&) ((&&) (excl_ok true progs) (excl_ok false progs))
        (wake_ok true progs)) (wake_ok false progs)) (size_ok k progs)

type entry =
| EnCb
| EnVal
| EnPtr
| EnIt
| EnDefCb
| EnDefVal
| EnDefPtr
| EnDefIt

type call = { c_entry : entry; c_op : op }

(** val bz : bool -> z **)

let bz = function
| true -> Zpos XH
| false -> Z0

(** val f3 : z -> flags **)

let f3 z0 =
  { conc = (Z.testbit z0 (Zpos (XO XH))); fwait = (Z.testbit z0 (Zpos XH));
    fwake = (Z.testbit z0 Z0) }

(** val f2 : z -> flags -> flags **)

let f2 z0 f =
  { conc = (Z.testbit z0 (Zpos XH)); fwait = f.fwait; fwake =
    (Z.testbit z0 Z0) }

(** val via3 : (z -> z -> z -> z) -> flags -> flags **)

let via3 g f =
  f3 (g (bz f.conc) (bz f.fwait) (bz f.fwake))

(** val via2 : (z -> z -> z) -> flags -> flags **)

let via2 g f =
  f2 (g (bz f.conc) (bz f.fwake)) f

(** val core_wk : (z -> z -> z) -> flags -> flags **)

let core_wk g f =
  let z0 = g (bz f.fwait) (bz f.fwake) in
  { conc = f.conc; fwait = (Z.testbit z0 (Zpos (XO XH))); fwake =
  (Z.testbit z0 (Zpos XH)) }

(** val core_ck : (z -> z -> z) -> flags -> flags **)

let core_ck g f =
  let z0 = g (bz f.conc) (bz f.fwake) in
  { conc = (Z.testbit z0 (Zpos (XO XH))); fwait = f.fwait; fwake =
  (Z.testbit z0 (Zpos XH)) }

(** val until_flags : flags -> flags **)

let until_flags f =
  let z0 = fw_until_core (bz f.fwake) in
  { conc = f.conc; fwait = f.fwait; fwake = (Z.testbit z0 Z0) }

(** val lower_flags : op -> entry -> flags option **)

let lower_flags o e =
  let f = oflags o in
  (match o with
   | OPush (_, _) ->
     (match e with
      | EnCb -> Some (core_wk fw_push_core f)
      | EnVal -> Some (core_wk fw_push_core (via3 fw_push_value f))
      | EnDefCb -> Some (core_wk fw_push_core (f3 fw_push_default_cb))
      | EnDefVal ->
        Some
          (core_wk fw_push_core
            (via3 fw_push_value (f3 fw_push_default_value)))
      | _ -> None)
   | OPop _ ->
     (match e with
      | EnCb -> Some (core_wk fw_pop_core f)
      | EnVal -> Some (core_wk fw_pop_core (via3 fw_pop_ref f))
      | EnPtr ->
        Some (core_wk fw_pop_core (via3 fw_pop_ref (via3 fw_pop_ptr f)))
      | EnDefCb -> Some (core_wk fw_pop_core (f3 fw_pop_default_cb))
      | EnDefVal ->
        Some (core_wk fw_pop_core (via3 fw_pop_ref (f3 fw_pop_default_ref)))
      | EnDefPtr ->
        Some
          (core_wk fw_pop_core
            (via3 fw_pop_ref (via3 fw_pop_ptr (f3 fw_pop_default_ptr))))
      | _ -> None)
   | OTryPush (_, _) ->
     (match e with
      | EnCb -> Some (core_ck fw_try_push_core f)
      | EnVal -> Some (core_ck fw_try_push_core (via2 fw_try_push_value f))
      | _ -> None)
   | OTryPop _ ->
     (match e with
      | EnCb -> Some (core_ck fw_try_pop_core f)
      | EnVal -> Some (core_ck fw_try_pop_core (via2 fw_try_pop_ref f))
      | EnDefCb -> Some (core_ck fw_try_pop_core (f2 fw_try_pop_default_cb f))
      | EnDefVal ->
        Some
          (core_ck fw_try_pop_core
            (via2 fw_try_pop_ref (f2 fw_try_pop_default_ref f)))
      | _ -> None)
   | OPushN (_, _) ->
     (match e with
      | EnCb -> Some (core_wk fw_push_n_core_whole f)
      | EnIt -> Some (core_wk fw_push_n_core_whole (via3 fw_push_n_it f))
      | EnDefCb ->
        Some (core_wk fw_push_n_core_whole (f3 fw_push_n_default_cb))
      | EnDefIt ->
        Some
          (core_wk fw_push_n_core_whole
            (via3 fw_push_n_it (f3 fw_push_n_default_it)))
      | _ -> None)
   | OPopN (_, _) ->
     (match e with
      | EnCb -> Some (core_wk fw_pop_n_core_whole f)
      | EnIt -> Some (core_wk fw_pop_n_core_whole (via3 fw_pop_n_it f))
      | EnDefCb -> Some (core_wk fw_pop_n_core_whole (f3 fw_pop_n_default_cb))
      | EnDefIt ->
        Some
          (core_wk fw_pop_n_core_whole
            (via3 fw_pop_n_it (f3 fw_pop_n_default_it)))
      | _ -> None)
   | OTryPushN (_, _) ->
     (match e with
      | EnCb -> Some (core_ck fw_try_push_n_core_whole f)
      | _ -> None)
   | OTryPopN (_, _) ->
     (match e with
      | EnCb -> Some (core_ck fw_try_pop_n_core_whole f)
      | _ -> None)
   | OPopUntil (_, _, _) ->
     (match e with
      | EnCb -> Some (core_ck fw_try_pop_n_core_whole (until_flags f))
      | _ -> None))

(** val with_flags : op -> flags -> op **)

let with_flags o f =
  match o with
  | OPush (_, v) -> OPush (f, v)
  | OPop _ -> OPop f
  | OTryPush (_, v) -> OTryPush (f, v)
  | OTryPop _ -> OTryPop f
  | OPushN (_, vs) -> OPushN (f, vs)
  | OPopN (_, n0) -> OPopN (f, n0)
  | OTryPushN (_, vs) -> OTryPushN (f, vs)
  | OTryPopN (_, n0) -> OTryPopN (f, n0)
  | OPopUntil (_, n0, t) -> OPopUntil (f, n0, t)

(** val lower : call -> op **)

let lower c =
  match lower_flags c.c_op c.c_entry with
  | Some f -> with_flags c.c_op f
  | None -> c.c_op

(** val lower_progs : call list list -> op list list **)

let lower_progs cp =
  map (map lower) cp

(** val declared : call list list -> op list list **)

let declared cp =
  map (map (fun c -> c.c_op)) cp

(** val eqf : flags -> flags -> bool **)

let eqf a b =
  (&&) ((&&) (eqb a.conc b.conc) (eqb a.fwait b.fwait)) (eqb a.fwake b.fwake)

(** val fdefault : flags **)

let fdefault =
  { conc = true; fwait = true; fwake = true }

(** val entry_ok : call -> bool **)

let entry_ok c =
  match lower_flags c.c_op c.c_entry with
  | Some _ ->
    (match c.c_entry with
     | EnCb -> true
     | EnVal -> true
     | EnPtr -> true
     | EnIt -> true
     | _ ->
       (match okind c.c_op with
        | KTry -> (&&) (oflags c.c_op).conc (oflags c.c_op).fwake
        | _ -> eqf (oflags c.c_op) fdefault))
  | None -> false

(** val calls_ok : call list list -> bool **)

let calls_ok cp =
  forallb (forallb entry_ok) cp

(** val all2 : (z -> z -> bool) -> bool **)

let all2 p =
  (&&) ((&&) ((&&) (p Z0 Z0) (p Z0 (Zpos XH))) (p (Zpos XH) Z0))
    (p (Zpos XH) (Zpos XH))

(** val same2 : (z -> z -> z) -> (z -> z -> z) -> bool **)

let same2 g h =
  all2 (fun a b -> Z.eqb (g a b) (h a b))

(** val role2 : (z -> z -> z) -> bool -> bool **)

let role2 g push =
  all2 (fun a b -> eqb (Z.testbit (g a b) Z0) push)

(** val cores_ok : bool **)

let cores_ok =
  (&&)
    ((&&)
      ((&&)
        ((&&)
          ((&&)
            ((&&)
              ((&&)
                ((&&)
                  ((&&)
                    ((&&)
                      ((&&)
                        ((&&)
                          ((&&)
                            ((&&)
                              ((&&)
                                ((&&)
                                  ((&&) (role2 fw_push_core true)
                                    (role2 fw_pop_core false))
                                  (role2 fw_try_push_core true))
                                (role2 fw_try_pop_core false))
                              (role2 fw_push_n_core_whole true))
                            (same2 fw_push_n_core_whole fw_push_n_core_first))
                          (same2 fw_push_n_core_whole fw_push_n_core_second))
                        (role2 fw_pop_n_core_whole false))
                      (same2 fw_pop_n_core_whole fw_pop_n_core_first))
                    (same2 fw_pop_n_core_whole fw_pop_n_core_second))
                  (role2 fw_try_push_n_core_whole true))
                (same2 fw_try_push_n_core_whole fw_try_push_n_core_first))
              (same2 fw_try_push_n_core_whole fw_try_push_n_core_second))
            (role2 fw_try_pop_n_core_whole false))
          (same2 fw_try_pop_n_core_whole fw_try_pop_n_core_first))
        (same2 fw_try_pop_n_core_whole fw_try_pop_n_core_second))
      (negb (Z.testbit (fw_until_core Z0) (Zpos XH))))
    (negb (Z.testbit (fw_until_core (Zpos XH)) (Zpos XH)))
