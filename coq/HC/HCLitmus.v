(* (definitions, skeleton, order extraction, refutations of the weakened orders; the instances for the orders found in the
   source are in HC/HCLitmusProofs.v so that this file still compiles - and the witness search of checks/c03.py still runs -
   when an order in the source was weakened)
   Release/acquire publication obligations of the concurrent hash tables, as litmus programs on the explicit
   release/acquire machine coq/WM/RA.v, with the memory orders taken from the regenerated site tables
   (Gen_hash_table_conc: sites_do_emplace, sites_table_find, sites_set_emplace, sites_set_find).

   Tag publication.  producer (do_emplace): construct the element (non-atomic payload := 42);
                     control.store(tag, o_store) [and cloned_control.store(tag, o_store')]
                     consumer (find / do_emplace): SIMD group load = plain load of the control byte (relaxed in the
                     machine); atomic_thread_fence(o_fence); if the byte is the tag then read the element.
   This is `mp_store_fence o_store o_fence` below (WM/RALitmus.v has store/load and fence/fence skeletons only).

   Chained-table publication.  producers: table contents written (payload), next.compare_exchange_strong(null -> node);
                     consumer: next.load(o_load) then uses the table = WM/RALitmus.mp_cas_publish;
                     the loser of the CAS goes on in the winner's table = WM/RALitmus.mp_cas_loser. *)
From Coq Require Import ZArith List Bool.
Require Import Verif.Base.Atomics Verif.WM.RA Verif.WM.RAProofs Verif.WM.RALitmus Verif.WM.RALitmusProofs
               Verif.Gen.Gen_hash_table_conc.
Import ListNotations.
Local Open Scope Z_scope.

Definition mp_store_fence (o_store o_fence : morder) : list (list instr) :=
  [ [IWna 1 42; ISt 0 1 o_store];
    [ILd 0 0 Relaxed; IFence o_fence; IJmpIfNot 0 1 1; IRna 1 1] ].
Definition mp_store_fence_safe (o_store o_fence : morder) : bool :=
  forallb (fun o => negb (mp_bad o)) (outcomes (mp_store_fence o_store o_fence)).

Theorem mp_store_fence_all_executions : forall o_store o_fence, mp_store_fence_safe o_store o_fence = true ->
  forall sch, final (run (init (mp_store_fence o_store o_fence)) sch) = true ->
  mp_bad (result (run (init (mp_store_fence o_store o_fence)) sch)) = false.
Proof. intros o1 o2 H. apply lift_safe. exact H. Qed.

Lemma mp_store_fence_iff : forall o1 o2, mp_store_fence_safe o1 o2 = has_release o1 && has_acquire o2.
Proof. intros [] []; vm_compute; reflexivity. Qed.

(* ---- the orders found in the source ---- *)
Definition akind_eqb (a b : akind) : bool :=
  match a, b with
  | KLoad, KLoad | KStore, KStore | KXchg, KXchg | KFadd, KFadd | KFsub, KFsub | KFor, KFor | KFand, KFand
  | KCasS, KCasS | KCasW, KCasW | KFence, KFence => true
  | _, _ => false
  end.
(* order of the n-th atomic operation of a function if it is of kind k (else Relaxed: every check below then fails) *)
Definition site_order (k : akind) (n : nat) (sites : list (akind * morder * morder)) : morder :=
  match nth_error sites n with Some (k', o, _) => if akind_eqb k k' then o else Relaxed | None => Relaxed end.
Definition site_fail_order (k : akind) (n : nat) (sites : list (akind * morder * morder)) : morder :=
  match nth_error sites n with Some (k', _, o) => if akind_eqb k k' then o else Relaxed | None => Relaxed end.

Definition emplace_fence_order : morder := site_order KFence 0 sites_do_emplace.
Definition tag_store_order : morder := site_order KStore 2 sites_do_emplace.
Definition mirror_store_order : morder := site_order KStore 3 sites_do_emplace.
Definition find_fence_order : morder := site_order KFence 0 sites_table_find.
Definition next_load_emplace_order : morder := site_order KLoad 0 sites_set_emplace.
Definition next_cas_order : morder := site_order KCasS 1 sites_set_emplace.
Definition next_cas_fail_order : morder := site_fail_order KCasS 1 sites_set_emplace.
Definition next_load_find_head_order : morder := site_order KLoad 0 sites_set_find.
Definition next_load_find_node_order : morder := site_order KLoad 1 sites_set_find.

(* ---- each weakening has a bad execution (the explorer is complete: `false` = some listed outcome is bad) ---- *)
Lemma hc_tag_relaxed_store_refuted : mp_store_fence_safe Relaxed Acquire = false. Proof. vm_compute. reflexivity. Qed.
Lemma hc_tag_no_acquire_fence_refuted : mp_store_fence_safe Release Relaxed = false. Proof. vm_compute. reflexivity. Qed.
Lemma hc_tag_release_fence_refuted : mp_store_fence_safe Release Release = false. Proof. vm_compute. reflexivity. Qed.
Lemma hc_next_relaxed_cas_refuted : mp_cas_safe Relaxed Acquire = false. Proof. vm_compute. reflexivity. Qed.
Lemma hc_next_acquire_only_cas_refuted : mp_cas_safe Acquire Acquire = false. Proof. vm_compute. reflexivity. Qed.
Lemma hc_next_relaxed_load_refuted : mp_cas_safe AcqRel Relaxed = false. Proof. vm_compute. reflexivity. Qed.
Lemma hc_next_loser_release_only_refuted : mp_cas_loser_safe Release = false. Proof. vm_compute. reflexivity. Qed.
