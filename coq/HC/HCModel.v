(* Executable interleaving model of the CONCURRENT view of babylon::ConcurrentFixedSwissTable::do_emplace / find and of
   ConcurrentTransientHashSet/Map::emplace / find on top of it (src/babylon/concurrent/transient_hash_table.{h,hpp}).
   No proofs in this file.

   One step = at most one access to shared memory (one atomic operation of the C++ code, or the plain SIMD group load,
   or the construction of the element) plus the local computation up to the next one.  Every index / mask / probe formula
   comes from Gen_hash_table, the CAS operands, the failed-CAS tests and the stored bytes from Gen_hash_table_conc
   (both regenerated from the source on every run).

   Shared state : the chain of tables (table 0 = _head.table, table n+1 = the table behind n `next` pointers); per table
                  the control bytes by POSITION (0 .. bucket_count+15: the mirror group is part of the array, as in the
                  allocation), the value slots by bucket index, the size counter.
   Ghost state  : per bucket index the claim (key, probe group, offset, thread, op) written by the successful CAS,
                  a step counter `now` (begin/end stamps), the keys some insertion has returned for (`done_keys`),
                  flags `bad_read` (a key comparison read a slot that is not constructed) and `dbl_cons` (a slot
                  constructed twice), the ops whose argument was consumed, allocated / deleted chain nodes.
   The hash function is a Section variable (all hash functions: colliding hashes, equal 7-bit tags).
   Client programs are data (list (list op)); `grow = false` is the fixed table (a full table makes emplace fail),
   `grow = true` the growing set/map; the initial capacity is `Some min_bucket_count` or `None` (default-constructed
   placeholder, all control bytes DUMMY). *)
From Coq Require Import ZArith List Bool.
Require Import Verif.Gen.Gen_hash_table Verif.Gen.Gen_hash_table_conc Verif.HS.HSModel.
Import ListNotations.
Local Open Scope Z_scope.

(* claim of a bucket: key, probe group number, offset inside the group, claiming thread, its op index *)
Definition owner := (Z * nat * Z * nat * nat)%type.

Record ctab := mkCT {
  cdummy : bool;               (* _controls == Group::s_dummy_controls *)
  cmask  : Z;                  (* _bucket_mask *)
  cctrl  : Z -> Z;             (* _controls[position] *)
  cvals  : Z -> option elem;   (* _values[index]; None = raw storage *)
  ccnt   : Z;                  (* _size *)
  cown   : Z -> option owner   (* ghost *)
}.

Definition cbcount (t : ctab) : Z := bucket_count_of_mask (cmask t).

Definition dummy_ct : ctab := mkCT true dummy_bucket_mask (fun _ => DUMMY_CONTROL) (fun _ => None) 0 (fun _ => None).
Definition fresh_ct (m : Z) : ctab :=
  mkCT false (construct_mask (bit_ceil (construct_arg m))) (fun _ => EMPTY_CONTROL) (fun _ => None) 0 (fun _ => None).

Inductive op := OEmp (k v : Z) | OFind (k : Z).
Definition okey (o : op) : Z := match o with OEmp k _ => k | OFind k => k end.
Definition is_find (o : op) : bool := match o with OFind _ => true | _ => false end.

Inductive res :=
| REmp (n : nat) (i : Z) (inserted : bool) (seen : option elem)   (* iterator into table n, bucket i *)
| RFull                                                            (* end(): fixed table full *)
| RFind (r : option (nat * Z)) (seen : option elem) (after_insert : bool).

Inductive pc :=
| Idle
| PLoad (n j : nat) (stp base : Z)                         (* next: SIMD load of the group at `base` of table n *)
| PCmp (n j : nat) (stp base : Z) (g : list Z) (cs : list Z)  (* next: acquire fence + key comparison of candidate hd cs *)
| PCas (n j : nat) (stp base : Z) (o : Z)                  (* next: CAS EMPTY -> BUSY on the primary byte *)
| PCons (n : nat) (idx pos : Z)                            (* next: construct the element *)
| PStore1 (n : nat) (idx pos : Z)                          (* next: control.store(checker, release) *)
| PStore2 (n : nat) (idx pos : Z)                          (* next: cloned_control.store(checker, release) *)
| PSize (n : nat) (idx pos : Z)                            (* next: _size << 1, return *)
| PNext (n : nat)                                          (* table n gave end(): next = node->next.load(acquire) *)
| PNextCas (n : nat).                                      (* new node allocated: next.compare_exchange_strong *)

Record thread := mkTh {
  prog : list op; opi : nat; tpc : pc; results : list (res * nat * nat);
  tbegin : nat; fpub : bool        (* ghost: begin stamp of the current op; an insertion of its key had returned *)
}.

Record st := mkSt {
  tabs : list ctab; grow : bool; threads : list thread;
  now : nat; done_keys : list Z; bad_read : bool; dbl_cons : bool; consumed : list (nat * nat);
  allocs : nat; frees : nat
}.

Definition mk_thread (p : list op) : thread := mkTh p 0 Idle [] 0 false.
Definition init (cap : option Z) (g : bool) (progs : list (list op)) : st :=
  mkSt [match cap with None => dummy_ct | Some m => fresh_ct m end] g (map mk_thread progs) 0 [] false false [] 0 0.

Fixpoint set_nth {A} (n : nat) (x : A) (l : list A) : list A :=
  match l, n with
  | [], _ => []
  | _ :: r, O => x :: r
  | y :: r, S n' => y :: set_nth n' x r
  end.

Definition with_ctrl (t : ctab) (c : Z -> Z) : ctab := mkCT (cdummy t) (cmask t) c (cvals t) (ccnt t) (cown t).

(* the 16 bytes a group load at position `base` returns *)
Definition gload (t : ctab) (base : Z) : list Z := map (fun o => cctrl t (base + o)) offsets.
Definition gget (g : list Z) (o : Z) : Z := nth (Z.to_nat o) g EMPTY_CONTROL.
(* group.match(checker): offsets in ascending order *)
Definition cands (g : list Z) (c : Z) : list Z := filter (fun o => gget g o =? c) offsets.
(* group.match_empty(): first offset whose byte has the sign bit *)
Definition first_empty_g (g : list Z) : option Z := find (fun o => gget g o <? 0) offsets.

Definition sel_index (isf : bool) (base o m : Z) : Z := if isf then find_index base o m else emp_match_index base o m.
Definition sel_step_inc (isf : bool) : Z := if isf then find_step_inc else emp_step_inc.
Definition sel_next_base (isf : bool) (base stp m : Z) : Z := if isf then find_next_base base stp m else emp_next_base base stp m.
Definition sel_loop_cond (isf : bool) (stp m : Z) : bool := if isf then find_loop_cond stp m else emp_loop_cond stp m.
Definition sel_checker (isf : bool) (h : Z) : Z := if isf then find_checker h else emp_checker h.
Definition sel_base0 (isf : bool) (h m : Z) : Z := if isf then find_base0 h m else emp_base0 h m.

(* no candidate (left): insert / stop at a free byte, else next group of the triangular probe *)
Definition after_match (isf : bool) (t : ctab) (n j : nat) (stp base : Z) (g : list Z) : pc :=
  match first_empty_g g with
  | Some o => if isf then PNext n else PCas n j stp base o
  | None => let stp' := stp + sel_step_inc isf in
            if sel_loop_cond isf stp' (cmask t) then PLoad n (S j) stp' (sel_next_base isf base stp' (cmask t))
            else PNext n
  end.

Definition add_key (k : Z) (dk : list Z) : list Z := if existsb (Z.eqb k) dk then dk else k :: dk.

Definition upd_tab (s : st) (n : nat) (t : ctab) : list ctab := set_nth n t (tabs s).

Section WithHash.
Variable hash : Z -> Z.

Definition goto (th : thread) (p : pc) : thread := mkTh (prog th) (opi th) p (results th) (tbegin th) (fpub th).
Definition finish_op (s : st) (th : thread) (r : res) : thread :=
  mkTh (prog th) (S (opi th)) Idle (results th ++ [(r, tbegin th, now s)]) (tbegin th) (fpub th).

(* every step advances the stamp counter *)
Definition commit (s : st) (t : nat) (th : thread) (tb : list ctab) (dk : list Z) (br dc : bool) (cons : list (nat * nat))
                  (al fr : nat) : st :=
  mkSt tb (grow s) (set_nth t th (threads s)) (S (now s)) dk br dc cons al fr.
Definition local (s : st) (t : nat) (th : thread) : st :=
  commit s t th (tabs s) (done_keys s) (bad_read s) (dbl_cons s) (consumed s) (allocs s) (frees s).
Definition with_tabs (s : st) (t : nat) (th : thread) (tb : list ctab) : st :=
  commit s t th tb (done_keys s) (bad_read s) (dbl_cons s) (consumed s) (allocs s) (frees s).

Definition start_table (isf : bool) (k : Z) (n : nat) (t : ctab) : pc :=
  PLoad n 0 0 (sel_base0 isf (hash k) (cmask t)).

Definition step_thread (s : st) (t : nat) (th : thread) : option st :=
  match nth_error (prog th) (opi th) with
  | None => None
  | Some o =>
    let k := okey o in
    let isf := is_find o in
    let chk := sel_checker isf (hash k) in
    match tpc th with
    | Idle =>                                    (* hash functor; the op begins *)
      match nth_error (tabs s) 0 with
      | None => None
      | Some t0 =>
        Some (local s t (mkTh (prog th) (opi th) (start_table isf k 0 t0) (results th) (now s)
                               (existsb (Z.eqb k) (done_keys s))))
      end
    | PLoad n j stp base =>                      (* Group group {controls}: plain 16-byte load *)
      match nth_error (tabs s) n with
      | None => None
      | Some tb =>
        let g := gload tb base in
        match cands g chk with
        | [] => Some (local s t (goto th (after_match isf tb n j stp base g)))
        | cs => Some (local s t (goto th (PCmp n j stp base g cs)))
        end
      end
    | PCmp n j stp base g cs =>                  (* atomic_thread_fence(acquire); E::extract(at(index)) == key *)
      match nth_error (tabs s) n, cs with
      | Some tb, c :: rest =>
        let idx := sel_index isf base c (cmask tb) in
        let continue_ := match rest with
                         | [] => after_match isf tb n j stp base g
                         | _ => PCmp n j stp base g rest
                         end in
        match cvals tb idx with
        | Some e =>
          if fst e =? k then
            let r := if isf then RFind (Some (n, idx)) (Some e) (fpub th) else REmp n idx false (Some e) in
            Some (commit s t (finish_op s th r) (tabs s) (if isf then done_keys s else add_key k (done_keys s))
                         (bad_read s) (dbl_cons s) (consumed s) (allocs s) (frees s))
          else Some (local s t (goto th continue_))
        | None =>                                (* garbage compared: modelled as "different", flagged *)
          Some (commit s t (goto th continue_) (tabs s) (done_keys s) true (dbl_cons s) (consumed s) (allocs s) (frees s))
        end
      | _, _ => None
      end
    | PCas n j stp base c =>                     (* control.compare_exchange_strong(EMPTY, BUSY, acquire, relaxed) *)
      match nth_error (tabs s) n with
      | None => None
      | Some tb =>
        let idx := emp_insert_index base c (cmask tb) in
        let cur := cctrl tb idx in
        if cur =? cas_expected then
          let tb' := mkCT (cdummy tb) (cmask tb) (upd (cctrl tb) idx cas_desired) (cvals tb) (ccnt tb)
                          (upd (cown tb) idx (Some (k, j, c, t, opi th))) in
          Some (with_tabs s t (goto th (PCons n idx (base + c))) (upd_tab s n tb'))
        else if cas_saw_dummy cur then Some (local s t (goto th (PNext n)))       (* break: table full *)
        else Some (local s t (goto th (PLoad n j stp base)))                      (* (sched_yield;) continue *)
      end
    | PCons n idx pos =>                         (* UsesAllocatorConstructor::construct(&at(index), ...) *)
      match nth_error (tabs s) n, o with
      | Some tb, OEmp _ v =>
        let tb' := mkCT (cdummy tb) (cmask tb) (cctrl tb) (upd (cvals tb) idx (Some (k, v))) (ccnt tb) (cown tb) in
        Some (commit s t (goto th (PStore1 n idx pos)) (upd_tab s n tb') (done_keys s) (bad_read s)
                     (dbl_cons s || match cvals tb idx with Some _ => true | None => false end)
                     ((t, opi th) :: consumed s) (allocs s) (frees s))
      | _, _ => None
      end
    | PStore1 n idx pos =>                       (* control.store(checker, release) *)
      match nth_error (tabs s) n with
      | None => None
      | Some tb => Some (with_tabs s t (goto th (PStore2 n idx pos))
                                   (upd_tab s n (with_ctrl tb (upd (cctrl tb) idx (store_primary chk)))))
      end
    | PStore2 n idx pos =>                       (* cloned_control.store(checker, release) *)
      match nth_error (tabs s) n with
      | None => None
      | Some tb => Some (with_tabs s t (goto th (PSize n idx pos))
                                   (upd_tab s n (with_ctrl tb (upd (cctrl tb) (emp_cloned_index idx (cmask tb))
                                                                   (store_mirror chk)))))
      end
    | PSize n idx pos =>                         (* _size << 1; return {{*this, index}, true} *)
      match nth_error (tabs s) n with
      | None => None
      | Some tb =>
        let tb' := mkCT (cdummy tb) (cmask tb) (cctrl tb) (cvals tb) (ccnt tb + 1) (cown tb) in
        Some (commit s t (finish_op s th (REmp n idx true (cvals tb idx))) (upd_tab s n tb') (add_key k (done_keys s))
                     (bad_read s) (dbl_cons s) (consumed s) (allocs s) (frees s))
      end
    | PNext n =>                                 (* fixed table: return end(); set: node->next.load(acquire) *)
      if negb (grow s) then
        Some (local s t (finish_op s th (if isf then RFind None None (fpub th) else RFull)))
      else
        match nth_error (tabs s) (S n) with
        | Some tn =>
          if next_is_null 1 then None else Some (local s t (goto th (start_table isf k (S n) tn)))
        | None =>
          if next_is_null 0 then
            if isf then Some (local s t (finish_op s th (RFind None None (fpub th))))
            else Some (commit s t (goto th (PNextCas n)) (tabs s) (done_keys s) (bad_read s) (dbl_cons s) (consumed s)
                              (S (allocs s)) (frees s))                            (* new TableNode {bucket_count << 1} *)
          else None
        end
    | PNextCas n =>                              (* node->next.compare_exchange_strong(next, new_node, acq_rel) *)
      match nth_error (tabs s) n, nth_error (tabs s) (S n) with
      | Some tb, None =>
        let tn := fresh_ct (chain_new_node_arg (cbcount tb)) in
        Some (with_tabs s t (goto th (start_table isf k (S n) tn)) (tabs s ++ [tn]))
      | Some tb, Some tn =>                      (* lost the race: delete new_node, go on in the winner's table *)
        Some (commit s t (goto th (start_table isf k (S n) tn)) (tabs s) (done_keys s) (bad_read s) (dbl_cons s)
                     (consumed s) (allocs s) (S (frees s)))
      | None, _ => None
      end
    end
  end.

Definition step (s : st) (t : nat) : option st :=
  match nth_error (threads s) t with
  | Some th => step_thread s t th
  | None => None
  end.

End WithHash.

Definition thread_done (th : thread) : bool :=
  match tpc th, nth_error (prog th) (opi th) with Idle, None => true | _, _ => false end.
Definition all_done (s : st) : bool := forallb thread_done (threads s).

(* ---- first-order view of a state for the explorer (functions tabulated, stamps dropped) ---- *)
Definition canon_tab (t : ctab) : bool * Z * list Z * list (option elem) * Z :=
  (cdummy t, cmask t, map (cctrl t) (zrange (cbcount t + SIZE)), map (cvals t) (zrange (cbcount t)), ccnt t).
Definition canon_thread (th : thread) : nat * pc * list res * bool :=
  (opi th, tpc th, map (fun x => fst (fst x)) (results th), fpub th).
Definition canon (s : st) :=
  (map canon_thread (threads s), done_keys s, (bad_read s, dbl_cons s), (allocs s, frees s), map canon_tab (tabs s)).

(* observable outcome of a finished execution *)
Definition tab_elems (t : ctab) : list elem :=
  flat_map (fun i => match cvals t i with Some e => [e] | None => [] end) (zrange (cbcount t)).
Definition outcome (s : st) :=
  (map (fun th => map (fun x => fst (fst x)) (results th)) (threads s),
   flat_map tab_elems (tabs s),
   fold_right Z.add 0 (map ccnt (tabs s)),
   map (fun t => (cdummy t, cbcount t)) (tabs s),
   (bad_read s, dbl_cons s, allocs s, frees s)).
