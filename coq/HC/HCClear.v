(* clear() re-establishes the initial state the C03 theorems start from: after ConcurrentFixedSwissTable::clear() of a
   well-formed table (sequential model and well-formedness of C18: HS/HSModel.tclear, HS/HSProofs.WF - only read here)
   every control byte a probe can read - the bucket bytes AND the 15 mirror bytes - is EMPTY and no slot holds an
   element, i.e. the table agrees with HCModel.fresh_ct of the same bucket count on everything the concurrent model
   looks at.  The loop bound and the reset of the mirror group come from the regenerated Gen_hash_table
   (clear_group_step, clear_mirror_at); that clear() has no other return path that skips them is the translator
   target clear_single_path / clear_resets_mirror of hash_table_conc.json. *)
From Coq Require Import ZArith List Bool Lia.
Require Import Verif.Gen.Gen_hash_table Verif.Gen.Gen_hash_table_conc Verif.HS.HSModel Verif.HS.HSProofs Verif.HC.HCModel.
Import ListNotations.
Local Open Scope Z_scope.

Lemma hc_clear_initial hash t : WF hash t ->
  WF hash (tclear t) /\ bcount (tclear t) = bcount t /\ cnt (tclear t) = 0 /\
  (forall p, 0 <= p < bcount t + 15 -> ctrl (tclear t) p = cctrl (fresh_ct (bcount t)) p) /\
  (forall i, 0 <= i < bcount t -> vals (tclear t) i = cvals (fresh_ct (bcount t)) i).
Proof.
  intros H. destruct (tclear_spec hash t H) as (W & Hi & Hb). split; [exact W|]. split; [exact Hb|].
  assert (V : forall i, 0 <= i < bcount (tclear t) -> vals (tclear t) i = None).
  { intros i Hr. destruct (vals (tclear t) i) as [e|] eqn:E; auto.
    assert (In e (titer (tclear t))) by (apply (titer_in hash _ e W); eauto). rewrite Hi in H0. destruct H0. }
  assert (C : forall i, 0 <= i < bcount (tclear t) -> ctrl (tclear t) i = EMPTY_CONTROL).
  { intros i Hr. pose proof (wf_ctrl hash _ W i Hr) as Q. rewrite (V i Hr) in Q. exact Q. }
  split; [rewrite (wf_cnt hash _ W), Hi; reflexivity|]. simpl. split.
  - intros p Hp. rewrite <- Hb in Hp. destruct (Z_lt_dec p (bcount (tclear t))) as [Hl|Hg]; [apply C; lia|].
    replace p with (bcount (tclear t) + (p - bcount (tclear t))) by lia.
    rewrite (wf_mirror hash _ W) by lia. apply C. pose proof (wf_ge hash _ W). lia.
  - intros i Hr. apply V. rewrite Hb. exact Hr.
Qed.
