(* Second part of the proofs about HCModel: exactly one winner in a finished run, and a lookup that begins after an
   insertion of its key has returned finds the key (begin / end stamps).  Builds on the state invariant of HCProofs.v. *)
From Coq Require Import ZArith List Bool Lia.
Require Import Verif.Base.Atomics Verif.Gen.Gen_hash_table Verif.Gen.Gen_hash_table_conc Verif.Conc.Machine
               Verif.HS.HSModel Verif.HS.HSProofs Verif.HC.HCModel Verif.HC.HCProofs.
Import ListNotations.
Local Open Scope Z_scope.

Section Lin.
Variable hash : Z -> Z.

(* ================= every claim has an owner: a thread that is publishing it or has returned inserted = true ========== *)
Definition ownpc (p : pc) : option (nat * Z) :=
  match p with PCons n x _ | PStore1 n x _ | PStore2 n x _ | PSize n x _ => Some (n, x) | _ => None end.

Lemma after_match_no isf tb n j stp base g : ownpc (after_match isf tb n j stp base g) = None.
Proof. unfold after_match. destruct (first_empty_g g); [destruct isf|destruct (sel_loop_cond _ _ _)]; reflexivity. Qed.

Lemma newown_set (tb : list ctab) n tn tn' : nth_error tb n = Some tn -> cown tn' = cown tn ->
  forall n' tn'' i w, nth_error (set_nth n tn' tb) n' = Some tn'' -> cown tn'' i = Some w ->
    exists tn0, nth_error tb n' = Some tn0 /\ cown tn0 i = Some w.
Proof.
  intros Hn Hc n' tn'' i w H1 H2. rewrite (nth_error_set_nth _ _ _ _ _ Hn) in H1. destruct (Nat.eqb n n') eqn:E.
  - apply Nat.eqb_eq in E. subst n'. inversion H1; subst tn''. rewrite Hc in H2. eauto.
  - eauto.
Qed.

Lemma step_own s t s' th : step hash s t = Some s' -> nth_error (threads s) t = Some th ->
  exists th', threads s' = set_nth t th' (threads s) /\ (exists l, results th' = results th ++ l) /\
    (forall n' tn' i w, nth_error (tabs s') n' = Some tn' -> cown tn' i = Some w ->
       (exists tn, nth_error (tabs s) n' = Some tn /\ cown tn i = Some w) \/
       (ownpc (tpc th) = None /\ ownpc (tpc th') = Some (n', i) /\ opi th' = opi th /\
        exists k j c, w = (k, j, c, t, opi th))) /\
    (forall p, ownpc (tpc th) = Some p ->
       (ownpc (tpc th') = Some p /\ opi th' = opi th) \/
       (exists sn b e, results th' = results th ++ [(REmp (fst p) (snd p) true sn, b, e)])).
Proof.
  unfold step. intros H Ht. rewrite Ht in H. revert H.
  unfold step_thread. destruct (nth_error (prog th) (opi th)) as [o|] eqn:Ho; [|discriminate].
  assert (NIL : forall l : list (res * nat * nat), exists l0, l = l ++ l0) by (intros l; exists []; rewrite app_nil_r; reflexivity).
  destruct (tpc th) as [|n j stp base|n j stp base g cs|n j stp base c|n idx pos|n idx pos|n idx pos|n idx pos|n|n] eqn:Hpc.
  - destruct (nth_error (tabs s) 0); [|discriminate]. intros E; inversion E; subst s'; clear E.
    eexists. split; [reflexivity|]. split; [apply NIL|]. split; [intros; left; eauto|discriminate].
  - destruct (nth_error (tabs s) n) as [tn|]; [|discriminate].
    destruct (cands _ _) as [|c0 cs0]; intros E; inversion E; subst s'; clear E;
      (eexists; split; [reflexivity|]; split; [apply NIL|]; split; [intros; left; eauto|discriminate]).
  - destruct (nth_error (tabs s) n) as [tn|]; [|discriminate]. destruct cs as [|c rest]; [discriminate|].
    destruct (cvals tn _) as [e|]; [destruct (fst e =? okey o)|]; intros E; inversion E; subst s'; clear E;
      (eexists; split; [reflexivity|]; split; [try apply NIL; eexists; reflexivity|]; split; [intros; left; eauto|discriminate]).
  - destruct (nth_error (tabs s) n) as [tn|] eqn:Hn; [|discriminate].
    destruct (_ =? cas_expected); [|destruct (cas_saw_dummy _)]; intros E; inversion E; subst s'; clear E.
    + eexists. split; [reflexivity|]. split; [apply NIL|]. split; [|discriminate].
      intros n' tn' i w H1 H2. simpl in H1. unfold upd_tab in H1. rewrite (nth_error_set_nth _ _ _ _ _ Hn) in H1.
      destruct (Nat.eqb n n') eqn:E.
      * apply Nat.eqb_eq in E. subst n'. inversion H1; subst tn'. simpl in H2. unfold upd in H2.
        destruct (i =? _) eqn:E2.
        -- right. apply Z.eqb_eq in E2. subst i. inversion H2. simpl. repeat split; eauto.
        -- left. eauto.
      * left. eauto.
    + eexists. split; [reflexivity|]. split; [apply NIL|]. split; [intros; left; eauto|discriminate].
    + eexists. split; [reflexivity|]. split; [apply NIL|]. split; [intros; left; eauto|discriminate].
  - destruct (nth_error (tabs s) n) as [tn|] eqn:Hn; [|discriminate]. destruct o; [|discriminate].
    intros E; inversion E; subst s'; clear E. eexists. split; [reflexivity|]. split; [apply NIL|]. split.
    + intros n' tn' i w H1 H2. left. eapply (newown_set _ _ _ _ Hn); [|exact H1|exact H2]. reflexivity.
    + intros p Hp. left. simpl in *. auto.
  - destruct (nth_error (tabs s) n) as [tn|] eqn:Hn; [|discriminate].
    intros E; inversion E; subst s'; clear E. eexists. split; [reflexivity|]. split; [apply NIL|]. split.
    + intros n' tn' i w H1 H2. left. eapply (newown_set _ _ _ _ Hn); [|exact H1|exact H2]. reflexivity.
    + intros p Hp. left. simpl in *. auto.
  - destruct (nth_error (tabs s) n) as [tn|] eqn:Hn; [|discriminate].
    intros E; inversion E; subst s'; clear E. eexists. split; [reflexivity|]. split; [apply NIL|]. split.
    + intros n' tn' i w H1 H2. left. eapply (newown_set _ _ _ _ Hn); [|exact H1|exact H2]. reflexivity.
    + intros p Hp. left. simpl in *. auto.
  - destruct (nth_error (tabs s) n) as [tn|] eqn:Hn; [|discriminate].
    intros E; inversion E; subst s'; clear E. eexists. split; [reflexivity|]. split; [eexists; reflexivity|]. split.
    + intros n' tn' i w H1 H2. left. eapply (newown_set _ _ _ _ Hn); [|exact H1|exact H2]. reflexivity.
    + intros p Hp. right. simpl in Hp. inversion Hp; subst p. simpl. eexists _, _, _. reflexivity.
  - destruct (negb (grow s)).
    + intros E; inversion E; subst s'; clear E. eexists. split; [reflexivity|]. split; [eexists; reflexivity|].
      split; [intros; left; eauto|discriminate].
    + destruct (nth_error (tabs s) (S n)).
      * destruct (next_is_null 1); [discriminate|]. intros E; inversion E; subst s'; clear E.
        eexists. split; [reflexivity|]. split; [apply NIL|]. split; [intros; left; eauto|discriminate].
      * destruct (next_is_null 0); [|discriminate]. destruct (is_find o); intros E; inversion E; subst s'; clear E;
          (eexists; split; [reflexivity|]; split; [try apply NIL; eexists; reflexivity|]; split; [intros; left; eauto|discriminate]).
  - destruct (nth_error (tabs s) n) as [tn|] eqn:Hn; [|discriminate].
    destruct (nth_error (tabs s) (S n)) eqn:Hn1; intros E; inversion E; subst s'; clear E.
    + eexists. split; [reflexivity|]. split; [apply NIL|]. split; [intros; left; eauto|discriminate].
    + eexists. split; [reflexivity|]. split; [apply NIL|]. split; [|discriminate].
      intros n' tn' i w H1 H2. left. simpl in H1. destruct (Nat.lt_ge_cases n' (length (tabs s))) as [Hl|Hl].
      * rewrite nth_error_app1 in H1 by auto. eauto.
      * rewrite nth_error_app2 in H1 by auto. destruct (n' - length (tabs s))%nat; simpl in H1.
        -- inversion H1; subst tn'. discriminate.
        -- destruct n0; discriminate.
Qed.

Definition OInv (s : st) : Prop := forall n tn idx k j c tid opn,
  nth_error (tabs s) n = Some tn -> cown tn idx = Some (k, j, c, tid, opn) ->
  exists th, nth_error (threads s) tid = Some th /\
    ((opi th = opn /\ ownpc (tpc th) = Some (n, idx)) \/
     (exists sn b e, nth_error (results th) opn = Some (REmp n idx true sn, b, e))).

Lemma step_oinv s t s' : RInv hash s -> OInv s -> step hash s t = Some s' -> OInv s'.
Proof.
  intros R O H. pose proof H as H0. unfold step in H0. destruct (nth_error (threads s) t) as [th|] eqn:Ht; [|discriminate]. clear H0.
  destruct (step_own _ _ _ _ H Ht) as (th' & Hthr & (l & Hl) & NEW & TR).
  pose proof (ri_len _ _ R _ _ Ht) as Hlen.
  assert (Hnew : nth_error (threads s') t = Some th').
  { rewrite Hthr. apply nth_error_set_nth_eq. eapply nth_len; eauto. }
  intros n tn' idx k j c tid opn Hn Ho. destruct (NEW _ _ _ _ Hn Ho) as [(tn & Hn0 & Ho0)|(P0 & P1 & Eo & k0 & j0 & c0 & Ew)].
  - destruct (O _ _ _ _ _ _ _ _ Hn0 Ho0) as (x & Hx & Hd). destruct (Nat.eq_dec tid t) as [->|Hne].
    + rewrite Ht in Hx. inversion Hx; subst x. exists th'. split; auto. destruct Hd as [(Eo & Hp)|(sn & b & e & Hr)].
      * destruct (TR _ Hp) as [(Hp' & Eo')|(sn & b & e & Er)].
        -- left. split; congruence.
        -- right. exists sn, b, e. simpl in Er. rewrite Er, nth_error_app2 by lia.
           replace (opn - length (results th))%nat with 0%nat by lia. reflexivity.
      * right. exists sn, b, e. rewrite Hl, nth_error_app1; auto. apply nth_error_Some. congruence.
    + exists x. split; auto. rewrite Hthr, nth_error_set_nth_ne; auto.
  - inversion Ew; subst k0 j0 c0 tid opn. exists th'. split; [exact Hnew|]. left. split; [exact Eo|exact P1].
Qed.

Lemma hc_oinv cap g progs s : Reach hash cap g progs s -> OInv s.
Proof.
  intros R. assert (G : (Inv hash s /\ RInv hash s) /\ OInv s); [|apply G].
  revert s R. apply (inv_reachable st (step hash) (fun s => (Inv hash s /\ RInv hash s) /\ OInv s)).
  - split; [split; [apply init_inv|apply init_rinv]|]. intros n tn idx k j c tid opn Hn Ho. simpl in Hn.
    destruct n; simpl in Hn; [|destruct n; discriminate]. inversion Hn; subst tn. destruct cap; discriminate.
  - intros s0 t s1 ((I & R) & O) H. split; [split; [apply (step_inv _ _ _ _ I H)|eapply step_rinv; eauto]|eapply step_oinv; eauto].
Qed.

(* --- in a finished run, a key for which some insertion returned a slot has a successful insertion (exactly one, by
       hc_one_winner), and it returned that slot --- *)
Theorem hc_exactly_one_winner : exactly_one_winner_stmt hash.
Proof.
  intros cap g progs s t i o r n x sn R Hdone E Hf Hs.
  pose proof (hc_inv _ _ _ _ _ R) as I. destruct (hc_rinv _ _ _ _ _ R) as (_ & RI).
  destruct (res_slot _ _ _ _ _ _ _ _ _ (event_res _ _ _ _ _ _ _ _ _ R E) Hs) as (tn & v & Hn & Hv & _).
  destruct (ti_val _ _ _ _ (inv_tab _ _ I _ _ Hn) _ _ Hv) as (j & c & tid & opn & Ho). simpl in Ho.
  destruct (hc_oinv _ _ _ _ R _ _ _ _ _ _ _ _ Hn Ho) as (th & Hth & [(Eo & Hp)|(sn' & b & e & Hr)]).
  - exfalso. unfold all_done in Hdone. rewrite forallb_forall in Hdone. pose proof (Hdone _ (nth_error_In _ _ Hth)) as D.
    unfold thread_done in D. destruct (tpc th); simpl in Hp; try discriminate.
  - destruct (ri_res _ _ RI _ _ _ _ _ _ Hth Hr) as (o' & Ho' & HR).
    exists tid, opn, o', sn'. split; [exists th, b, e; auto|].
    destruct HR as (_ & tn2 & v2 & Hn2 & _ & _ & W & _). destruct (W eq_refl) as (j2 & c2 & O2 & _).
    rewrite Hn in Hn2. inversion Hn2; subst tn2. rewrite Ho in O2. inversion O2. auto.
Qed.

(* ================= the shape of a step of thread t (no invariant needed) ================= *)
Definition rflag (r : res) : bool := match r with RFind _ _ a => a | _ => false end.

Lemma in_add_key k dk : In k (add_key k dk).
Proof.
  unfold add_key. destruct (existsb (Z.eqb k) dk) eqn:E; [|left; reflexivity].
  apply existsb_exists in E. destruct E as (x & Hx & Ex). apply Z.eqb_eq in Ex. subst x. exact Hx.
Qed.
Lemma add_key_mono k k' dk : In k' dk -> In k' (add_key k dk).
Proof. unfold add_key. destruct (existsb (Z.eqb k) dk); [auto|right; auto]. Qed.

Lemma step_shape s t s' th : step hash s t = Some s' -> nth_error (threads s) t = Some th ->
  exists o th', cur_op th = Some o /\ threads s' = set_nth t th' (threads s) /\ now s' = S (now s) /\ grow s' = grow s /\
    prog th' = prog th /\ (forall k, In k (done_keys s) -> In k (done_keys s')) /\
    ((tpc th = Idle /\ tpc th' <> Idle /\ opi th' = opi th /\ results th' = results th /\ tbegin th' = now s /\
      fpub th' = existsb (Z.eqb (okey o)) (done_keys s)) \/
     (tpc th <> Idle /\ opi th' = opi th /\ results th' = results th /\ tbegin th' = tbegin th /\ fpub th' = fpub th) \/
     (tpc th <> Idle /\ exists r, tpc th' = Idle /\ opi th' = S (opi th) /\
        results th' = results th ++ [(r, tbegin th, now s)] /\
        match r with
        | RFind _ _ a => a = fpub th /\ is_find o = true
        | REmp _ _ _ _ => In (okey o) (done_keys s')
        | RFull => True
        end)).
Proof.
  unfold step. intros H Ht. rewrite Ht in H. revert H.
  unfold step_thread, cur_op. destruct (nth_error (prog th) (opi th)) as [o|] eqn:Ho; [|discriminate].
  intros H. exists o. revert H.
  destruct (tpc th) as [|n j stp base|n j stp base g cs|n j stp base c|n idx pos|n idx pos|n idx pos|n idx pos|n|n] eqn:Hpc.
  - destruct (nth_error (tabs s) 0); [|discriminate]. intros E; inversion E; subst s'; clear E.
    eexists. split; [reflexivity|]. split; [reflexivity|]. split; [reflexivity|]. split; [reflexivity|]. split; [reflexivity|].
    split; [auto|]. left. repeat split; auto. simpl. unfold start_table. discriminate.
  - destruct (nth_error (tabs s) n) as [tn|]; [|discriminate].
    destruct (cands _ _) as [|c0 cs0]; intros E; inversion E; subst s'; clear E;
      (eexists; split; [reflexivity|]; split; [reflexivity|]; split; [reflexivity|]; split; [reflexivity|]; split; [reflexivity|];
       split; [auto|]; right; left; repeat split; auto; discriminate).
  - destruct (nth_error (tabs s) n) as [tn|]; [|discriminate]. destruct cs as [|c rest]; [discriminate|].
    destruct (cvals tn _) as [e|]; [destruct (fst e =? okey o)|]; intros E; inversion E; subst s'; clear E.
    + eexists. split; [reflexivity|]. split; [reflexivity|]. split; [reflexivity|]. split; [reflexivity|]. split; [reflexivity|].
      simpl done_keys. split; [destruct (is_find o); auto using add_key_mono|]. right. right. split; [discriminate|].
      eexists. split; [reflexivity|]. split; [reflexivity|]. split; [reflexivity|].
      destruct (is_find o) eqn:Ef; [auto|]. apply in_add_key.
    + eexists. split; [reflexivity|]. split; [reflexivity|]. split; [reflexivity|]. split; [reflexivity|]. split; [reflexivity|].
      split; [auto|]. right. left. repeat split; auto. discriminate.
    + eexists. split; [reflexivity|]. split; [reflexivity|]. split; [reflexivity|]. split; [reflexivity|]. split; [reflexivity|].
      split; [auto|]. right. left. repeat split; auto. discriminate.
  - destruct (nth_error (tabs s) n) as [tn|]; [|discriminate].
    destruct (_ =? cas_expected); [|destruct (cas_saw_dummy _)]; intros E; inversion E; subst s'; clear E;
      (eexists; split; [reflexivity|]; split; [reflexivity|]; split; [reflexivity|]; split; [reflexivity|]; split; [reflexivity|];
       split; [auto|]; right; left; repeat split; auto; discriminate).
  - destruct (nth_error (tabs s) n) as [tn|]; [|discriminate]. destruct o as [k v|k]; [|discriminate].
    intros E; inversion E; subst s'; clear E.
    eexists. split; [reflexivity|]. split; [reflexivity|]. split; [reflexivity|]. split; [reflexivity|]. split; [reflexivity|].
    split; [auto|]. right. left. repeat split; auto. discriminate.
  - destruct (nth_error (tabs s) n) as [tn|]; [|discriminate]. intros E; inversion E; subst s'; clear E.
    eexists. split; [reflexivity|]. split; [reflexivity|]. split; [reflexivity|]. split; [reflexivity|]. split; [reflexivity|].
    split; [auto|]. right. left. repeat split; auto. discriminate.
  - destruct (nth_error (tabs s) n) as [tn|]; [|discriminate]. intros E; inversion E; subst s'; clear E.
    eexists. split; [reflexivity|]. split; [reflexivity|]. split; [reflexivity|]. split; [reflexivity|]. split; [reflexivity|].
    split; [auto|]. right. left. repeat split; auto. discriminate.
  - destruct (nth_error (tabs s) n) as [tn|]; [|discriminate]. intros E; inversion E; subst s'; clear E.
    eexists. split; [reflexivity|]. split; [reflexivity|]. split; [reflexivity|]. split; [reflexivity|]. split; [reflexivity|].
    simpl done_keys. split; [auto using add_key_mono|]. right. right. split; [discriminate|].
    eexists. split; [reflexivity|]. split; [reflexivity|]. split; [reflexivity|].
    apply in_add_key.
  - destruct (negb (grow s)).
    + intros E; inversion E; subst s'; clear E.
      eexists. split; [reflexivity|]. split; [reflexivity|]. split; [reflexivity|]. split; [reflexivity|]. split; [reflexivity|].
      split; [auto|]. right. right. split; [discriminate|].
      eexists. split; [reflexivity|]. split; [reflexivity|]. split; [reflexivity|]. destruct (is_find o) eqn:Ef; simpl; auto.
    + destruct (nth_error (tabs s) (S n)).
      * destruct (next_is_null 1); [discriminate|]. intros E; inversion E; subst s'; clear E.
        eexists. split; [reflexivity|]. split; [reflexivity|]. split; [reflexivity|]. split; [reflexivity|]. split; [reflexivity|].
        split; [auto|]. right. left. repeat split; auto. discriminate.
      * destruct (next_is_null 0); [|discriminate]. destruct (is_find o) eqn:Ef; intros E; inversion E; subst s'; clear E.
        -- eexists. split; [reflexivity|]. split; [reflexivity|]. split; [reflexivity|]. split; [reflexivity|]. split; [reflexivity|].
           split; [auto|]. right. right. split; [discriminate|].
           eexists. split; [reflexivity|]. split; [reflexivity|]. split; [reflexivity|]. simpl. auto.
        -- eexists. split; [reflexivity|]. split; [reflexivity|]. split; [reflexivity|]. split; [reflexivity|]. split; [reflexivity|].
           split; [auto|]. right. left. repeat split; auto. discriminate.
  - destruct (nth_error (tabs s) n) as [tn|]; [|discriminate].
    destruct (nth_error (tabs s) (S n)); intros E; inversion E; subst s'; clear E;
      (eexists; split; [reflexivity|]; split; [reflexivity|]; split; [reflexivity|]; split; [reflexivity|]; split; [reflexivity|];
       split; [auto|]; right; left; repeat split; auto; discriminate).
Qed.

(* ================= published keys ================= *)
Definition pub_at (tb : list ctab) (k : Z) (n : nat) (tn : ctab) (idx : Z) (j : nat) (c : Z) : Prop :=
  nth_error tb n = Some tn /\ (exists tid opn, cown tn idx = Some (k, j, c, tid, opn)) /\
  (exists v, cvals tn idx = Some (k, v)) /\ cctrl tn (pb hash tn k j + c) = chk hash k.
Definition PUB (tb : list ctab) (k : Z) : Prop := exists n tn idx j c, pub_at tb k n tn idx j c.

Lemma pub_at_ext tb tb' k n tn idx j c : lext tb tb' -> pub_at tb k n tn idx j c ->
  exists tn', pub_at tb' k n tn' idx j c.
Proof.
  intros L (Hn & (tid & opn & Ho) & (v & Hv) & Hc). destruct (L _ _ Hn) as (tn' & Hn' & T).
  pose proof T as (_ & M & T3 & T4 & T5 & _). exists tn'. split; auto. split; [eauto|]. split; [eauto|].
  rewrite (pb_mask hash tn tn') by auto. rewrite T3; auto. rewrite Hc. apply chk_rng.
Qed.
Lemma PUB_ext tb tb' k : lext tb tb' -> PUB tb k -> PUB tb' k.
Proof. intros L (n & tn & idx & j & c & H). destruct (pub_at_ext _ _ _ _ _ _ _ _ L H) as (tn' & H'). exists n, tn', idx, j, c. auto. Qed.

Lemma pub_at_uniq s k n1 t1 i1 j1 c1 n2 t2 i2 j2 c2 : Inv hash s ->
  pub_at (tabs s) k n1 t1 i1 j1 c1 -> pub_at (tabs s) k n2 t2 i2 j2 c2 -> n1 = n2 /\ i1 = i2 /\ j1 = j2 /\ c1 = c2.
Proof.
  intros I (H1 & (a1 & b1 & O1) & _) (H2 & (a2 & b2 & O2) & _).
  destruct (inv_uniq _ _ I _ _ _ _ _ _ _ _ _ _ _ _ _ _ _ H1 H2 O1 O2) as (-> & ->).
  rewrite H1 in H2. inversion H2; subst t2. rewrite O1 in O2. inversion O2. auto.
Qed.

(* a probe for k that carries `before` finds k exactly at the position its claim recorded *)
Lemma found_pos tb k n j stp base tn c v j0 c0 a b :
  TabInv hash tb n tn -> at_group hash tb k n j stp base tn -> before hash tb k n j 0 -> In c offsets ->
  cvals tn (lidx tn (base + c)) = Some (k, v) -> cown tn (lidx tn (base + c)) = Some (k, j0, c0, a, b) ->
  j0 = j /\ c0 = c.
Proof.
  intros TI (Hn & Hbase & Hstp & Hl) Hb Hc Hv Ho. subst base stp.
  destruct (ti_own _ _ _ _ TI _ _ _ _ _ _ Ho) as (E1 & E2 & E3 & E4 & _).
  assert (Hd : cdummy tn = false) by (eapply own_not_dummy; eauto).
  destruct (lex_tri n j0 c0 n j c) as [L|[(_ & -> & ->)|L]]; [| auto |].
  - destruct L as [L|(_ & [L|(-> & L)])]; [lia| |].
    + exfalso. destruct Hb as (_ & B2). destruct (B2 _ Hn) as (G1 & _).
      pose proof (G1 _ L _ E1) as K. apply (keyne_own_contra hash tb n tn k _ j0 c0 a b TI K). rewrite <- E2. exact Ho.
    + exfalso. pose proof (win_inj tn (pb hash tn k j) c c0 (ti_pow _ _ _ _ TI) Hc E1 E2). lia.
  - exfalso.
    pose proof (before_lt hash _ _ _ _ _ _ _ _ _ E4 L Hn Hd Hl Hc) as (_ & e & He & Hne).
    rewrite Hv in He. inversion He; subst e. apply Hne. reflexivity.
Qed.

Ltac same_op' Ho Ho' o' := unfold cur_op in Ho'; rewrite Ho in Ho'; inversion Ho'; subst o'; clear Ho'.

(* growth only happens on growing containers; a key enters done_keys only when it is published *)
Lemma step_dk s t s' : Inv hash s -> step hash s t = Some s' ->
  (length (tabs s') = length (tabs s) \/ grow s = true) /\
  (forall k, In k (done_keys s') -> In k (done_keys s) \/ PUB (tabs s') k).
Proof.
  intros I. unfold step. destruct (nth_error (threads s) t) as [th|] eqn:Ht; [|discriminate].
  unfold step_thread. destruct (nth_error (prog th) (opi th)) as [o|] eqn:Ho; [|discriminate].
  pose proof (inv_thr _ _ I _ _ Ht) as TI. unfold TInv in TI.
  assert (TIs := inv_tab _ _ I).
  rewrite sel_checker_eq. fold (chk hash (okey o)).
  destruct (tpc th) as [|n j stp base|n j stp base g cs|n j stp base c|n idx pos|n idx pos|n idx pos|n idx pos|n|n] eqn:Hpc.
  - destruct (nth_error (tabs s) 0); [|discriminate]. intros E; inversion E; subst s'; clear E. simpl. auto.
  - destruct (nth_error (tabs s) n) as [tn|]; [|discriminate].
    destruct (cands _ _); intros E; inversion E; subst s'; clear E; simpl; auto.
  - destruct TI as (o' & tn & Ho' & AG & Hb & Hs & Hne & Hcs & Hall). same_op' Ho Ho' o'.
    pose proof AG as (Hn & Hbase & Hstp & Hl). rewrite Hn. destruct cs as [|c rest]; [congruence|].
    rewrite sel_index_eq. fold (lidx tn (base + c)).
    destruct (cvals tn (lidx tn (base + c))) as [e|] eqn:Ev; [destruct (fst e =? okey o) eqn:Ek|];
      intros E; inversion E; subst s'; clear E; simpl; auto.
    split; [auto|]. destruct (is_find o) eqn:Ef; [auto|]. intros k Hk.
    destruct (Z.eq_dec k (okey o)) as [->|Hne']; [|left; unfold add_key in Hk; destruct (existsb _ _); [auto|destruct Hk; [congruence|auto]]].
    right. apply Z.eqb_eq in Ek. destruct e as [k0 v0]; simpl in Ek; subst k0.
    pose proof (TIs _ _ Hn) as TIn. destruct (Hcs c (or_introl eq_refl)) as (Hc & Hg).
    destruct (ti_val _ _ _ _ TIn _ _ Ev) as (j0 & c0 & a & b & Ho0). simpl in Ho0.
    destruct (found_pos _ _ _ _ _ _ _ _ _ _ _ _ _ TIn AG (Hb eq_refl) Hc Ev Ho0) as (-> & ->).
    exists n, tn, (lidx tn (base + c)), j, c. split; auto. split; [eauto|]. split; [eauto|].
    rewrite <- Hbase. rewrite (Hs c Hc); auto. rewrite Hg. apply chk_rng.
  - destruct (nth_error (tabs s) n) as [tn|] eqn:Hn; [|discriminate].
    destruct (_ =? cas_expected); [|destruct (cas_saw_dummy _)]; intros E; inversion E; subst s'; clear E; simpl; auto.
    split; auto. left. unfold upd_tab. apply length_set_nth.
  - destruct (nth_error (tabs s) n) as [tn|]; [|discriminate]. destruct o; [|discriminate].
    intros E; inversion E; subst s'; clear E. simpl. split; auto. left. unfold upd_tab. apply length_set_nth.
  - destruct (nth_error (tabs s) n) as [tn|]; [|discriminate]. intros E; inversion E; subst s'; clear E.
    simpl. split; auto. left. unfold upd_tab. apply length_set_nth.
  - destruct (nth_error (tabs s) n) as [tn|]; [|discriminate]. intros E; inversion E; subst s'; clear E.
    simpl. split; auto. left. unfold upd_tab. apply length_set_nth.
  - destruct TI as (k & v & tn & j & c & Ho' & (Hn & Hown & Hpos) & Hval & Hctl & Hcp). unfold cur_op in Ho'. rewrite Ho in Ho'.
    inversion Ho'; subst o; clear Ho'. rewrite Hn. simpl okey.
    intros E; inversion E; subst s'; clear E. simpl. split; [left; unfold upd_tab; apply length_set_nth|].
    intros k0 Hk.
    destruct (Z.eq_dec k0 k) as [->|Hne']; [|left; unfold add_key in Hk; destruct (existsb _ _); [auto|destruct Hk; [congruence|auto]]].
    right. eexists n, _, idx, j, c. split; [unfold upd_tab; apply nth_error_set_nth_eq; eapply nth_len; eauto|].
    simpl. split; [eauto|]. split; [eauto|]. unfold pb; simpl. fold (pb hash tn k j). rewrite <- Hpos. exact Hcp.
  - destruct (negb (grow s)).
    + intros E; inversion E; subst s'; clear E. simpl. auto.
    + destruct (nth_error (tabs s) (S n)).
      * destruct (next_is_null 1); [discriminate|]. intros E; inversion E; subst s'; clear E. simpl. auto.
      * destruct (next_is_null 0); [|discriminate]. destruct (is_find o); intros E; inversion E; subst s'; clear E; simpl; auto.
  - destruct TI as (o' & Ho' & Hf & Hg & Hlen & Hp).
    destruct (nth_error (tabs s) n) as [tn|] eqn:Hn; [|discriminate].
    destruct (nth_error (tabs s) (S n)); intros E; inversion E; subst s'; clear E; simpl; auto.
Qed.

Definition DKInv (s : st) : Prop := forall k, In k (done_keys s) -> PUB (tabs s) k.
Definition GL (s : st) : Prop := grow s = false -> length (tabs s) = 1%nat.

Lemma step_dkinv s t s' : Inv hash s -> DKInv s /\ GL s -> step hash s t = Some s' -> DKInv s' /\ GL s'.
Proof.
  intros I (D & G) H. destruct (step_inv _ _ _ _ I H) as (_ & L). destruct (step_dk _ _ _ I H) as (Hl & Hk).
  split.
  - intros k Hin. destruct (Hk _ Hin) as [Hold|Hp]; auto. eapply PUB_ext; eauto.
  - intros Hg. assert (Eg : grow s' = grow s).
    { unfold step in H. destruct (nth_error (threads s) t) as [th|] eqn:Ht; [|discriminate].
      destruct (step_shape _ _ _ _ ltac:(unfold step; rewrite Ht; exact H) Ht) as (o & th' & _ & _ & _ & Eg & _). exact Eg. }
    rewrite Eg in Hg. destruct Hl as [Hl|Hl]; [rewrite Hl; auto|congruence].
Qed.

(* ================= a lookup that began after its key was published cannot stop before the key ================= *)
Definition fcond (p : pc) (n' j' : nat) (c' : Z) : Prop :=
  match p with
  | PLoad n j _ _ => (n < n')%nat \/ (n = n' /\ (j <= j')%nat)
  | PCmp n j _ _ g cs => (n < n')%nat \/
      (n = n' /\ (((j < j')%nat /\ forall c, In c offsets -> 0 <= gget g c) \/ (j = j' /\ In c' cs)))
  | PNext n => (n < n')%nat
  | _ => True
  end.
Definition FPROG (tb : list ctab) (k : Z) (p : pc) : Prop :=
  forall n' tn' idx' j' c', pub_at tb k n' tn' idx' j' c' -> fcond p n' j' c'.

Lemma FPROG_ext s s' k p : Inv hash s' -> lext (tabs s) (tabs s') -> PUB (tabs s) k -> FPROG (tabs s) k p -> FPROG (tabs s') k p.
Proof.
  intros I' L (n0 & tn0 & idx0 & j0 & c0 & P0) F n' tn' idx' j' c' P'.
  destruct (pub_at_ext _ _ _ _ _ _ _ _ L P0) as (tn1 & P1).
  destruct (pub_at_uniq _ _ _ _ _ _ _ _ _ _ _ _ I' P' P1) as (-> & -> & -> & ->). eapply F; eauto.
Qed.

Lemma after_match_find tn n j stp base g n' j' c' k :
  stp = ps hash tn k j -> (n = n' -> emp_loop_cond (ps hash tn k j') (cmask tn) = true) ->
  ((n < n')%nat \/ (n = n' /\ (j < j')%nat /\ forall c, In c offsets -> 0 <= gget g c)) ->
  fcond (after_match true tn n j stp base g) n' j' c'.
Proof.
  intros Hstp Hl' H. unfold after_match. rewrite sel_step_inc_eq, sel_loop_cond_eq, sel_next_base_eq.
  destruct (first_empty_g g) as [o0|] eqn:E.
  - simpl. destruct H as [H|(-> & Hj & Hg)]; auto. destruct (first_empty_g_some _ _ E) as (F1 & F2 & _).
    specialize (Hg _ F1). lia.
  - destruct (emp_loop_cond (stp + emp_step_inc) (cmask tn)) eqn:El; simpl.
    + destruct H as [H|(-> & Hj & Hg)]; [left; auto|right; split; auto; lia].
    + destruct H as [H|(-> & Hj & Hg)]; auto. exfalso.
      pose proof (ps_mono hash tn k (S j) j' ltac:(lia)) as M. rewrite ps_S, <- Hstp in M.
      specialize (Hl' eq_refl). unfold emp_loop_cond in *. apply Z.leb_le in Hl'. apply Z.leb_gt in El. lia.
Qed.

Lemma find_step s t s' th o : Inv hash s -> DKInv s -> GL s -> step hash s t = Some s' ->
  nth_error (threads s) t = Some th -> cur_op th = Some o -> is_find o = true -> tpc th <> Idle ->
  In (okey o) (done_keys s) -> FPROG (tabs s) (okey o) (tpc th) ->
  exists th', nth_error (threads s') t = Some th' /\ tabs s' = tabs s /\ FPROG (tabs s) (okey o) (tpc th') /\
    (forall sn a b e, results th' <> results th ++ [(RFind None sn a, b, e)]).
Proof.
  intros I D G H Ht Hop Hf Hni Hdk F.
  destruct (D _ Hdk) as (n' & tn' & idx' & j' & c' & P).
  pose proof (F _ _ _ _ _ P) as FC.
  assert (FALL : forall p, fcond p n' j' c' -> FPROG (tabs s) (okey o) p).
  { intros p Hp n2 tn2 idx2 j2 c2 P2. destruct (pub_at_uniq _ _ _ _ _ _ _ _ _ _ _ _ I P2 P) as (-> & -> & -> & ->). exact Hp. }
  pose proof P as (Hn' & (tid' & opn' & Ho') & (v' & Hv') & Hc').
  pose proof (inv_tab _ _ I _ _ Hn') as TI'.
  destruct (ti_own _ _ _ _ TI' _ _ _ _ _ _ Ho') as (E1 & E2 & E3 & E4 & _).
  assert (Hset : forall x, nth_error (set_nth t x (threads s)) t = Some x).
  { intros x. apply nth_error_set_nth_eq. eapply nth_len; eauto. }
  assert (LC : forall n tn, nth_error (tabs s) n = Some tn -> n = n' -> emp_loop_cond (ps hash tn (okey o) j') (cmask tn) = true).
  { intros n tn Hn ->. rewrite Hn' in Hn. inversion Hn; subst tn. exact E3. }
  assert (NE : forall (l : list (res * nat * nat)) x, l <> l ++ [x]).
  { intros l x E. apply (f_equal (@length _)) in E. rewrite app_length in E. simpl in E. lia. }
  revert H. unfold step. rewrite Ht. unfold step_thread. unfold cur_op in Hop. rewrite Hop.
  pose proof (inv_thr _ _ I _ _ Ht) as TI. unfold TInv in TI.
  rewrite sel_checker_eq. fold (chk hash (okey o)). rewrite Hf.
  destruct (tpc th) as [|n j stp base|n j stp base g cs|n j stp base c|n idx pos|n idx pos|n idx pos|n idx pos|n|n] eqn:Hpc.
  - congruence.
  - (* PLoad *)
    destruct TI as (o' & tn & Ho2 & AG & _). same_op' Hop Ho2 o'.
    pose proof AG as (Hn & Hbase & Hstp & Hl). rewrite Hn.
    assert (GF : n = n' -> (j < j')%nat -> forall c, In c offsets -> 0 <= gget (gload tn base) c).
    { intros -> Hj c Hc. rewrite Hn' in Hn. inversion Hn; subst tn'. rewrite gget_gload by auto.
      destruct E4 as (_ & B2). destruct (B2 _ Hn') as (G1 & _). rewrite Hbase. apply (G1 _ Hj _ Hc). }
    assert (GC : n = n' -> j = j' -> In c' (cands (gload tn base) (chk hash (okey o)))).
    { intros -> ->. rewrite Hn' in Hn. inversion Hn; subst tn'. apply cands_in. split; auto.
      rewrite gget_gload by auto. rewrite Hbase. exact Hc'. }
    simpl in FC.
    destruct (cands (gload tn base) (chk hash (okey o))) as [|c0 cs0] eqn:Ec; intros E; inversion E; subst s'; clear E; simpl.
    + eexists. split; [apply Hset|]. split; [reflexivity|]. simpl. split; [|intros; apply NE].
      apply FALL. destruct FC as [FC|(-> & Hj)].
      * eapply after_match_find; eauto.
      * destruct (Nat.eq_dec j j') as [->|Hne]; [destruct (GC eq_refl eq_refl)|].
        eapply after_match_find; eauto. right. split; auto. split; [lia|]. apply GF; auto. lia.
    + eexists. split; [apply Hset|]. split; [reflexivity|]. simpl. split; [|intros; apply NE].
      apply FALL. simpl. destruct FC as [FC|(-> & Hj)]; [left; auto|]. right. split; auto.
      destruct (Nat.eq_dec j j') as [->|Hne]; [right; split; auto; exact (GC eq_refl eq_refl)|].
      left. split; [lia|]. apply GF; auto. lia.
  - (* PCmp *)
    destruct TI as (o' & tn & Ho2 & AG & _ & Hs & Hne & Hcs & Hall). same_op' Hop Ho2 o'.
    pose proof AG as (Hn & Hbase & Hstp & Hl). rewrite Hn. destruct cs as [|c rest]; [congruence|].
    rewrite sel_index_eq. fold (lidx tn (base + c)). simpl in FC.
    assert (CONT : (c = c' -> n = n' -> j = j' -> False) ->
              FPROG (tabs s) (okey o) (match rest with [] => after_match true tn n j stp base g | _ :: _ => PCmp n j stp base g rest end)).
    { intros Hx. apply FALL. destruct FC as [FC|(-> & [(Hj & Hg)|(-> & Hin)])].
      - destruct rest; [eapply after_match_find; eauto|simpl; auto].
      - destruct rest; [eapply after_match_find; eauto|simpl; auto].
      - destruct Hin as [->|Hin]; [exfalso; apply Hx; auto|]. destruct rest; [destruct Hin|]. simpl. right. split; auto. }
    destruct (cvals tn (lidx tn (base + c))) as [e|] eqn:Ev; [destruct (fst e =? okey o) eqn:Ek|];
      intros E; inversion E; subst s'; clear E; simpl.
    + eexists. split; [apply Hset|]. split; [reflexivity|]. simpl. split; [apply FALL; exact Logic.I|].
      intros sn a b e0 E. apply app_inv_head in E. inversion E.
    + eexists. split; [apply Hset|]. split; [reflexivity|]. simpl. split; [|intros; apply NE].
      apply CONT. intros -> -> ->. rewrite Hn' in Hn. inversion Hn; subst tn'. rewrite Hbase, <- E2, Hv' in Ev.
      inversion Ev; subst e. simpl in Ek. rewrite Z.eqb_refl in Ek. discriminate.
    + eexists. split; [apply Hset|]. split; [reflexivity|]. simpl. split; [|intros; apply NE].
      apply CONT. intros -> -> ->. rewrite Hn' in Hn. inversion Hn; subst tn'. rewrite Hbase, <- E2, Hv' in Ev. discriminate.
  - destruct TI as (o' & tn & Ho2 & Hf' & _). same_op' Hop Ho2 o'. congruence.
  - destruct TI as (k & v & tn & j & c & Ho2 & _). unfold cur_op in Ho2. rewrite Hop in Ho2. inversion Ho2; subst o. discriminate.
  - destruct TI as (k & v & tn & j & c & Ho2 & _). unfold cur_op in Ho2. rewrite Hop in Ho2. inversion Ho2; subst o. discriminate.
  - destruct TI as (k & v & tn & j & c & Ho2 & _). unfold cur_op in Ho2. rewrite Hop in Ho2. inversion Ho2; subst o. discriminate.
  - destruct TI as (k & v & tn & j & c & Ho2 & _). unfold cur_op in Ho2. rewrite Hop in Ho2. inversion Ho2; subst o. discriminate.
  - (* PNext *)
    simpl in FC. pose proof (nth_len _ _ _ Hn') as Hlen'.
    destruct (negb (grow s)) eqn:Eg.
    + exfalso. assert (grow s = false) by (destruct (grow s); auto; discriminate). rewrite (G H) in Hlen'. lia.
    + destruct (nth_error (tabs s) (S n)) as [tnx|] eqn:Enx.
      * rewrite null_1. intros E; inversion E; subst s'; clear E; simpl.
        eexists. split; [apply Hset|]. split; [reflexivity|]. simpl. split; [|intros; apply NE].
        apply FALL. unfold start_table. simpl. lia.
      * exfalso. apply nth_error_None in Enx. lia.
  - destruct TI as (o' & Ho2 & Hf' & _). same_op' Hop Ho2 o'. congruence.
Qed.

Lemma idle_step s t s' th : step hash s t = Some s' -> nth_error (threads s) t = Some th -> tpc th = Idle ->
  exists th' b, nth_error (threads s') t = Some th' /\ tpc th' = PLoad 0 0 0 b /\ tabs s' = tabs s.
Proof.
  unfold step. intros H Ht Hpc. rewrite Ht in H. revert H. unfold step_thread.
  destruct (nth_error (prog th) (opi th)) as [o|]; [|discriminate]. rewrite Hpc.
  destruct (nth_error (tabs s) 0); [|discriminate]. intros E; inversion E; subst s'; clear E.
  eexists _, _. split; [apply nth_error_set_nth_eq; eapply nth_len; eauto|]. split; reflexivity.
Qed.

(* ================= the linearisation invariant: stamps, published keys, lookups in flight ================= *)
Record LInv (s : st) : Prop := {
  li_dk : DKInv s;
  li_gl : GL s;
  li_f : forall t th o, nth_error (threads s) t = Some th -> tpc th <> Idle -> cur_op th = Some o -> is_find o = true ->
           fpub th = true -> In (okey o) (done_keys s) /\ FPROG (tabs s) (okey o) (tpc th);
  li_fres : forall t i o sn a b e, event_st s t i o (RFind None sn a) b e -> a = false;
  li_s1 : forall t i o r b e, event_st s t i o r b e -> (b <= e)%nat /\ (e < now s)%nat;
  li_s2 : forall t th, nth_error (threads s) t = Some th -> tpc th <> Idle -> (tbegin th < now s)%nat;
  li_s3 : forall t i o r b e, event_st s t i o r b e -> is_find o = false -> slot_of r <> None -> In (okey o) (done_keys s);
  li_s4 : forall t i o r b e t' th' o', event_st s t i o r b e -> is_find o = false -> slot_of r <> None ->
           nth_error (threads s) t' = Some th' -> tpc th' <> Idle -> cur_op th' = Some o' -> okey o' = okey o ->
           (e < tbegin th')%nat -> fpub th' = true;
  li_s5 : forall t i o r b e t' i' o' r' b' e', event_st s t i o r b e -> is_find o = false -> slot_of r <> None ->
           event_st s t' i' o' r' b' e' -> is_find o' = true -> okey o' = okey o -> (e < b')%nat -> rflag r' = true
}.

Lemma existsb_in k dk : In k dk -> existsb (Z.eqb k) dk = true.
Proof. intros H. apply existsb_exists. exists k. split; auto. apply Z.eqb_refl. Qed.
Lemma existsb_in_inv k dk : existsb (Z.eqb k) dk = true -> In k dk.
Proof. intros H. apply existsb_exists in H. destruct H as (x & Hx & E). apply Z.eqb_eq in E. subst. auto. Qed.

Lemma step_linv s t s' : Inv hash s -> RInv hash s -> LInv s -> step hash s t = Some s' -> LInv s'.
Proof.
  intros I R L H. destruct (step_inv _ _ _ _ I H) as (I' & LX). pose proof (step_rinv _ _ _ _ I R H) as R'.
  pose proof H as H0. unfold step in H0. destruct (nth_error (threads s) t) as [th|] eqn:Ht; [|discriminate]. clear H0.
  destruct (step_shape _ _ _ _ H Ht) as (o & th' & Hop & Hthr & Hnow & Hgrow & Hprog & Hmono & Hcase).
  pose proof (ri_len _ _ R _ _ Ht) as Hlen.
  assert (Hnew : nth_error (threads s') t = Some th').
  { rewrite Hthr. apply nth_error_set_nth_eq. eapply nth_len; eauto. }
  assert (THR : forall t1 x, nth_error (threads s') t1 = Some x -> (t1 = t /\ x = th') \/ (t1 <> t /\ nth_error (threads s) t1 = Some x)).
  { intros t1 x Hx. rewrite Hthr in Hx. apply (nth_set_threads _ _ _ _ _ _ Ht Hx). }
  assert (Hcur : tpc th' <> Idle -> cur_op th' = Some o).
  { intros Hni. unfold cur_op. rewrite Hprog. destruct Hcase as [(_ & _ & -> & _)|[(_ & -> & _)|(_ & r & Hi & _)]]; auto. congruence. }
  (* an event of s' is an event of s or the result just appended *)
  assert (EV : forall t1 i o1 r b e, event_st s' t1 i o1 r b e ->
            event_st s t1 i o1 r b e \/
            (t1 = t /\ i = opi th /\ o1 = o /\ tpc th <> Idle /\ b = tbegin th /\ e = now s /\ tpc th' = Idle /\
             results th' = results th ++ [(r, b, e)] /\
             match r with RFind _ _ a => a = fpub th /\ is_find o = true | REmp _ _ _ _ => In (okey o) (done_keys s') | RFull => True end)).
  { intros t1 i o1 r b e (x & Hx & Ho1 & Hr). destruct (THR _ _ Hx) as [(-> & ->)|(Hne & Hx')]; [|left; exists x; auto].
    rewrite Hprog in Ho1. destruct Hcase as [(_ & _ & _ & Er & _)|[(_ & _ & Er & _)|(Hni & r0 & Hi & Eo & Er & Hm)]].
    - left. exists th. rewrite Er in Hr. auto.
    - left. exists th. rewrite Er in Hr. auto.
    - rewrite Er in Hr. destruct (Nat.lt_ge_cases i (length (results th))) as [Hlt|Hge].
      + rewrite nth_error_app1 in Hr by auto. left. exists th. auto.
      + rewrite nth_error_app2 in Hr by auto. destruct (i - length (results th))%nat eqn:Ed; simpl in Hr; [|destruct n; discriminate].
        inversion Hr; subst r0 b e. assert (i = opi th) by lia. subst i. right.
        unfold cur_op in Hop. rewrite Hop in Ho1. inversion Ho1; subst o1. repeat split; auto. }
  destruct (step_dkinv _ _ _ I (conj (li_dk _ L) (li_gl _ L)) H) as (D' & G').
  constructor; auto.
  - (* lookups in flight *)
    intros t1 x o1 Hx Hni Hc1 Hf1 Hp1. destruct (THR _ _ Hx) as [(-> & ->)|(Hne & Hx')].
    + pose proof (Hcur Hni) as Hc2. rewrite Hc1 in Hc2. inversion Hc2; subst o1.
      destruct Hcase as [(Hi & _ & _ & _ & _ & Efp)|[(Hni0 & Eo & Er & Etb & Efp)|(_ & r & Hi & _)]]; [| |congruence].
      * destruct (idle_step _ _ _ _ H Ht Hi) as (th2 & b0 & Hth2 & Hpc2 & Etabs). rewrite Hnew in Hth2. inversion Hth2; subst th2.
        rewrite Efp in Hp1. split; [apply Hmono; apply existsb_in_inv; auto|]. rewrite Hpc2.
        intros n' tn' idx' j' c' _. simpl. lia.
      * rewrite Efp in Hp1. destruct (li_f _ L _ _ _ Ht Hni0 Hop Hf1 Hp1) as (Hdk & F).
        destruct (find_step _ _ _ _ _ I (li_dk _ L) (li_gl _ L) H Ht Hop Hf1 Hni0 Hdk F) as (th2 & Hth2 & Etabs & F2 & _).
        rewrite Hnew in Hth2. inversion Hth2; subst th2. split; [auto|]. rewrite Etabs. exact F2.
    + destruct (li_f _ L _ _ _ Hx' Hni Hc1 Hf1 Hp1) as (Hdk & F). split; [auto|].
      eapply FPROG_ext; eauto. apply (li_dk _ L). auto.
  - (* a lookup that began after the publication never returns end() *)
    intros t1 i o1 sn a b e Hev. destruct (EV _ _ _ _ _ _ Hev) as [Hold|(-> & -> & -> & Hni0 & _ & _ & _ & Er & (Ea & Hf0))].
    + eapply (li_fres _ L); eauto.
    + destruct a; [|reflexivity]. exfalso. symmetry in Ea.
      destruct (li_f _ L _ _ _ Ht Hni0 Hop Hf0 Ea) as (Hdk & F).
      destruct (find_step _ _ _ _ _ I (li_dk _ L) (li_gl _ L) H Ht Hop Hf0 Hni0 Hdk F) as (th2 & Hth2 & _ & _ & NR).
      rewrite Hnew in Hth2. inversion Hth2; subst th2. eapply NR; eauto.
  - (* stamps of events *)
    intros t1 i o1 r b e Hev. destruct (EV _ _ _ _ _ _ Hev) as [Hold|(-> & -> & -> & Hni0 & -> & -> & _)].
    + destruct (li_s1 _ L _ _ _ _ _ _ Hold). lia.
    + pose proof (li_s2 _ L _ _ Ht Hni0). lia.
  - (* begin stamps of running operations *)
    intros t1 x Hx Hni. destruct (THR _ _ Hx) as [(-> & ->)|(Hne & Hx')]; [|pose proof (li_s2 _ L _ _ Hx' Hni); lia].
    destruct Hcase as [(_ & _ & _ & _ & Etb & _)|[(Hni0 & _ & _ & Etb & _)|(_ & r & Hi & _)]]; [lia| |congruence].
    pose proof (li_s2 _ L _ _ Ht Hni0). lia.
  - (* returned insertions are in done_keys *)
    intros t1 i o1 r b e Hev Hf1 Hs1. destruct (EV _ _ _ _ _ _ Hev) as [Hold|(-> & -> & -> & _ & _ & _ & _ & _ & Hm)].
    + apply Hmono. eapply (li_s3 _ L); eauto.
    + destruct r as [n0 x0 ins sn| |x0 sn a]; [exact Hm|simpl in Hs1; congruence|destruct Hm; congruence].
  - (* an operation that begins after a returned insertion of its key knows it *)
    intros t1 i o1 r b e t2 x o2 Hev Hf1 Hs1 Hx Hni Hc2 Hk Hlt.
    destruct (EV _ _ _ _ _ _ Hev) as [Hold|(-> & -> & -> & Hni0 & _ & -> & Hi' & _)].
    + destruct (THR _ _ Hx) as [(-> & ->)|(Hne & Hx')]; [|eapply (li_s4 _ L); eauto].
      pose proof (Hcur Hni) as Hc3. rewrite Hc2 in Hc3. inversion Hc3; subst o2.
      destruct Hcase as [(_ & _ & _ & _ & _ & Efp)|[(Hni0 & Eo & Er & Etb & Efp)|(_ & r0 & Hi & _)]]; [| |congruence].
      * rewrite Efp. apply existsb_in. rewrite Hk. eapply (li_s3 _ L); eauto.
      * rewrite Efp. rewrite Etb in Hlt. eapply (li_s4 _ L); eauto.
    + destruct (THR _ _ Hx) as [(-> & ->)|(Hne & Hx')]; [congruence|].
      pose proof (li_s2 _ L _ _ Hx' Hni). lia.
  - (* the stamp statement itself, with the flag a lookup carries *)
    intros t1 i o1 r b e t2 i2 o2 r2 b2 e2 Hev Hf1 Hs1 Hev2 Hf2 Hk Hlt.
    destruct (EV _ _ _ _ _ _ Hev) as [Hold|(-> & -> & -> & Hni0 & _ & -> & _ & _ & Hm)];
    destruct (EV _ _ _ _ _ _ Hev2) as [Hold2|(-> & -> & -> & Hni2 & -> & -> & _ & Er2 & Hm2)].
    + exact (li_s5 _ L _ _ _ _ _ _ _ _ _ _ _ _ Hold Hf1 Hs1 Hold2 Hf2 Hk Hlt).
    + assert (Hr2 : nth_error (results th') (opi th) = Some (r2, tbegin th, now s)).
      { rewrite Er2, nth_error_app2 by lia. rewrite Hlen, Nat.sub_diag. reflexivity. }
      destruct (ri_res _ _ R' _ _ _ _ _ _ Hnew Hr2) as (o3 & Ho3 & HR).
      rewrite Hprog in Ho3. unfold cur_op in Hop. rewrite Hop in Ho3. inversion Ho3; subst o3.
      destruct r2 as [n0 x0 ins sn| |x0 sn a].
      * destruct HR as (Hf3 & _). congruence.
      * destruct HR as (Hf3 & _). congruence.
      * destruct Hm2 as (-> & _). simpl. eapply (li_s4 _ L); eauto.
    + destruct (li_s1 _ L _ _ _ _ _ _ Hold2). lia.
    + congruence.
Qed.

Lemma init_linv cap g progs : LInv (init cap g progs).
Proof.
  assert (NE : forall t i o r b e, ~ event_st (init cap g progs) t i o r b e).
  { intros t i o r b e (th & Hth & _ & Hr). simpl in Hth. apply nth_error_In in Hth. apply in_map_iff in Hth.
    destruct Hth as (p & <- & _). simpl in Hr. destruct i; discriminate. }
  assert (ID : forall t th, nth_error (threads (init cap g progs)) t = Some th -> tpc th = Idle).
  { intros t th Hth. simpl in Hth. apply nth_error_In in Hth. apply in_map_iff in Hth. destruct Hth as (p & <- & _). reflexivity. }
  constructor.
  - intros k [].
  - intros _. reflexivity.
  - intros t th o Hth Hni. rewrite (ID _ _ Hth) in Hni. congruence.
  - intros t i o sn a b e Hev. destruct (NE _ _ _ _ _ _ Hev).
  - intros t i o r b e Hev. destruct (NE _ _ _ _ _ _ Hev).
  - intros t th Hth Hni. rewrite (ID _ _ Hth) in Hni. congruence.
  - intros t i o r b e Hev. destruct (NE _ _ _ _ _ _ Hev).
  - intros t i o r b e t' th' o' Hev. destruct (NE _ _ _ _ _ _ Hev).
  - intros t i o r b e t' i' o' r' b' e' Hev. destruct (NE _ _ _ _ _ _ Hev).
Qed.

Lemma hc_linv cap g progs s : Reach hash cap g progs s -> LInv s.
Proof.
  intros R. assert (G : (Inv hash s /\ RInv hash s) /\ LInv s); [|apply G].
  revert s R. apply (inv_reachable st (step hash) (fun s => (Inv hash s /\ RInv hash s) /\ LInv s)).
  - split; [split; [apply init_inv|apply init_rinv]|apply init_linv].
  - intros s0 t s1 ((I & R) & L) H. split; [split; [apply (step_inv _ _ _ _ I H)|eapply step_rinv; eauto]|eapply step_linv; eauto].
Qed.

(* --- a lookup whose begin stamp is after the end stamp of an insertion of its key that returned a slot finds that slot --- *)
Theorem hc_find_after_insert : find_after_insert_stmt hash.
Proof.
  intros cap g progs s t i o r b e t' i' o' r' b' e' n x sn R Hev Hf Hs Hev' Hf' Hk Hlt.
  pose proof (hc_linv _ _ _ _ R) as L.
  assert (Hs0 : slot_of r <> None) by congruence.
  pose proof (li_s5 _ L _ _ _ _ _ _ _ _ _ _ _ _ Hev Hf Hs0 Hev' Hf' Hk Hlt) as Hflag.
  assert (E1 : event s t i o r). { destruct Hev as (th & ? & ? & ?). exists th, b, e. auto. }
  assert (E2 : event s t' i' o' r'). { destruct Hev' as (th & ? & ? & ?). exists th, b', e'. auto. }
  pose proof (event_res _ _ _ _ _ _ _ _ _ R E2) as HR.
  destruct r' as [n0 x0 ins sn0| |[[n0 x0]|] sn0 a].
  - destruct HR as (Hf3 & _). congruence.
  - destruct HR as (Hf3 & _). congruence.
  - destruct (hc_same_element hash cap g progs s _ _ _ _ _ _ _ _ _ _ _ _ _ _ R E1 E2 (eq_sym Hk) Hs eq_refl) as (-> & -> & _). simpl. eexists. reflexivity.
  - simpl in Hflag. subst a. pose proof (li_fres _ L _ _ _ _ _ _ _ Hev'). discriminate.
Qed.
End Lin.
