(* Proofs about HCModel (concurrent view of the hash tables). *)
From Coq Require Import ZArith List Bool Lia.
Require Import Verif.Base.Atomics Verif.Gen.Gen_hash_table Verif.Gen.Gen_hash_table_conc Verif.Conc.Machine
               Verif.HS.HSModel Verif.HS.HSProofs Verif.HC.HCModel.
Import ListNotations.
Local Open Scope Z_scope.

(* memory-order obligations on the regenerated site tables *)
Definition orders_ok : bool :=
  match sites_do_emplace, sites_table_find, sites_set_emplace, sites_set_find with
  | [(KFence, o_ef, _); (KCasS, o_cas, _); (KStore, o_s1, _); (KStore, o_s2, _)], [(KFence, o_ff, _)],
    [(KLoad, o_nl, _); (KCasS, o_nc, o_ncf)], [(KLoad, o_f1, _); (KLoad, o_f2, _)] =>
    has_acquire o_ef && has_acquire o_cas && has_release o_s1 && has_release o_s2 && has_acquire o_ff &&
    has_acquire o_nl && has_release o_nc && has_acquire o_ncf && has_acquire o_f1 && has_acquire o_f2
  | _, _, _, _ => false
  end.

Lemma hc_orders_ok : orders_ok = true.
Proof. vm_compute. reflexivity. Qed.
